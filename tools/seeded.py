#!/venv/bin/python
"""Seeded (deliberately property-breaking) changes: confirm and run checks against them.

  seeded.py confirm <dir>          dir holds patch.diff + demo.py: in a fresh worktree of /repo HEAD check that
                                   demo passes before, fails after, and the pinned baseline still passes after
  seeded.py check <id> [tier]      apply /verif/seeded/<id>/patch.diff in a scratch worktree, run the property's
                                   check against it (TDDA_SRC), report caught / missed; evidence goes to scratch
  seeded.py all [tier]             the same for every /verif/seeded/*/meta.json, prints a table
Scratch worktrees live under /var/tmp/wt and are always removed.
"""
import json, os, shutil, subprocess, sys, tempfile
V = '/verif'; REPO = '/repo'; PY = '/venv/bin/python'

def sh(cmd, **kw):
    return subprocess.run(cmd, capture_output=True, text=True, **kw)

class Worktree:
    def __init__(self, patch=None):
        self.patch = patch
    def __enter__(self):
        os.makedirs('/var/tmp/wt', exist_ok=True)
        self.dir = tempfile.mkdtemp(prefix='seed_', dir='/var/tmp/wt'); os.rmdir(self.dir)
        r = sh(['git', '-C', REPO, 'worktree', 'add', '-q', '--detach', self.dir, 'HEAD'])
        assert r.returncode == 0, r.stderr
        if self.patch:
            r = sh(['git', '-C', self.dir, 'apply', '--whitespace=nowarn', os.path.abspath(self.patch)])
            if r.returncode != 0:
                self.__exit__(None, None, None)
                raise SystemExit('patch does not apply: %s\n%s' % (self.patch, r.stderr))
        return self.dir
    def __exit__(self, *a):
        sh(['git', '-C', REPO, 'worktree', 'remove', '--force', self.dir])
        shutil.rmtree(self.dir, ignore_errors=True)
        sh(['git', '-C', REPO, 'worktree', 'prune'])

def run_demo(tree, demo):
    env = dict(os.environ, PYTHONPATH=tree, PYTHONDONTWRITEBYTECODE='1', PYTHONHASHSEED='0')
    return sh([PY, os.path.abspath(demo)], env=env, cwd='/var/tmp')

def confirm(d):
    patch, demo = os.path.join(d, 'patch.diff'), os.path.join(d, 'demo.py')
    with Worktree() as t:
        before = run_demo(t, demo)
    with Worktree(patch) as t:
        after = run_demo(t, demo)
        base = sh([PY, os.path.join(V, 'tools', 'baseline.py'), t])
    ok = before.returncode == 0 and after.returncode != 0 and base.returncode == 0
    print(json.dumps({'dir': d, 'demo_before_rc': before.returncode, 'demo_after_rc': after.returncode,
                      'baseline': base.stdout.strip().splitlines()[0] if base.stdout else base.stderr[-300:],
                      'confirmed': ok, 'after_tail': (after.stdout + after.stderr)[-400:],
                      'before_tail': (before.stdout + before.stderr)[-300:] if before.returncode else ''}, indent=1))
    return ok

def check(sid, tier='quick', props=None):
    d = os.path.join(V, 'seeded', sid)
    meta = json.load(open(os.path.join(d, 'meta.json')))
    props = props or meta.get('run_checks') or [meta['property']]
    out = {}
    with Worktree(os.path.join(d, 'patch.diff')) as t:
        ev = tempfile.mkdtemp(prefix='ev_', dir='/var/tmp')
        try:
            for pid in props:
                env = dict(os.environ, TDDA_SRC=t, VERIF_EVIDENCE_DIR=ev, VERIF_REPLAY_DIR=os.path.join(ev, 'replays'))
                r = sh([PY, '-m', 'mc.run', pid, '--tier', tier], env=env, cwd=V)
                viol = [l for l in r.stdout.splitlines() if l.startswith('VIOLATION')]
                sigs = [l.strip() for l in r.stdout.splitlines() if l.startswith('  sig=')]
                out[pid] = {'rc': r.returncode, 'violations': len(viol), 'sigs': sigs[:4],
                            'tail': r.stdout.strip().splitlines()[-1:] }
        finally:
            shutil.rmtree(ev, ignore_errors=True)
    return out

if __name__ == '__main__':
    cmd = sys.argv[1]
    if cmd == 'confirm':
        sys.exit(0 if confirm(sys.argv[2]) else 1)
    elif cmd == 'check':
        res = check(sys.argv[2], sys.argv[3] if len(sys.argv) > 3 else 'quick', sys.argv[4:] or None)
        print(json.dumps(res, indent=1))
        sys.exit(0 if any(v['rc'] == 1 for v in res.values()) else 1)
    elif cmd == 'refresh':
        # re-run every seeded change and record the current result in its meta.json
        # (the result of the very first run is kept as first_quick_check_result)
        only = [a for a in sys.argv[2:] if not a.startswith('--')]
        missed_only = '--missed-only' in sys.argv
        for sid in sorted(os.listdir(os.path.join(V, 'seeded'))):
            mp = os.path.join(V, 'seeded', sid, 'meta.json')
            if not os.path.exists(mp) or (only and not any(sid.startswith(o) for o in only)): continue
            m = json.load(open(mp))
            if m.get('obsolete'):
                print('%-22s obsolete patch (skipped)' % sid, flush=True); continue
            if missed_only and (m.get('outside_statement') or all(
                    r.get('caught') for r in (m.get('quick_check_result') or {'x': {}}).values())):
                continue
            res = check(sid)
            cur = {p: {'caught': v['rc'] == 1, 'rc': v['rc'], 'sigs': v['sigs'][:3]} for p, v in res.items()}
            if 'first_quick_check_result' not in m:
                m['first_quick_check_result'] = m.get('quick_check_result') or cur
            m['quick_check_result'] = cur
            json.dump(m, open(mp, 'w'), indent=1)
            print('%-22s %s' % (sid, ' '.join('%s:%s' % (p, 'CAUGHT' if v['rc'] == 1 else 'MISSED rc=%d' % v['rc']) for p, v in res.items())), flush=True)
    elif cmd == 'all':
        tier = sys.argv[2] if len(sys.argv) > 2 else 'quick'
        for sid in sorted(os.listdir(os.path.join(V, 'seeded'))):
            if not os.path.exists(os.path.join(V, 'seeded', sid, 'meta.json')): continue
            res = check(sid, tier)
            print('%-28s %s' % (sid, ' '.join('%s:%s' % (p, 'CAUGHT' if v['rc'] == 1 else ('MISSED' if v['rc'] == 0 else 'ERR%d' % v['rc'])) for p, v in res.items())), flush=True)
