#!/venv/bin/python
"""import_seeded.py CNN [srcdir [tag]] : import /var/tmp/mut_out/CNN/m{k}.* as /verif/seeded/CNN-m{k}/, confirm (demo before/after, baseline), run the check."""
import json, os, shutil, subprocess, sys
sys.path.insert(0, os.path.dirname(os.path.abspath(__file__)))
import seeded
pid = sys.argv[1]
src = sys.argv[2] if len(sys.argv) > 2 else '/var/tmp/mut_out/%s' % pid
tag = sys.argv[3] if len(sys.argv) > 3 else 'm'
for k in (1, 2, 3, 4, 5):
    if not os.path.exists('%s/m%d.diff' % (src, k)): continue
    sid = '%s-%s%d' % (pid, tag, k)
    d = os.path.join('/verif/seeded', sid); os.makedirs(d, exist_ok=True)
    shutil.copy('%s/m%d.diff' % (src, k), d + '/patch.diff')
    shutil.copy('%s/m%d_demo.py' % (src, k), d + '/demo.py')
    notes = open('%s/m%d_notes.txt' % (src, k)).read() if os.path.exists('%s/m%d_notes.txt' % (src, k)) else ''
    open(d + '/notes.txt', 'w').write(notes)
    import io, contextlib
    buf = io.StringIO()
    with contextlib.redirect_stdout(buf):
        ok = seeded.confirm(d)
    conf = json.loads(buf.getvalue())
    meta = {'id': sid, 'property': pid,
            'origin': 'independent sub-agent given only the property text and a scratch worktree of /repo (nothing from /verif)',
            'breaks_and_needs': 'see notes.txt (written by the sub-agent)',
            'confirmed': {'demo_before_rc': conf['demo_before_rc'], 'demo_after_rc': conf['demo_after_rc'], 'baseline': conf['baseline'].split(' ', 1)[1] if ' ' in conf['baseline'] else conf['baseline']},
            'ran': 'tools/seeded.py confirm seeded/%s ; tools/seeded.py check %s' % (sid, sid)}
    if not ok:
        print(sid, 'NOT CONFIRMED', conf); meta['confirmed']['ok'] = False
        json.dump(meta, open(d + '/meta.json.rejected', 'w'), indent=1); continue
    json.dump(meta, open(d + '/meta.json', 'w'), indent=1)
    res = seeded.check(sid)
    meta['quick_check_result'] = {p: {'caught': v['rc'] == 1, 'rc': v['rc'], 'sigs': v['sigs'][:3]} for p, v in res.items()}
    meta['first_quick_check_result'] = meta['quick_check_result']
    json.dump(meta, open(d + '/meta.json', 'w'), indent=1)
    print(sid, 'confirmed;', ' '.join('%s:%s' % (p, 'CAUGHT' if v['rc'] == 1 else 'MISSED rc=%d' % v['rc']) for p, v in res.items()), flush=True)
