#!/bin/bash
# runall.sh [tier] : run every registered check once against /repo, print the summary line of each
tier=${1:-quick}
cd /verif
for i in $(seq -w 1 19); do
  /venv/bin/python -m mc.run C$i --tier $tier 2>&1 | grep -E "^VIOLATION|^HARNESS|^KNOWN-FINDING|\] (OK|FAIL)" | cut -c1-200
done
