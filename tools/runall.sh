#!/bin/bash
# runall.sh [tier] [evidence-dir]: run every registered check once against /repo from the directory this script
# lives in (so it works inside a `vp run` snapshot), print the summary lines; optional evidence-dir keeps
# /verif/evidence untouched (used for background thorough sweeps).
tier=${1:-quick}
here=$(cd "$(dirname "$0")/.." && pwd)
cd "$here"
if [ -n "$2" ]; then export VERIF_EVIDENCE_DIR="$2" VERIF_REPLAY_DIR="$2/replays"; mkdir -p "$2"; fi
for i in $(seq -w 1 19); do
  /venv/bin/python -m mc.run C$i --tier $tier 2>&1 | grep -E "^VIOLATION|^  sig=|^HARNESS|^KNOWN-FINDING|layer .*CAPPED|\] (OK|FAIL)" | cut -c1-220
done
