#!/venv/bin/python
"""Refreshes the generated blocks of /verif/DESIGN.md (between <!-- BEGIN GENERATED:x --> / <!-- END GENERATED:x -->)
from known_findings.json, seeded/*/meta.json, mutants/RESULTS.json and evidence/*.json."""
import json, os, re, subprocess, sys
V = '/verif'

def fixes():
    kf = json.load(open(V + '/known_findings.json'))
    rows = ['| property | fix commit | what failed on the original tree |', '|---|---|---|']
    for line in kf['fixed']:
        m = re.match(r'fixed: property=(C\d+) (\w+) (.*)', line)
        if m: rows.append('| %s | `%s` | %s |' % (m.group(1), m.group(2), m.group(3).replace('|', '\\|')))
    out = ['%d fix records (%d distinct commits in /repo, each a separate unguarded `fix:` commit; the pinned 218-test baseline passes after each):' % (
        len(rows) - 2, len(set(r.split('`')[1] for r in rows[2:]))), ''] + rows
    out += ['', 'Open known findings (genuine defects recorded, not repaired; matched by exact signature):', '',
            '| property | signature | what fails |', '|---|---|---|']
    for f in kf['findings']:
        if f.get('status', 'open') == 'open':
            out.append('| %s | `%s` | %s |' % (f['property'], f['sig'], f['what'].replace('|', '\\|')))
    return '\n'.join(out)

def seeded():
    rows = ['| seeded change | property | origin | what it breaks / needs (short) | quick check |', '|---|---|---|---|---|']
    global firstcaught
    n = caught = firstcaught = 0
    for sid in sorted(os.listdir(V + '/seeded')):
        mp = os.path.join(V, 'seeded', sid, 'meta.json')
        if not os.path.exists(mp): continue
        m = json.load(open(mp))
        res = m.get('quick_check_result') or {}
        st = ', '.join('%s: %s' % (p, 'caught' if r.get('caught') else 'MISSED') for p, r in sorted(res.items())) or m.get('result', '?')
        if m.get('obsolete'):
            st += ' (patch obsolete: the code it changed was rewritten by a later fix)'
        if m.get('outside_statement'):
            st = st.replace('MISSED', 'silent by design (the change does not break the statement, see meta.json)')
        first = m.get('first_quick_check_result') or {}
        if first and any(not r.get('caught') for r in first.values()) and all(r.get('caught') for r in res.values()):
            st += ' (missed at first run; caught after the check was strengthened)'
        short = m.get('breaks') or ''
        if not short:
            np_ = os.path.join(V, 'seeded', sid, 'notes.txt')
            if os.path.exists(np_):
                txt = ' '.join(open(np_).read().split())
                short = txt[:230] + ('…' if len(txt) > 230 else '')
        origin = 'independent agent' if 'independent' in m.get('origin', '') else 'reverse of a fix'
        rows.append('| `%s` | %s | %s | %s | %s |' % (sid, m['property'], origin, short.replace('|', '\\|'), st))
        n += 1; caught += all(r.get('caught') for r in res.values()) if res else 0
        firstcaught += all(r.get('caught') for r in (m.get('first_quick_check_result') or res).values()) if res else 0
    return ('%d seeded changes; %d were caught by the quick tier the first time it was run against them, %d are caught now '
            '(state of the last `tools/seeded.py refresh` recorded in each meta.json).\n\n' % (n, firstcaught, caught)) + '\n'.join(rows)

def asbuilt():
    rows = ['| id | tier | layers (cases) | cases | executions | distinct non-trivial | distinct outcomes | unspecified | exhaustive | wall s |', '|---|---|---|---|---|---|---|---|---|---|']
    for i in range(1, 20):
        p = '%s/evidence/C%02d.json' % (V, i)
        if not os.path.exists(p): continue
        e = json.load(open(p)); c = e['coverage']
        layers = ', '.join('%s %d' % (k, v['cases']) for k, v in c.get('per_layer', {}).items())
        rows.append('| C%02d | %s | %s | %d | %d | %d | %d | %d | %s | %.0f |' % (i, e['tier'], layers, c['cases'], c['evaluations'], c['distinct_nontrivial'], c['distinct_outcomes'], c['unspecified_cases'], c['exhaustive'], e['wall_s']))
    return '\n'.join(rows)

BLOCKS = {'fixes': fixes, 'seeded': seeded, 'asbuilt': asbuilt}
p = V + '/DESIGN.md'
s = open(p).read()
for name, fn in BLOCKS.items():
    a, b = '<!-- BEGIN GENERATED:%s -->' % name, '<!-- END GENERATED:%s -->' % name
    if a in s and b in s:
        s = s[:s.index(a) + len(a)] + '\n' + fn() + '\n' + s[s.index(b):]
open(p, 'w').write(s)
print('DESIGN.md blocks refreshed')
