#!/venv/bin/python
"""Regenerates /verif/MANIFEST.json from the table below; validates with python3-vt."""
import json, os, subprocess, sys
V = os.path.dirname(os.path.dirname(os.path.abspath(__file__)))
ALL = ['C%02d' % i for i in range(1, 20)]

# properties whose check is built, reviewed and registered
CLAIMED = ['C%02d' % i for i in range(1, 20)]
sys.path.insert(0, V)
from mc import engine

def describe(pid):
    c = engine.load_check(pid)
    text = getattr(c, 'level_text', None) or (
        'Bounded exhaustive exploration on the real tdda code (no sampling), every execution compared '
        'with an independent reference model / invariant: ' + ' '.join(c.rule.split()))
    note = getattr(c, 'level_note', None) or ('Bounds, gray zones and trusted base: ' + ' | '.join(c.assumptions))
    return (' '.join(c.technique.split()), text, note, 'DESIGN.md §4 ' + pid)

PENDING_REASON = 'check not built yet in this revision (planned, see DESIGN.md §4); nothing is claimed for it'

def main():
    checks = []
    for pid in ALL:
        if pid not in CLAIMED or not os.path.exists(os.path.join(V, 'mc', 'checks', pid.lower() + '.py')):
            continue
        tech, text, note, ref = describe(pid)
        checks.append({
            'property_id': pid,
            'quick_cmd': 'cd /verif && /venv/bin/python -m mc.run %s --tier quick' % pid,
            'thorough_cmd': 'cd /verif && /venv/bin/python -m mc.run %s --tier thorough' % pid,
            'evidence_file': '/verif/evidence/%s.json' % pid,
            'replay_cmd_template': 'cd /verif && /venv/bin/python -m mc.run %s --replay {path}' % pid,
            'engine': 'mc-explorer',
            'level_claimed': {'category': 'model_checking', 'text': text, 'design_ref': ref},
            'level_note': note,
            'technique': tech,
        })
    claimed = set(c['property_id'] for c in checks)
    m = {
        'version': 1,
        'setup_cmd': 'cd /verif && /venv/bin/python -m mc.selftest',
        'hooks': {
            'guard': 'TDDA_TDDA_VERIF',
            'enable': 'no source hooks are needed: checks import tdda from /repo (TDDA_SRC) and install their seams from the harness (module attributes, sys.addaudithook, environment)',
            'baseline_off_cmd': 'cd /repo && /venv/bin/python -m pytest -ra -q -p no:cacheprovider --timeout=900 --continue-on-collection-errors',
            'source_commits': [],
            'add_only': True,
        },
        'engines': [{
            'name': 'mc-explorer', 'path': '/verif/mc/engine.py',
            'serves_properties': sorted(claimed),
            'kind_free_text': 'hand-written explicit-state / bounded-exhaustive explorer for Python: layered case enumeration (E1), deviation-bounded choice-point DFS over owned nondeterminism (E2), BFS over operation histories with canonical state hashing (E3); executes the real tdda code from /repo, compares every execution with a reference model; no sampling',
        }],
        'checks': checks,
        'notes': 'Exit codes: 0 held / 1 VIOLATION / 2 harness error. Known findings: /verif/known_findings.json. Seeded breaking changes: /verif/seeded/. VERIF_SEED only selects PYTHONHASHSEED of the workers (enumeration draws no random numbers). VERIF_BUDGET_S caps thorough runs (default 1500 s); capped layers are reported in evidence with exhaustive=false.',
        'not_applicable': [{'property_id': p, 'reason': PENDING_REASON} for p in ALL if p not in claimed],
    }
    path = os.path.join(V, 'MANIFEST.json')
    with open(path, 'w') as f:
        json.dump(m, f, indent=1); f.write('\n')
    code = ("import json,jsonschema;jsonschema.Draft202012Validator(json.load(open('/root/.vp/MANIFEST.schema.json'))).validate(json.load(open(%r)))" % path)
    subprocess.run(['python3-vt', '-c', code], check=True)
    print('MANIFEST.json ok: claimed', sorted(claimed))

main()
