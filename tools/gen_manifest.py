#!/usr/bin/env python3
"""Regenerates /verif/MANIFEST.json from the table below; validates with python3-vt."""
import json, os, subprocess, sys
V = os.path.dirname(os.path.dirname(os.path.abspath(__file__)))
ALL = ['C%02d' % i for i in range(1, 20)]

# pid -> (technique, level text, level note, design ref)
CLAIMED = {
 'C19': ('bounded exhaustive enumeration of (module structure x argv sequence) on the real ReferenceTestCase.main; oracle = stock unittest on the model-filtered module',
         'Every synthetic test module (1-2 classes quick, 3 thorough; class/method tags; inheritance; a failing test) x every argv sequence up to length 2 (3 thorough) over the option alphabet x trailers is executed for real; executed tests, listing output, verbosity/failfast and regeneration table are compared with an independent reference on every execution.',
         'Trusts python 3.12 unittest as the meaning of -v/-q/-f and class selection; bounds: <=3 classes, <=2 methods per class, argv length <=3; repeated identical tdda options and the statement\'s own unspecified cases are not judged.',
         'DESIGN.md §4 C19'),
}
PENDING_REASON = 'check not built yet in this revision (planned, see DESIGN.md §4); nothing is claimed for it'

def main():
    checks = []
    for pid in ALL:
        if pid not in CLAIMED or not os.path.exists(os.path.join(V, 'mc', 'checks', pid.lower() + '.py')):
            continue
        tech, text, note, ref = CLAIMED[pid]
        checks.append({
            'property_id': pid,
            'quick_cmd': 'cd /verif && /venv/bin/python -m mc.run %s --tier quick' % pid,
            'thorough_cmd': 'cd /verif && /venv/bin/python -m mc.run %s --tier thorough' % pid,
            'evidence_file': '/verif/evidence/%s.json' % pid,
            'replay_cmd_template': 'cd /verif && /venv/bin/python -m mc.run %s --replay {path}' % pid,
            'engine': 'mc-explorer',
            'level_claimed': {'category': 'model_checking', 'text': text, 'design_ref': ref},
            'level_note': note,
            'technique': tech,
        })
    claimed = set(c['property_id'] for c in checks)
    m = {
        'version': 1,
        'setup_cmd': 'cd /verif && /venv/bin/python -m mc.selftest',
        'hooks': {
            'guard': 'TDDA_TDDA_VERIF',
            'enable': 'no source hooks are needed: checks import tdda from /repo (TDDA_SRC) and install their seams from the harness (module attributes, sys.addaudithook, environment)',
            'baseline_off_cmd': 'cd /repo && /venv/bin/python -m pytest -ra -q -p no:cacheprovider --timeout=900 --continue-on-collection-errors',
            'source_commits': [],
            'add_only': True,
        },
        'engines': [{
            'name': 'mc-explorer', 'path': '/verif/mc/engine.py',
            'serves_properties': sorted(claimed),
            'kind_free_text': 'hand-written explicit-state / bounded-exhaustive explorer for Python: layered case enumeration (E1), deviation-bounded choice-point DFS over owned nondeterminism (E2), BFS over operation histories with canonical state hashing (E3); executes the real tdda code from /repo, compares every execution with a reference model; no sampling',
        }],
        'checks': checks,
        'notes': 'Exit codes: 0 held / 1 VIOLATION / 2 harness error. Known findings: /verif/known_findings.json. Seeded breaking changes: /verif/seeded/. VERIF_SEED only selects PYTHONHASHSEED of the workers (enumeration draws no random numbers). VERIF_BUDGET_S caps thorough runs (default 1500 s); capped layers are reported in evidence with exhaustive=false.',
        'not_applicable': [{'property_id': p, 'reason': PENDING_REASON} for p in ALL if p not in claimed],
    }
    path = os.path.join(V, 'MANIFEST.json')
    with open(path, 'w') as f:
        json.dump(m, f, indent=1); f.write('\n')
    code = ("import json,jsonschema;jsonschema.Draft202012Validator(json.load(open('/root/.vp/MANIFEST.schema.json'))).validate(json.load(open(%r)))" % path)
    subprocess.run(['python3-vt', '-c', code], check=True)
    print('MANIFEST.json ok: claimed', sorted(claimed))

main()
