#!/venv/bin/python
"""kf.py add <property> <sig> <what> [example-json]   |   kf.py fixed <property> <commit> <what>"""
import json, sys
p = '/verif/known_findings.json'
d = json.load(open(p))
if sys.argv[1] == 'add':
    pid, sig, what = sys.argv[2:5]
    ex = json.loads(sys.argv[5]) if len(sys.argv) > 5 else None
    d['findings'] = [f for f in d['findings'] if not (f['property'] == pid and f['sig'] == sig)]
    d['findings'].append({'property': pid, 'sig': sig, 'status': 'open', 'what': what, 'example': ex})
elif sys.argv[1] == 'fixed':
    pid, commit, what = sys.argv[2:5]
    line = 'fixed: property=%s %s %s' % (pid, commit, what)
    if line not in d['fixed']: d['fixed'].append(line)
json.dump(d, open(p, 'w'), indent=1, ensure_ascii=False); open(p, 'a').write('\n')
print('ok', len(d['findings']), 'open findings,', len(d['fixed']), 'fixed records')
