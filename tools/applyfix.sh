#!/bin/bash
# applyfix.sh <diff> <commit message (must start with "fix:")>
set -e
cd /repo
test -z "$(git status --porcelain)" || { echo "repo dirty"; exit 2; }
git apply "$1"
if /venv/bin/python /verif/tools/baseline.py /repo | head -3 | tee /dev/stderr | grep -q 'missing=0'; then
  git commit -qam "$2"; git log --oneline | head -1
else
  git checkout -- .; echo "BASELINE BROKEN - reverted"; exit 1
fi
