#!/venv/bin/python
"""Author-made detection demonstrations (not the independent seeded ones).

  mutants.py sync            copy /var/tmp/mutants/*.diff into /verif/mutants and (re)generate revfix_*.diff from /repo's "fix:" commits
  mutants.py run [glob] [--tier quick] [--baseline]   apply each mutant in a scratch worktree, run the check(s) of its property
                                                     (file name prefix CNN_, or mapping in mutants/INDEX.json), print CAUGHT/MISSED
"""
import fnmatch, json, os, re, shutil, subprocess, sys, tempfile
sys.path.insert(0, os.path.dirname(os.path.abspath(__file__)))
from seeded import Worktree, sh, PY, V, REPO
M = os.path.join(V, 'mutants')

def sync():
    os.makedirs(M, exist_ok=True)
    for f in sorted(os.listdir('/var/tmp/mutants')) if os.path.isdir('/var/tmp/mutants') else []:
        if f.endswith('.diff') and 'reverse' not in f:
            shutil.copy(os.path.join('/var/tmp/mutants', f), os.path.join(M, f))
    idx = {}
    ip = os.path.join(M, 'INDEX.json')
    if os.path.exists(ip): idx = json.load(open(ip))
    kf = json.load(open(os.path.join(V, 'known_findings.json')))
    bycommit = {}
    for line in kf['fixed']:
        m = re.match(r'fixed: property=(C\d+) (\w+) ', line)
        if m: bycommit.setdefault(m.group(2), []).append(m.group(1))
    for c, props in bycommit.items():
        d = sh(['git', '-C', REPO, 'diff', c, c + '~1']).stdout
        name = 'revfix_%s.diff' % c
        open(os.path.join(M, name), 'w').write(d)
        idx[name] = {'properties': sorted(set(props)), 'what': 'reverse of fix commit ' + c}
    json.dump(idx, open(ip, 'w'), indent=1, sort_keys=True)
    print('synced', len(os.listdir(M)), 'files')

def props_of(name, idx):
    if name in idx: return idx[name]['properties']
    m = re.match(r'(C\d\d)_', name)
    return [m.group(1)] if m else []

def run(pattern, tier, with_baseline):
    idx = json.load(open(os.path.join(M, 'INDEX.json')))
    results = {}
    rp = os.path.join(M, 'RESULTS.json')
    if os.path.exists(rp): results = json.load(open(rp))
    for f in sorted(os.listdir(M)):
        if not f.endswith('.diff') or not fnmatch.fnmatch(f, pattern): continue
        props = props_of(f, idx)
        try:
            wt = Worktree(os.path.join(M, f)); t = wt.__enter__()
        except SystemExit as e:
            print('%-55s DOES-NOT-APPLY' % f, flush=True); results[f] = {'applies': False}; continue
        try:
            res = {}
            ev = tempfile.mkdtemp(prefix='ev_', dir='/var/tmp')
            for pid in props:
                env = dict(os.environ, TDDA_SRC=t, VERIF_EVIDENCE_DIR=ev, VERIF_REPLAY_DIR=os.path.join(ev, 'r'))
                r = sh([PY, '-m', 'mc.run', pid, '--tier', tier], env=env, cwd=V)
                sigs = [l.strip()[4:].split(' clause=')[0] for l in r.stdout.splitlines() if l.startswith('  sig=')]
                res[pid] = {'rc': r.returncode, 'sigs': sigs[:3]}
            base = None
            if with_baseline:
                b = sh([PY, os.path.join(V, 'tools', 'baseline.py'), t]); base = b.stdout.splitlines()[0].split()[-1] if b.stdout else '?'
            shutil.rmtree(ev, ignore_errors=True)
        finally:
            wt.__exit__(None, None, None)
        results[f] = {'applies': True, 'checks': res, 'baseline': base, 'tier': tier}
        print('%-55s %s %s' % (f, ' '.join('%s:%s' % (p, {1: 'CAUGHT', 0: 'MISSED'}.get(v['rc'], 'ERR%d' % v['rc'])) for p, v in res.items()), base or ''), flush=True)
        json.dump(results, open(rp, 'w'), indent=1, sort_keys=True)

if __name__ == '__main__':
    if sys.argv[1] == 'sync': sync()
    else:
        args = [a for a in sys.argv[2:] if not a.startswith('--')]
        tier = 'thorough' if '--tier=thorough' in sys.argv else 'quick'
        run(args[0] if args else '*', tier, '--baseline' in sys.argv)
