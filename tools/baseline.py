#!/venv/bin/python
"""Run the pinned baseline suite in a tree (default /repo) and compare with
BASELINE.json's stable_pass list.  Exit 0 iff every stable test still passes."""
import json, os, subprocess, sys, tempfile
import xml.etree.ElementTree as ET
tree = os.path.abspath(sys.argv[1] if len(sys.argv) > 1 else '/repo')
base = json.load(open('/root/.vp/BASELINE.json'))
fd, xml = tempfile.mkstemp(suffix='.xml', dir='/var/tmp'); os.close(fd)
env = dict(os.environ); env.pop('TDDA_TDDA_VERIF', None)
import shutil
privtmp = tempfile.mkdtemp(prefix='basetmp_', dir='/var/tmp')  # concurrent runs must not share /tmp
env['TMPDIR'] = privtmp
p = subprocess.run(['/venv/bin/python', '-m', 'pytest', '-q', '-p', 'no:cacheprovider',
                    '--timeout=900', '--continue-on-collection-errors',
                    '--junitxml=' + xml], cwd=tree, env=env, capture_output=True, text=True)
passed = set()
for tc in ET.parse(xml).getroot().iter('testcase'):
    if not list(tc):
        passed.add('%s::%s' % (tc.get('classname'), tc.get('name')))
os.unlink(xml)
shutil.rmtree(privtmp, ignore_errors=True)
missing = [t for t in base['stable_pass'] if t not in passed]
print('tree=%s passed=%d stable=%d missing=%d' % (tree, len(passed), len(base['stable_pass']), len(missing)))
for m in missing: print('  NOT PASSING:', m)
subprocess.run(['git', '-C', tree, 'status', '--short'])
sys.exit(1 if missing else 0)
