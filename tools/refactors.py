#!/venv/bin/python
"""False-alarm probes: property-PRESERVING maintenance changes (refactors/*.diff). Every check must stay silent.
   refactors.py run [all|r3 ...] [--checks C01,C02]  -> applies each diff in a scratch worktree, runs the quick checks, prints SILENT / ALARM."""
import json, os, shutil, sys, tempfile
sys.path.insert(0, os.path.dirname(os.path.abspath(__file__)))
from seeded import Worktree, sh, PY, V
R = os.path.join(V, 'refactors', os.environ.get('REFAC_BATCH', 'batch1'))
args = [a for a in sys.argv[2:] if not a.startswith('--')]
checks = ['C%02d' % i for i in range(1, 20)]
for a in sys.argv:
    if a.startswith('--checks='): checks = a.split('=')[1].split(',')
names = args or ['all']
results = {}
rp = os.path.join(R, 'RESULTS.json')
if os.path.exists(rp): results = json.load(open(rp))
for n in names:
    with Worktree(os.path.join(R, n + '.diff')) as t:
        ev = tempfile.mkdtemp(prefix='ev_', dir='/var/tmp')
        for pid in checks:
            env = dict(os.environ, TDDA_SRC=t, VERIF_EVIDENCE_DIR=ev, VERIF_REPLAY_DIR=os.path.join(ev, 'r'))
            r = sh([PY, '-m', 'mc.run', pid, '--tier', 'quick'], env=env, cwd=V)
            sigs = [l.strip() for l in r.stdout.splitlines() if l.startswith('  sig=')]
            herr = [l for l in r.stdout.splitlines() if l.startswith('HARNESS')]
            results.setdefault(n, {})[pid] = {'rc': r.returncode, 'sigs': sigs[:6], 'harness': herr[:2]}
            print('%-5s %s %s %s' % (n, pid, {0: 'SILENT', 1: 'ALARM', 2: 'HARNESS-ERROR'}.get(r.returncode, r.returncode), ' | '.join(sigs[:3])[:300]), flush=True)
            json.dump(results, open(rp, 'w'), indent=1, sort_keys=True)
        shutil.rmtree(ev, ignore_errors=True)
