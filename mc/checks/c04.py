# -*- coding: utf-8 -*-
"""
C04 - text comparison passes exactly when texts agree modulo declared
exclusions.

E1 (bounded exhaustive).  A case is ONE (actual, reference) pair; run_case
sweeps the whole option product over it (512 points: lstrip x rstrip x
ignore_substrings x ignore_patterns x remove_lines x max_permutation_cases x
preprocess) on the real FilesComparison.check_strings, or drives the three
public entry points assertStringCorrect / assertTextFileCorrect /
assertTextFilesCorrect on real files in a per-worker sandbox.

Oracle: mc.models.text_spec (three valued, never calls tdda).  An alarm is
raised only where every reading of the statement agrees:
    over-accept   model MUST_FAIL, tdda passes
    under-accept  model MUST_PASS, tdda fails
    internal-error  anything but a pass or an assertion failure

Third round: the FORM of the arguments is a dimension of its own - lists and
tuples of lines (layer "tuples", and both in "reuse"), the same argument
OBJECT handed to several checks (layer "reuse": verdict equal to that of fresh
equal objects, caller's sequences left as given), the names of the files and
the encoding= / encodings= keywords (layer "names": one codec per comparison,
the model speaks only where UTF-8 and ISO-8859-1 agree when none is given),
and the documented alias spellings ignore_lines= / assertFileCorrect /
assertFilesCorrect (layer "entry").

Signatures: a violating (pair, option point) is first reduced to the option
points that are minimal inside the pair's sweep, then shrunk (lines dropped,
options reset while the same kind of violation persists, re-running model and
tdda) and named  <kind>:<options of the shrunk instance>:<what the model's
verdict rests on>.
"""
import os
import zlib

from mc.engine import Check, Res
from mc import text_alphabet as TA
from mc.models import text_spec as TS

FULL = TA.option_points()


# reduced set for the public entry points in the quick tier: every option
# point that sets at most two of the seven options (plus the one that sets
# them all) - 1 + 7 + 21 + 1 = 30 points.  lstrip and rstrip are separate
# options here, so an option handed to the wrong parameter is visible.
def _entry_points_quick():
    single = {'lstrip': True, 'rstrip': True, 'ignore_substrings': ['X'],
              'ignore_patterns': [r'\d+'], 'remove_lines': ['b'],
              'max_permutation_cases': 2, 'preprocess': 'drop_eacute'}
    names = TA.OPTION_NAMES
    out = [TA.option_point()]
    for i in range(len(names)):
        out.append(TA.option_point(**{names[i]: single[names[i]]}))
    for i in range(len(names)):
        for j in range(i + 1, len(names)):
            out.append(TA.option_point(**{names[i]: single[names[i]],
                                          names[j]: single[names[j]]}))
    out.append(TA.option_point(**single))
    return out


ENTRY_Q = _entry_points_quick()
# option points for the file-form layer: default + each option alone
FORM_POINTS = [TA.option_point(),
               TA.option_point(rstrip=True),
               TA.option_point(lstrip=True, rstrip=True),
               TA.option_point(ignore_patterns=[r'\d+']),
               TA.option_point(ignore_substrings=['X']),
               TA.option_point(remove_lines=['b']),
               TA.option_point(max_permutation_cases=2),
               TA.option_point(preprocess='drop_eacute')]
# permutation layer: the full product with the permitted number of cases up
# to 5 (768 points); through the entry points: that number x <= 1 other option
PERM_FULL = TA.option_points(mpcs=TA.PERM_MPCS)
PERM_ENTRY = [TA.option_point(max_permutation_cases=m, **o)
              for m in (0, 1, 2, 3, 4)
              for o in ({}, {'lstrip': True}, {'rstrip': True},
                        {'ignore_patterns': [r'\d+']},
                        {'ignore_patterns': [r'^a\d+$']})]
# multiset layer: permitted cases 0..5 x at most one other option (48 points)
MULTI_POINTS = [TA.option_point(max_permutation_cases=m, **o)
                for m in TA.PERM_MPCS
                for o in ({}, {'lstrip': True}, {'rstrip': True},
                          {'ignore_substrings': ['X']},
                          {'ignore_patterns': [r'\d+']},
                          {'ignore_patterns': [r'^a\d+$']},
                          {'remove_lines': ['b']},
                          {'preprocess': 'drop_eacute'})]
MULTI_ENTRY = [TA.option_point(max_permutation_cases=m, **o)
               for m in (0, 2, 3)
               for o in ({}, {'rstrip': True})]
# long texts: default, each line-level option alone, permutation allowance
LONG_POINTS = [TA.option_point(),
               TA.option_point(rstrip=True),
               TA.option_point(ignore_substrings=['X']),
               TA.option_point(ignore_patterns=[r'\d+']),
               TA.option_point(remove_lines=['b']),
               TA.option_point(preprocess='drop_eacute'),
               TA.option_point(max_permutation_cases=2),
               TA.option_point(max_permutation_cases=3)]
FORM_ALPHA_Q = ['a', 'é', '']
FORM_ALPHA_T = ['a', 'é', '', ' a', 'b']


def model_opts(point):
    return TS.Options(**TA.kwargs_of(point))


class C04(Check):
    pid = 'C04'
    title = ('text comparison passes exactly when texts agree modulo '
             'declared exclusions')
    technique = ('bounded exhaustive enumeration of (actual, reference) line '
                 'sequences x the full 512-point option product on the real '
                 'check_strings and the three public assertions, against an '
                 'independent three-valued reference model')
    rule = ('case = one (actual, reference) pair of line sequences over the '
            '9-line alphabet (length <=2 quick, <=3 thorough; single lines '
            'over a 32-line alphabet), swept over all 512 option points; '
            'permutation cases = every permutation of 3-4 distinct lines out '
            'of 5, plain / with one further line altered at every position / '
            'with one further differing pair inserted at every position, '
            'swept over 768 option points (permitted cases 0..5) and through '
            'the entry points; multiset cases = every pair of sequences of '
            '3-4 lines (length 5: every multiset as reference) WITH repeats '
            'over two 3-line alphabets under 48 option points, length 3 '
            'through the entry points; long-text cases = 200/1000/5000 lines or '
            '5000/100000-character lines with one of 9 named deviations; '
            'entry-point cases = pairs over a 5-line alphabet x the 30 option '
            'points that set <= 2 (or all 7) options (thorough: a second '
            '5-line alphabet, and all 512 points) '
            'x {string-vs-file, file-vs-file, '
            'list-of-files in both orders}, and file forms (final newline '
            'present/absent/doubled, CRLF, CR, non-ASCII, empty, missing '
            'reference).  Argument forms: the identical and single-line '
            'sweeps again with tuples; reuse cases = pairs of 7 base '
            'sequences x 0..3 trailing empty lines, each under 8 option '
            'points x {list, tuple}^2: one fresh check, then four checks on '
            'shared objects (both shared, reference shared, actual shared, '
            'both again; one object on both sides when equal), and the '
            'string entry point three times with the same list / tuple; name '
            'cases = pairs of sequences of <= 2 lines over {a, e-acute, its '
            'UTF-8-read-as-Latin-1 image}, the same bytes under 5 x 5 file '
            'names x encoding keyword in {absent, utf-8, iso-8859-1, UTF8} x '
            '4 option points through the file, list-of-files and string '
            'assertions.  Non-trivial = the model gives both must-pass and '
            'must-fail inside the case\'s option sweep (reuse: a sequence '
            'ends in an empty line; names: non-ASCII content with a '
            'definite verdict).')
    assumptions = [
        'gray zones answered "unspecified" (never alarmed): pairs between '
        'the strict (token-equivalent) and the weakest (delete-what-matches) '
        'reading of "differ only in parts matched by an ignore-pattern"; '
        'whether and when one trailing empty line is dropped; whether a '
        'final newline starts another line; whether the permitted number of '
        'permutation cases counts unexcused or all differing pairs; patterns '
        'anchored at one end, matching the empty string or using context '
        'assertions; ignore/remove substrings with outer blanks under strip',
        'lines contain no line terminators other than \\n, \\r\\n, \\r; '
        'files are UTF-8 (layer names: UTF-8 or ISO-8859-1 bytes; a '
        'comparison decodes both files with ONE codec - the encoding given, '
        'else a guess the statement does not fix: the model evaluates UTF-8 '
        'and ISO-8859-1 and is silent where they disagree or cannot decode)',
        'a list / tuple actual handed to the string entry point is the line '
        'sequence itself (trailing-empty readings of check_strings), the '
        'reference file a text (both final-terminator readings)',
        'alphabet bound: 9 lines (32 for single-line pairs), sequences of '
        'length <= 2 (quick) / <= 3 (thorough), one value per option besides '
        'its default except 3 patterns and 3 permutation limits',
    ]

    def hashseeds(self, tier, verif_seed):
        # nothing here depends on hash order; run under the requested seed
        return [verif_seed % 3]

    # ------------------------------------------------------------- layers
    def layers(self, tier):
        L = [('identical', 'identical content under every option point '
                           '(must pass)'),
             ('lines', 'single-line pairs over the extended line alphabet'),
             ('seq2', 'all pairs of sequences of length <= 2'),
             ('perm', 'permutations of 3-4 distinct lines, also with one '
                      'further line altered / one differing pair inserted at '
                      'every position, x 768 option points (limit 0..5)'),
             ('multiset', 'sequences of 3-5 lines WITH repeats over two '
                          '3-line alphabets: every actual sequence against '
                          'every reference (multisets for length 5) x 48 '
                          'option points (limit 0..5 x <= 1 other option)'),
             ('tuples', 'the identical and single-line sweeps with both '
                        'sequences given as tuples'),
             ('reuse', 'E3: the SAME list / tuple objects handed to several '
                       'checks (both shared, one shared + one fresh, one '
                       'object on both sides); sequences ending in 0..3 empty '
                       'lines; verdict equals that of fresh equal objects '
                       'and the caller\'s sequences are left as they were'),
             ('entry', 'public entry points on real files'),
             ('names', 'file names x encoding keyword: 5 actual x 5 '
                       'reference names (.txt, .pdf, none, upper case, inner '
                       '.pdf) x encoding=/encodings= in {absent, utf-8, '
                       'iso-8859-1, UTF8} on non-ASCII content'),
             ('multiset-entry', 'length-3 (thorough: 4) sequences with '
                                'repeats through the entry points'),
             ('perm-entry', 'the permutation space through the entry points'),
             ('long', 'many lines (200..5000) and long lines (5000, 100000 '
                      'characters) with one named deviation'),
             ('forms', 'file forms: final newline, CRLF, CR, empty, missing '
                       'reference')]
        if tier == 'thorough':
            L += [('seq3-short', 'length 3 against length <= 1'),
                  ('seq3-2', 'length 3 against length 2'),
                  ('entry-full', 'public entry points under all 512 option '
                                 'points'),
                  ('seq3-3', 'length 3 against length 3')]
        return L

    def cases(self, tier, layer):
        n = 3 if tier == 'thorough' else 2
        if layer == 'identical':
            for s in TA.sequences(TA.LAMBDA, n):
                yield {'k': 'sweep', 'a': s, 'e': s}
        elif layer == 'lines':
            for a in TA.LAMBDA_X:
                for e in TA.LAMBDA_X:
                    if a != e:
                        yield {'k': 'sweep', 'a': [a], 'e': [e]}
        elif layer == 'seq2':
            for a in TA.sequences(TA.LAMBDA, 2):
                for e in TA.sequences(TA.LAMBDA, 2):
                    if a != e:
                        yield {'k': 'sweep', 'a': a, 'e': e}
        elif layer == 'tuples':
            for s in TA.sequences(TA.LAMBDA, n):
                yield {'k': 'sweep', 'a': s, 'e': s, 'form': 'tuple'}
            for a in TA.LAMBDA_X:
                for e in TA.LAMBDA_X:
                    if a != e:
                        yield {'k': 'sweep', 'a': [a], 'e': [e],
                               'form': 'tuple'}
        elif layer == 'reuse':
            for a in TA.reuse_sequences():
                for e in TA.reuse_sequences():
                    yield {'k': 'reuse', 'a': a, 'e': e}
        elif layer == 'names':
            seqs = list(TA.sequences(TA.NAME_LINES, 2))
            for a in seqs:
                for e in seqs:
                    yield {'k': 'names', 'a': a, 'e': e, 'w': 'utf-8'}
                    if any(ord(c) > 127 for c in ''.join(a + e)):
                        yield {'k': 'names', 'a': a, 'e': e,
                               'w': 'iso-8859-1'}
        elif layer == 'perm':
            for a, e in TA.permutation_pairs():
                yield {'k': 'sweep', 'a': a, 'e': e, 'pts': 'perm'}
        elif layer == 'multiset':
            for alpha in TA.MULTI_ALPHABETS:
                for a, e in TA.multiset_pairs(alpha):
                    if a != e:
                        yield {'k': 'sweep', 'a': a, 'e': e, 'pts': 'multi'}
        elif layer == 'multiset-entry':
            sizes = (3, 4) if tier == 'thorough' else (3,)
            for a, e in TA.multiset_pairs(TA.MULTI_ALPHABETS[1], sizes):
                if a != e:
                    yield {'k': 'entry', 'a': a, 'e': e, 'fa': ['\n', 1],
                           'fe': ['\n', 1], 'pts': 'multi-entry'}
        elif layer == 'perm-entry':
            lines = TA.PERM_LINES if tier == 'thorough' else TA.PERM_LINES[:4]
            extras = TA.PERM_EXTRA if tier == 'thorough' \
                else TA.PERM_EXTRA[:1]
            for a, e in TA.permutation_pairs(lines, extras=extras):
                yield {'k': 'entry', 'a': a, 'e': e,
                       'fa': ['\n', 1], 'fe': ['\n', 1], 'pts': 'perm-entry'}
        elif layer == 'long':
            for n in TA.LONG_SIZES:
                for dev in TA.LONG_DEVIATIONS:
                    yield {'k': 'long', 'n': n, 'dev': dev, 'width': 0}
            for width in (5000, 100000):
                for n in (1, 3):
                    for dev in TA.LONG_DEVIATIONS:
                        if n == 1 and 'swap' in dev:
                            continue
                        yield {'k': 'long', 'n': n, 'dev': dev,
                               'width': width}
        elif layer in ('entry', 'entry-full'):
            alphas = [TA.LAMBDA_R]
            if tier == 'thorough' and layer == 'entry':
                alphas.append(TA.LAMBDA_R2)
            for alpha in alphas:
                for a in TA.sequences(alpha, 2):
                    for e in TA.sequences(alpha, 2):
                        yield {'k': 'entry', 'a': a, 'e': e,
                               'fa': ['\n', 1], 'fe': ['\n', 1],
                               'pts': 'full' if layer == 'entry-full'
                               else 'q'}
        elif layer == 'forms':
            alpha = FORM_ALPHA_T if tier == 'thorough' else FORM_ALPHA_Q
            for a in TA.sequences(alpha, 2):
                for e in TA.sequences(alpha, 2):
                    for fa in TA.FILE_FORMS:
                        for fe in TA.FILE_FORMS:
                            if fa == ('\n', 1) and fe == ('\n', 1):
                                continue
                            yield {'k': 'entry', 'a': a, 'e': e,
                                   'fa': list(fa), 'fe': list(fe),
                                   'pts': 'form'}
            for a in TA.sequences(alpha, 2):
                yield {'k': 'missing', 'a': a}
        elif layer == 'seq3-short':
            for a in TA.sequences(TA.LAMBDA, 3, 3):
                for e in TA.sequences(TA.LAMBDA, 1):
                    yield {'k': 'sweep', 'a': a, 'e': e}
                    yield {'k': 'sweep', 'a': e, 'e': a}
        elif layer == 'seq3-2':
            for a in TA.sequences(TA.LAMBDA, 3, 3):
                for e in TA.sequences(TA.LAMBDA, 2, 2):
                    yield {'k': 'sweep', 'a': a, 'e': e}
                    yield {'k': 'sweep', 'a': e, 'e': a}
        elif layer == 'seq3-3':
            for a in TA.sequences(TA.LAMBDA, 3, 3):
                for e in TA.sequences(TA.LAMBDA, 3, 3):
                    if a != e:
                        yield {'k': 'sweep', 'a': a, 'e': e}

    # ------------------------------------------------------------- worker
    def setup_worker(self, tier):
        from tdda.referencetest.checkfiles import FilesComparison
        self.box = TA.TextSandbox('c04_')
        self.fc = FilesComparison(verbose=False, tmp_dir=self.box.tmp)
        self.full_kw = [TA.kwargs_of(p) for p in FULL]
        self.full_mo = [model_opts(p) for p in FULL]
        self.sets = {'full': FULL, 'q': ENTRY_Q, 'form': FORM_POINTS,
                     'perm': PERM_FULL, 'perm-entry': PERM_ENTRY,
                     'multi': MULTI_POINTS, 'multi-entry': MULTI_ENTRY}
        self.sweep_kw = {'full': (self.full_kw, self.full_mo),
                         'perm': ([TA.kwargs_of(p) for p in PERM_FULL],
                                  [model_opts(p) for p in PERM_FULL]),
                         'multi': ([TA.kwargs_of(p) for p in MULTI_POINTS],
                                   [model_opts(p) for p in MULTI_POINTS])}

    def teardown_worker(self):
        box = getattr(self, 'box', None)
        if box is not None:
            box.close()
            self.box = None

    # ------------------------------------------------------- real executions
    form = 'list'       # container handed to check_strings (per case)

    def real_strings(self, a, e, kw):
        """'pass' | 'fail' | ('error', exc)  - on NEW objects of self.form"""
        return self.real_objects(TA.as_container(a, self.form),
                                 TA.as_container(e, self.form), kw)

    def real_objects(self, a, e, kw):
        """The same on exactly these objects (no copies are made)."""
        try:
            r = self.fc.check_strings(a, e, create_temporaries=False, **kw)
            return 'pass' if r.failures == 0 else 'fail'
        except Exception as ex:
            return ('error', ex)

    # ---------------------------------------------------------- attribution
    def violation_kind(self, real, verdict):
        if isinstance(real, tuple):
            return 'internal-error'
        if real == 'pass' and verdict == TS.MUST_FAIL:
            return 'over-accept'
        if real == 'fail' and verdict == TS.MUST_PASS:
            return 'under-accept'
        return None

    def kind_at(self, a, e, point):
        m = TS.evaluate(a, e, model_opts(point))
        real = self.real_strings(a, e, TA.kwargs_of(point))
        return self.violation_kind(real, m.verdict), m, real

    def shrink(self, a, e, point, kind):
        """Greedy, deterministic reduction of a violating instance."""
        a, e, point = list(a), list(e), dict(point)
        changed = True
        while changed:
            changed = False
            cands = []
            for i in range(max(len(a), len(e))):
                if i < len(a) and i < len(e):
                    cands.append((a[:i] + a[i + 1:], e[:i] + e[i + 1:]))
                if i < len(a):
                    cands.append((a[:i] + a[i + 1:], e))
                if i < len(e):
                    cands.append((a, e[:i] + e[i + 1:]))
            # two aligned pairs at once (a permuted couple goes only together)
            n = min(len(a), len(e))
            for i in range(n):
                for j in range(i + 1, n):
                    cands.append(([s for k, s in enumerate(a)
                                   if k not in (i, j)],
                                  [s for k, s in enumerate(e)
                                   if k not in (i, j)]))
            # simplify a line: take its outer blanks away
            for i, s in enumerate(a):
                if s != s.strip():
                    cands.append((a[:i] + [s.strip()] + a[i + 1:], e))
            for i, s in enumerate(e):
                if s != s.strip():
                    cands.append((a, e[:i] + [s.strip()] + e[i + 1:]))
            for (a2, e2) in cands:
                if self.kind_at(a2, e2, point)[0] == kind:
                    a, e, changed = a2, e2, True
                    break
            if changed:
                continue
            for k in TA.OPTION_NAMES:
                if point[k] != TA.DEFAULT_POINT[k]:
                    p2 = dict(point)
                    p2[k] = TA.DEFAULT_POINT[k]
                    if self.kind_at(a, e, p2)[0] == kind:
                        point, changed = p2, True
                        break
        return a, e, point

    def signature(self, kind, a, e, point, where='check_strings'):
        sa, se, sp = self.shrink(a, e, point, kind)
        k2, m, real = self.kind_at(sa, se, sp)
        if kind == 'under-accept':
            basis = '+'.join(TS.pass_reasons(m)) or m.why
        elif kind == 'over-accept':
            basis = m.why
        else:
            basis = type(real[1]).__name__
        sig = '%s:%s:%s' % (kind, TA.option_label(sp), basis)
        if self.form != 'list':
            sig += ':%s-of-lines' % self.form
        return sig, {'actual': sa, 'reference': se,
                     'options': dict((k, v) for k, v in sp.items()
                                     if v != TA.DEFAULT_POINT[k]),
                     'model': m.verdict, 'model_basis': m.why,
                     'tdda': real if isinstance(real, str) else repr(real[1])}

    CLAUSES = {'over-accept': 'unexcused-difference-must-fail',
               'under-accept': 'agreement-modulo-exclusions-must-pass',
               'internal-error': 'no-internal-error'}

    def report(self, R, a, e, points, bad, where):
        """bad: {index in points: kind}.  Reports the minimal points."""
        if where != 'check_strings':
            # Does check_strings show the same fault on the same content?
            # If not, the wrapper (option forwarding) is at fault, not the
            # comparison: one violation per kind, named after the entry
            # point (the detail lists the options set at EVERY violating
            # point of the case).
            for kind in sorted(set(bad.values())):
                idx = sorted(i for i in bad if bad[i] == kind)
                if any(self.kind_at(a, e, points[i])[0] == kind
                       for i in idx):
                    continue
                common = None
                for i in idx:
                    names = set(TA.option_label(points[i]).split('+'))
                    common = names if common is None else common & names
                first = min(idx, key=lambda i: (TA.n_set(points[i]), i))
                R.viol('%s@%s' % (kind, where), self.CLAUSES[kind],
                       {'entry': where, 'actual': a, 'reference': e,
                        'options': dict((k, v)
                                        for k, v in points[first].items()
                                        if v != TA.DEFAULT_POINT[k]),
                        'options_set_at_every_violating_point':
                            sorted(common),
                        'note': 'check_strings agrees with the model on '
                                'this content; only the entry point differs',
                        'other_option_points_in_this_case': len(idx) - 1},
                       sub={'point': first, 'entry': where})
                bad = dict((i, k) for i, k in bad.items() if k != kind)
        for i, kind in sorted(bad.items()):
            if any(j != i and bad[j] == kind
                   and TA.is_subpoint(points[j], points[i])
                   and points[j] != points[i] for j in bad):
                continue
            sig, small = self.signature(kind, a, e, points[i])
            R.viol(sig, self.CLAUSES[kind],
                   {'entry': where, 'actual': a, 'reference': e,
                    'options': dict((k, v) for k, v in points[i].items()
                                    if v != TA.DEFAULT_POINT[k]),
                    'shrunk': small,
                    'other_option_points_in_this_case': len(bad) - 1},
                   sub={'point': i, 'entry': where})

    # ------------------------------------------------------------- run_case
    def run_case(self, case):
        self.form = case.get('form', 'list')
        try:
            return self.run_case_(case)
        finally:
            self.form = 'list'

    def run_case_(self, case):
        if case['k'] == 'sweep':
            return self.run_sweep(case)
        if case['k'] == 'reuse':
            return self.run_reuse(case)
        if case['k'] == 'names':
            return self.run_names(case)
        if case['k'] == 'entry':
            return self.run_entry(case)
        if case['k'] == 'long':
            return self.run_long(case)
        return self.run_missing(case)

    def run_sweep(self, case):
        R = Res()
        a, e = case['a'], case['e']
        bad = {}
        tally = {}
        bits = bytearray()
        verdicts = set()
        pts = case.get('pts', 'full')
        points = self.sets[pts]
        kws, mos = self.sweep_kw[pts]
        for i, (kw, mo) in enumerate(zip(kws, mos)):
            real = self.real_strings(a, e, kw)
            m = TS.evaluate(a, e, mo)
            v = m.verdict
            verdicts.add(v)
            rk = real if isinstance(real, str) else 'error'
            bits.append(80 if rk == 'pass' else 70 if rk == 'fail' else 69)
            key = rk + '|' + v
            tally[key] = tally.get(key, 0) + 1
            if v == TS.UNSPEC:
                R.unspec += 1
            kind = self.violation_kind(real, v)
            if kind:
                bad[i] = kind
        R.ev(len(points))
        for k, n in tally.items():
            R.out(k, n)
        R.out('vector:%08x' % zlib.crc32(bytes(bits)))
        R.nontrivial = TS.MUST_PASS in verdicts and TS.MUST_FAIL in verdicts
        if bad:
            self.report(R, a, e, points, bad, 'check_strings')
        return R

    # ------------------------------------------------------------- reuse
    def run_reuse(self, case):
        """E3 over argument OBJECTS: the same list / tuple handed to several
        checks.  Clauses: (model) the verdict on fresh objects; (container)
        the verdict does not depend on list vs tuple; (reuse) every later
        check that involves an object used before gives the verdict fresh
        equal objects give; (snapshot) the caller's sequences still hold
        what they held; no internal error."""
        R = Res()
        box = self.box
        a, e = case['a'], case['e']
        te = '\n'.join(e)
        box.clean(box.ref, box.act, box.tmp)
        ref = os.path.join(box.ref, 'ref.txt')
        box.write(ref, te)
        points = FORM_POINTS
        notes = {}
        model_bad = {}
        entry_bad = {}
        tally = {}

        def note(what, where, i, **detail):
            notes.setdefault((what, where), (i, detail))

        def tag(x):
            return x if isinstance(x, str) else 'error'

        def modified(pairs):
            return [(side, type(obj).__name__)
                    for side, obj, orig in pairs if list(obj) != orig]

        for i, p in enumerate(points):
            kw = TA.kwargs_of(p)
            mo = model_opts(p)
            m = TS.evaluate(a, e, mo)
            if m.verdict == TS.UNSPEC:
                R.unspec += 1
            base = None
            for fa in TA.CONTAINERS:
                for fe in TA.CONTAINERS:
                    where = '%s/%s' % (fa, fe)
                    fresh = self.real_objects(TA.as_container(a, fa),
                                              TA.as_container(e, fe), kw)
                    R.ev()
                    fk = tag(fresh)
                    if fa == 'list' and fe == 'list':
                        base = fk
                        kind = self.violation_kind(fresh, m.verdict)
                        if kind:
                            model_bad[i] = kind
                            continue
                    elif fk == 'error':
                        note('internal-error:%s:%s' % (
                            type(fresh[1]).__name__,
                            'tuple-of-lines'), 'check_strings', i,
                            containers=where, exception=repr(fresh[1])[:300])
                        continue
                    elif base in ('pass', 'fail') and fk != base:
                        note('verdict-depends-on-container', 'check_strings',
                             i, containers=where, lists=base, this=fk)
                    # ---- the history on shared objects
                    A = TA.as_container(a, fa)
                    E = TA.as_container(e, fe)
                    steps = [('both-shared', A, E),
                             ('reference-shared', TA.as_container(a, fa), E),
                             ('actual-shared', A, TA.as_container(e, fe)),
                             ('both-shared-again', A, E)]
                    trace = []
                    for (name, x, y) in steps:
                        r = self.real_objects(x, y, kw)
                        R.ev()
                        R.transitions += 1
                        trace.append('%s:%s' % (name, tag(r)))
                        mod = modified((('actual', A, a),
                                        ('reference', E, e)))
                        if mod:
                            note('caller-sequence-modified:%s' % '+'.join(
                                sorted(set(t for (s_, t) in mod))),
                                'check_strings', i, containers=where,
                                after=list(trace),
                                actual_now=list(A), reference_now=list(E))
                        if tag(r) != fk:
                            note('verdict-changes-on-reuse:%s' % '+'.join(
                                sorted(set((fa, fe)))),
                                'check_strings', i, containers=where,
                                fresh_objects=fk, history=list(trace))
                    key = '%s|%s|%s' % (where, fk, m.verdict)
                    tally[key] = tally.get(key, 0) + 1
                    # ---- one object on both sides
                    if a == e and fa == fe:
                        X = TA.as_container(a, fa)
                        r = self.real_objects(X, X, kw)
                        R.ev()
                        if list(X) != a:
                            note('caller-sequence-modified:%s' % fa,
                                 'check_strings', i, containers=where,
                                 after=['one-object-on-both-sides'],
                                 actual_now=list(X))
                        if tag(r) != fk:
                            note('verdict-changes-on-reuse:%s' % fa,
                                 'check_strings', i, containers=where,
                                 fresh_objects=fk,
                                 history=['one-object-on-both-sides:%s'
                                          % tag(r)])
            # ---- the string entry point with the actual given as lines
            m2 = TS.evaluate_lines_text(a, te, mo)
            for fa in TA.CONTAINERS:
                rk0, info0 = box.call('assertStringCorrect',
                                      TA.as_container(a, fa), ref, **kw)
                R.ev()
                if rk0 != 'pass':
                    box.clean(box.tmp)
                if rk0 == 'error':
                    note('internal-error:%s:%s-of-lines' % (
                        type(info0).__name__, fa), 'assertStringCorrect', i,
                        exception=repr(info0)[:300])
                    continue
                kind = self.violation_kind(rk0, m2.verdict)
                if kind:
                    entry_bad.setdefault(fa, {})[i] = kind
                A = TA.as_container(a, fa)
                trace = []
                for step in range(3):
                    rk, info = box.call('assertStringCorrect', A, ref, **kw)
                    R.ev()
                    R.transitions += 1
                    if rk != 'pass':
                        box.clean(box.tmp)
                    trace.append(rk)
                    if list(A) != a:
                        note('caller-sequence-modified:%s' % fa,
                             'assertStringCorrect', i, after=list(trace),
                             actual_now=list(A))
                    if rk != rk0:
                        note('verdict-changes-on-reuse:%s' % fa,
                             'assertStringCorrect', i, fresh_object=rk0,
                             history=list(trace))
                key = 'string-entry:%s|%s|%s' % (fa, rk0, m2.verdict)
                tally[key] = tally.get(key, 0) + 1
        for k, n in tally.items():
            R.out(k, n)
        R.states = 4
        R.nontrivial = bool((a and a[-1] == '') or (e and e[-1] == ''))
        if model_bad:
            self.report(R, a, e, points, model_bad, 'check_strings')
        for fa, bad in sorted(entry_bad.items()):
            i = min(bad)
            R.viol('%s@assertStringCorrect:%s-of-lines' % (bad[i], fa),
                   self.CLAUSES[bad[i]],
                   {'entry': 'assertStringCorrect', 'actual': a,
                    'container': fa, 'reference_text': te,
                    'options': dict((k, v) for k, v in points[i].items()
                                    if v != TA.DEFAULT_POINT[k])},
                   sub={'point': i, 'entry': 'assertStringCorrect:' + fa})
        clause = {'caller-sequence-modified': 'arguments-left-as-given',
                  'verdict-changes-on-reuse': 'verdict-depends-on-content-only',
                  'verdict-depends-on-container':
                      'verdict-depends-on-content-only',
                  'internal-error': 'no-internal-error'}
        for (what, where) in sorted(notes):
            i, detail = notes[(what, where)]
            d = {'entry': where, 'actual': a, 'reference': e,
                 'options': dict((k, v) for k, v in points[i].items()
                                 if v != TA.DEFAULT_POINT[k])}
            d.update(detail)
            R.viol('%s:%s' % (what, where), clause[what.split(':')[0]], d,
                   sub={'what': what, 'entry': where})
        box.clean(box.tmp)
        return R

    # ------------------------------------------------------------- names
    @staticmethod
    def codec_verdict(actual, expected, codecs, mo):
        """actual / expected: bytes (decoded with each candidate codec) or
        str.  One codec per comparison; which one is open when no encoding
        is given.  -> verdict, or None when some candidate cannot decode."""
        seen = set()
        for c in codecs:
            try:
                da = actual if isinstance(actual, str) else actual.decode(c)
                de = expected.decode(c)
            except UnicodeDecodeError:
                return None
            seen.add(TS.evaluate_texts(da, de, mo).verdict)
        return seen.pop() if len(seen) == 1 else TS.UNSPEC

    def run_names(self, case):
        """File names x encoding keyword.  The same bytes are written under
        every name; a comparison decodes both files with ONE codec (the one
        given, else a guessed one - the model tries UTF-8 and ISO-8859-1 and
        speaks only where both agree)."""
        R = Res()
        box = self.box
        a, e, w = case['a'], case['e'], case['w']
        ta, te = TA.content(a), TA.content(e)
        ba, be = ta.encode(w), te.encode(w)
        box.clean(box.ref, box.act, box.tmp)
        for n in TA.ACT_NAMES:
            box.write(os.path.join(box.act, n), ba)
        for n in TA.REF_NAMES:
            box.write(os.path.join(box.ref, n), be)
        same_a = os.path.join(box.act, 'same.txt')
        same_r = os.path.join(box.ref, 'same.txt')
        box.write(same_a, b'a\n')
        box.write(same_r, b'a\n')
        encs = TA.ENCODINGS if w == 'utf-8' else ['iso-8859-1']
        found = {}
        tally = {}
        verdicts = set()
        for enc in encs:
            codecs = [enc] if enc else ['utf-8', 'iso-8859-1']
            ekw = {'encoding': enc} if enc else {}
            eskw = {'encodings': [enc, None]} if enc else {}
            for i, o in enumerate(TA.NAME_POINTS):
                p = TA.option_point(**o)
                kw = TA.kwargs_of(p)
                mo = model_opts(p)
                vf = self.codec_verdict(ba, be, codecs, mo)
                vs = self.codec_verdict(ta, be, codecs, mo) \
                    if enc is None else None
                verdicts.add(vf)
                for an in TA.ACT_NAMES:
                    act = os.path.join(box.act, an)
                    for rn in TA.REF_NAMES:
                        ref = os.path.join(box.ref, rn)
                        calls = []
                        if vf is not None:
                            calls.append(('assertTextFileCorrect', vf, (
                                'assertTextFileCorrect', act, ref), ekw))
                            calls.append(('assertTextFilesCorrect', vf, (
                                'assertTextFilesCorrect', [act, same_a],
                                [ref, same_r]), eskw))
                        if vs is not None and an == TA.ACT_NAMES[0]:
                            calls.append(('assertStringCorrect', vs, (
                                'assertStringCorrect', ta, ref), {}))
                        for (name, v, args, xkw) in calls:
                            rk, info = box.call(*args, **dict(kw, **xkw))
                            R.ev()
                            if rk != 'pass':
                                box.clean(box.tmp)
                            if v == TS.UNSPEC:
                                R.unspec += 1
                            key = '%s|%s' % (rk, v)
                            tally[key] = tally.get(key, 0) + 1
                            real = rk if rk != 'error' else ('error', info)
                            kind = self.violation_kind(real, v)
                            if not kind:
                                continue
                            if kind == 'internal-error':
                                # named after what was asked for, not after
                                # the names (the detail has the first pair)
                                sig = ('internal-error:%s:file-names:'
                                       'encoding=%s:files-written-as=%s:%s'
                                       % (type(info).__name__,
                                          enc or 'absent', w,
                                          TA.option_label(p)))
                            else:
                                same = TA.extension_class(an) == \
                                    TA.extension_class(rn)
                                sig = '%s:file-names:%s:encoding=%s' % (
                                    kind, 'same-extension' if same
                                    else 'extensions-differ',
                                    enc or 'absent')
                            f = found.setdefault(sig, {
                                'entries': [], 'point': i,
                                'actual_file': an, 'reference_file': rn,
                                'encoding': enc, 'written_as': w,
                                'actual_text': ta, 'reference_text': te,
                                'options': o, 'model': v, 'tdda': rk if
                                rk != 'error' else repr(info)[:300]})
                            if name not in f['entries']:
                                f['entries'].append(name)
        for k, n in tally.items():
            R.out(k, n)
        R.nontrivial = any(ord(c) > 127 for c in ta + te) and \
            bool(verdicts & set([TS.MUST_PASS, TS.MUST_FAIL]))
        for sig in sorted(found):
            f = found[sig]
            kind = sig.split(':')[0]
            R.viol(sig, self.CLAUSES[kind] if kind != 'internal-error'
                   else 'no-internal-error', f, sub={'sig': sig})
        box.clean(box.tmp)
        return R

    def run_long(self, case):
        """Many lines / long lines with one named deviation, through
        check_strings and the entry points.  No shrinking here (the input is
        generated from three parameters, which name the signature)."""
        R = Res()
        box = self.box
        n, dev, width = case['n'], case['dev'], case['width']
        a, e = TA.long_text(n, dev, width)
        ta, te = TA.content(a), TA.content(e)
        box.clean(box.ref, box.act, box.tmp)
        ref = os.path.join(box.ref, 'ref.txt')
        act = os.path.join(box.act, 'out.txt')
        box.write(ref, te)
        box.write(act, ta)
        verdicts = set()
        for i, p in enumerate(LONG_POINTS):
            if width and p['ignore_patterns']:
                continue        # pattern readings on 100k-character lines
            kw = TA.kwargs_of(p)
            m = TS.evaluate(a, e, model_opts(p))
            verdicts.add(m.verdict)
            if m.verdict == TS.UNSPEC:
                R.unspec += 1
            seen = []
            for name, fn in (
                    ('check_strings', lambda: (self.real_strings(a, e, kw),
                                               None)),
                    ('assertStringCorrect', lambda: box.call(
                        'assertStringCorrect', ta, ref, **kw)),
                    ('assertTextFileCorrect', lambda: box.call(
                        'assertTextFileCorrect', act, ref, **kw)),
                    ('assertTextFilesCorrect', lambda: box.call(
                        'assertTextFilesCorrect', [act, ref], [ref, ref],
                        **kw))):
                rk, info = fn()
                if isinstance(rk, tuple):
                    rk, info = 'error', rk[1]
                R.ev()
                seen.append(rk[0])
                if rk != 'pass':
                    box.clean(box.tmp)
                real = rk if rk != 'error' else ('error', info)
                kind = self.violation_kind(real, m.verdict)
                if kind:
                    R.viol('%s:long-text:%s:%s:%s' % (
                        kind, dev, TA.option_label(p),
                        'check_strings' if name == 'check_strings'
                        else 'entry-points'),
                        self.CLAUSES[kind],
                        {'entry': name, 'lines': n, 'line_width': width,
                         'deviation': dev, 'options': dict(
                             (k, v) for k, v in p.items()
                             if v != TA.DEFAULT_POINT[k]),
                         'model': m.verdict, 'model_basis': m.why,
                         'tdda': rk if rk != 'error' else repr(info)[:300]},
                        sub={'point': i, 'entry': name})
            R.out('%s|%s' % (''.join(seen), m.verdict))
        R.nontrivial = dev != 'none'
        return R

    def run_entry(self, case):
        R = Res()
        box = self.box
        a, e = case['a'], case['e']
        ta = TA.content(a, *case['fa'])
        te = TA.content(e, *case['fe'])
        points = self.sets[case['pts']]
        box.clean(box.ref, box.act, box.tmp)
        ref = os.path.join(box.ref, 'ref.txt')
        ref2 = os.path.join(box.ref, 'same.txt')
        act = os.path.join(box.act, 'out.txt')
        act2 = os.path.join(box.act, 'same.txt')
        box.write(ref, te)
        box.write(ref2, te)
        box.write(act2, te)
        box.write(act, ta)
        routes = [
            ('assertStringCorrect', lambda kw: box.call(
                'assertStringCorrect', ta, ref, **kw)),
            ('assertTextFileCorrect', lambda kw: box.call(
                'assertTextFileCorrect', act, ref, **kw)),
            ('assertTextFilesCorrect[1]', lambda kw: box.call(
                'assertTextFilesCorrect', [act, act2], [ref, ref2], **kw)),
            ('assertTextFilesCorrect[2]', lambda kw: box.call(
                'assertTextFilesCorrect', [act2, act], [ref2, ref], **kw)),
            # the documented backwards-compatible spellings: ignore_lines= is
            # an alias of remove_lines=, assertFileCorrect / assertFilesCorrect
            # of the text-file assertions (run where remove_lines is set)
            ('assertStringCorrect[ignore_lines]', lambda kw: box.call(
                'assertStringCorrect', ta, ref, **self.alias_kw(kw))),
            ('assertFileCorrect[ignore_lines]', lambda kw: box.call(
                'assertFileCorrect', act, ref, **self.alias_kw(kw))),
            ('assertFilesCorrect[ignore_lines]', lambda kw: box.call(
                'assertFilesCorrect', [act, act2], [ref, ref2],
                **self.alias_kw(kw))),
        ]
        bad = dict((name, {}) for (name, fn) in routes)
        verdicts = set()
        tally = {}
        for i, p in enumerate(points):
            kw = TA.kwargs_of(p)
            mo = model_opts(p)
            m = TS.evaluate_texts(ta, te, mo)
            v = m.verdict
            if len(routes) > 2:
                # the list assertion also compares an identical pair: it
                # must pass exactly when both pairs do
                same = TS.evaluate_texts(te, te, mo).verdict
            verdicts.add(v)
            seen = []
            for (name, fn) in routes:
                if name.endswith('[ignore_lines]') and not p['remove_lines']:
                    continue
                (rk, info) = fn(kw)
                R.ev()
                seen.append(rk)
                if rk != 'pass':
                    # fresh files are cheap, truncating old ones is not
                    box.clean(box.tmp)
                vv = v
                if name.startswith(('assertTextFilesCorrect',
                                    'assertFilesCorrect')):
                    if same == TS.MUST_FAIL or v == TS.MUST_FAIL:
                        vv = TS.MUST_FAIL
                    elif same == TS.MUST_PASS and v == TS.MUST_PASS:
                        vv = TS.MUST_PASS
                    else:
                        vv = TS.UNSPEC
                if vv == TS.UNSPEC:
                    R.unspec += 1
                real = rk if rk != 'error' else ('error', info)
                kind = self.violation_kind(real, vv)
                if kind:
                    bad[name][i] = kind
            key = '%s|%s' % (''.join(s[0] for s in seen), v)
            tally[key] = tally.get(key, 0) + 1
        for k, n in tally.items():
            R.out(k, n)
        R.nontrivial = TS.MUST_PASS in verdicts and TS.MUST_FAIL in verdicts
        la, le = TS.lines_of_text(ta)[0], TS.lines_of_text(te)[0]
        for (name, fn) in routes:
            if not bad[name]:
                continue
            errs = dict((i, k) for i, k in bad[name].items()
                        if k == 'internal-error')
            rest = dict((i, k) for i, k in bad[name].items()
                        if k != 'internal-error')
            for i in sorted(errs)[:1]:
                rk, info = fn(TA.kwargs_of(points[i]))
                R.viol('internal-error:%s:%s:%s'
                       % (self.where_of(name), type(info).__name__,
                          TA.option_label(points[i])),
                       'no-internal-error',
                       {'entry': name, 'actual_text': ta,
                        'reference_text': te, 'options': points[i],
                        'exception': repr(info)[:400]},
                       sub={'point': i, 'entry': name})
            if rest:
                if case['fa'] == ['\n', 1] and case['fe'] == ['\n', 1]:
                    self.report(R, la, le, points, rest,
                                self.where_of(name))
                else:
                    for i, kind in sorted(rest.items())[:1]:
                        R.viol('%s:file-form:%s/%s:%s' % (
                            kind, self.form_name(case['fa']),
                            self.form_name(case['fe']), self.where_of(name)),
                            'file-forms',
                            {'entry': name, 'actual_text': ta,
                             'reference_text': te, 'options': points[i]},
                            sub={'point': i, 'entry': name})
        box.clean(box.tmp)
        return R

    @staticmethod
    def where_of(name):
        """Entry point named in signatures: the [1]/[2] order of the list
        assertion is dropped, the alias spelling is kept."""
        return name if 'ignore_lines' in name else name.split('[')[0]

    @staticmethod
    def alias_kw(kw):
        kw = dict(kw)
        kw['ignore_lines'] = kw.pop('remove_lines')
        return kw

    @staticmethod
    def form_name(form):
        nl = {'\n': 'LF', '\r\n': 'CRLF', '\r': 'CR'}[form[0]]
        return '%s%d' % (nl, form[1])

    def run_missing(self, case):
        """The reference file does not exist: no entry point may pass, and
        none may fail with anything but an assertion failure."""
        R = Res()
        box = self.box
        box.clean(box.ref, box.act, box.tmp)
        ta = TA.content(case['a'])
        ref = os.path.join(box.ref, 'absent.txt')
        ref2 = os.path.join(box.ref, 'same.txt')
        act = os.path.join(box.act, 'out.txt')
        box.write(act, ta)
        box.write(ref2, ta)
        R.nontrivial = True
        for i, p in enumerate(FORM_POINTS):
            kw = TA.kwargs_of(p)
            for (name, args) in [
                    ('assertStringCorrect', (ta, ref)),
                    ('assertTextFileCorrect', (act, ref)),
                    ('assertTextFilesCorrect', ([act, act], [ref2, ref]))]:
                rk, info = box.call(name, *args, **kw)
                box.clean(box.tmp)
                R.ev()
                R.out('missing-reference:%s' % rk)
                if rk == 'pass':
                    R.viol('over-accept:missing-reference:%s' % name,
                           'missing-reference-must-fail',
                           {'entry': name, 'actual_text': ta, 'options': p},
                           sub={'point': i, 'entry': name})
                elif rk == 'error':
                    R.viol('internal-error:missing-reference:%s:%s'
                           % (name, type(info).__name__),
                           'no-internal-error',
                           {'entry': name, 'actual_text': ta, 'options': p,
                            'exception': repr(info)[:400]},
                           sub={'point': i, 'entry': name})
        box.clean(box.tmp)
        return R


CHECK = C04()
