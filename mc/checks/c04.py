# -*- coding: utf-8 -*-
"""
C04 - text comparison passes exactly when texts agree modulo declared
exclusions.

E1 (bounded exhaustive).  A case is ONE (actual, reference) pair; run_case
sweeps the whole option product over it (512 points: lstrip x rstrip x
ignore_substrings x ignore_patterns x remove_lines x max_permutation_cases x
preprocess) on the real FilesComparison.check_strings, or drives the three
public entry points assertStringCorrect / assertTextFileCorrect /
assertTextFilesCorrect on real files in a per-worker sandbox.

Oracle: mc.models.text_spec (three valued, never calls tdda).  An alarm is
raised only where every reading of the statement agrees:
    over-accept   model MUST_FAIL, tdda passes
    under-accept  model MUST_PASS, tdda fails
    internal-error  anything but a pass or an assertion failure

Signatures: a violating (pair, option point) is first reduced to the option
points that are minimal inside the pair's sweep, then shrunk (lines dropped,
options reset while the same kind of violation persists, re-running model and
tdda) and named  <kind>:<options of the shrunk instance>:<what the model's
verdict rests on>.
"""
import os
import zlib

from mc.engine import Check, Res
from mc import text_alphabet as TA
from mc.models import text_spec as TS

FULL = TA.option_points()


# reduced set for the public entry points in the quick tier: every option
# point that sets at most two of the seven options (plus the one that sets
# them all) - 1 + 7 + 21 + 1 = 30 points.  lstrip and rstrip are separate
# options here, so an option handed to the wrong parameter is visible.
def _entry_points_quick():
    single = {'lstrip': True, 'rstrip': True, 'ignore_substrings': ['X'],
              'ignore_patterns': [r'\d+'], 'remove_lines': ['b'],
              'max_permutation_cases': 2, 'preprocess': 'drop_eacute'}
    names = TA.OPTION_NAMES
    out = [TA.option_point()]
    for i in range(len(names)):
        out.append(TA.option_point(**{names[i]: single[names[i]]}))
    for i in range(len(names)):
        for j in range(i + 1, len(names)):
            out.append(TA.option_point(**{names[i]: single[names[i]],
                                          names[j]: single[names[j]]}))
    out.append(TA.option_point(**single))
    return out


ENTRY_Q = _entry_points_quick()
# option points for the file-form layer: default + each option alone
FORM_POINTS = [TA.option_point(),
               TA.option_point(rstrip=True),
               TA.option_point(lstrip=True, rstrip=True),
               TA.option_point(ignore_patterns=[r'\d+']),
               TA.option_point(ignore_substrings=['X']),
               TA.option_point(remove_lines=['b']),
               TA.option_point(max_permutation_cases=2),
               TA.option_point(preprocess='drop_eacute')]
# permutation layer: the full product with the permitted number of cases up
# to 5 (768 points); through the entry points: that number x <= 1 other option
PERM_FULL = TA.option_points(mpcs=TA.PERM_MPCS)
PERM_ENTRY = [TA.option_point(max_permutation_cases=m, **o)
              for m in (0, 1, 2, 3, 4)
              for o in ({}, {'lstrip': True}, {'rstrip': True},
                        {'ignore_patterns': [r'\d+']},
                        {'ignore_patterns': [r'^a\d+$']})]
# multiset layer: permitted cases 0..5 x at most one other option (48 points)
MULTI_POINTS = [TA.option_point(max_permutation_cases=m, **o)
                for m in TA.PERM_MPCS
                for o in ({}, {'lstrip': True}, {'rstrip': True},
                          {'ignore_substrings': ['X']},
                          {'ignore_patterns': [r'\d+']},
                          {'ignore_patterns': [r'^a\d+$']},
                          {'remove_lines': ['b']},
                          {'preprocess': 'drop_eacute'})]
MULTI_ENTRY = [TA.option_point(max_permutation_cases=m, **o)
               for m in (0, 2, 3)
               for o in ({}, {'rstrip': True})]
# long texts: default, each line-level option alone, permutation allowance
LONG_POINTS = [TA.option_point(),
               TA.option_point(rstrip=True),
               TA.option_point(ignore_substrings=['X']),
               TA.option_point(ignore_patterns=[r'\d+']),
               TA.option_point(remove_lines=['b']),
               TA.option_point(preprocess='drop_eacute'),
               TA.option_point(max_permutation_cases=2),
               TA.option_point(max_permutation_cases=3)]
FORM_ALPHA_Q = ['a', 'é', '']
FORM_ALPHA_T = ['a', 'é', '', ' a', 'b']


def model_opts(point):
    return TS.Options(**TA.kwargs_of(point))


class C04(Check):
    pid = 'C04'
    title = ('text comparison passes exactly when texts agree modulo '
             'declared exclusions')
    technique = ('bounded exhaustive enumeration of (actual, reference) line '
                 'sequences x the full 512-point option product on the real '
                 'check_strings and the three public assertions, against an '
                 'independent three-valued reference model')
    rule = ('case = one (actual, reference) pair of line sequences over the '
            '9-line alphabet (length <=2 quick, <=3 thorough; single lines '
            'over a 32-line alphabet), swept over all 512 option points; '
            'permutation cases = every permutation of 3-4 distinct lines out '
            'of 5, plain / with one further line altered at every position / '
            'with one further differing pair inserted at every position, '
            'swept over 768 option points (permitted cases 0..5) and through '
            'the entry points; multiset cases = every pair of sequences of '
            '3-4 lines (length 5: every multiset as reference) WITH repeats '
            'over two 3-line alphabets under 48 option points, length 3 '
            'through the entry points; long-text cases = 200/1000/5000 lines or '
            '5000/100000-character lines with one of 9 named deviations; '
            'entry-point cases = pairs over a 5-line alphabet x the 30 option '
            'points that set <= 2 (or all 7) options (thorough: a second '
            '5-line alphabet, and all 512 points) '
            'x {string-vs-file, file-vs-file, '
            'list-of-files in both orders}, and file forms (final newline '
            'present/absent/doubled, CRLF, CR, non-ASCII, empty, missing '
            'reference).  Non-trivial = the model gives both must-pass and '
            'must-fail inside the case\'s option sweep.')
    assumptions = [
        'gray zones answered "unspecified" (never alarmed): pairs between '
        'the strict (token-equivalent) and the weakest (delete-what-matches) '
        'reading of "differ only in parts matched by an ignore-pattern"; '
        'whether and when one trailing empty line is dropped; whether a '
        'final newline starts another line; whether the permitted number of '
        'permutation cases counts unexcused or all differing pairs; patterns '
        'anchored at one end, matching the empty string or using context '
        'assertions; ignore/remove substrings with outer blanks under strip',
        'lines contain no line terminators other than \\n, \\r\\n, \\r; '
        'files are UTF-8',
        'alphabet bound: 9 lines (32 for single-line pairs), sequences of '
        'length <= 2 (quick) / <= 3 (thorough), one value per option besides '
        'its default except 3 patterns and 3 permutation limits',
    ]

    def hashseeds(self, tier, verif_seed):
        # nothing here depends on hash order; run under the requested seed
        return [verif_seed % 3]

    # ------------------------------------------------------------- layers
    def layers(self, tier):
        L = [('identical', 'identical content under every option point '
                           '(must pass)'),
             ('lines', 'single-line pairs over the extended line alphabet'),
             ('seq2', 'all pairs of sequences of length <= 2'),
             ('perm', 'permutations of 3-4 distinct lines, also with one '
                      'further line altered / one differing pair inserted at '
                      'every position, x 768 option points (limit 0..5)'),
             ('multiset', 'sequences of 3-5 lines WITH repeats over two '
                          '3-line alphabets: every actual sequence against '
                          'every reference (multisets for length 5) x 48 '
                          'option points (limit 0..5 x <= 1 other option)'),
             ('entry', 'public entry points on real files'),
             ('multiset-entry', 'length-3 (thorough: 4) sequences with '
                                'repeats through the entry points'),
             ('perm-entry', 'the permutation space through the entry points'),
             ('long', 'many lines (200..5000) and long lines (5000, 100000 '
                      'characters) with one named deviation'),
             ('forms', 'file forms: final newline, CRLF, CR, empty, missing '
                       'reference')]
        if tier == 'thorough':
            L += [('seq3-short', 'length 3 against length <= 1'),
                  ('seq3-2', 'length 3 against length 2'),
                  ('entry-full', 'public entry points under all 512 option '
                                 'points'),
                  ('seq3-3', 'length 3 against length 3')]
        return L

    def cases(self, tier, layer):
        n = 3 if tier == 'thorough' else 2
        if layer == 'identical':
            for s in TA.sequences(TA.LAMBDA, n):
                yield {'k': 'sweep', 'a': s, 'e': s}
        elif layer == 'lines':
            for a in TA.LAMBDA_X:
                for e in TA.LAMBDA_X:
                    if a != e:
                        yield {'k': 'sweep', 'a': [a], 'e': [e]}
        elif layer == 'seq2':
            for a in TA.sequences(TA.LAMBDA, 2):
                for e in TA.sequences(TA.LAMBDA, 2):
                    if a != e:
                        yield {'k': 'sweep', 'a': a, 'e': e}
        elif layer == 'perm':
            for a, e in TA.permutation_pairs():
                yield {'k': 'sweep', 'a': a, 'e': e, 'pts': 'perm'}
        elif layer == 'multiset':
            for alpha in TA.MULTI_ALPHABETS:
                for a, e in TA.multiset_pairs(alpha):
                    if a != e:
                        yield {'k': 'sweep', 'a': a, 'e': e, 'pts': 'multi'}
        elif layer == 'multiset-entry':
            sizes = (3, 4) if tier == 'thorough' else (3,)
            for a, e in TA.multiset_pairs(TA.MULTI_ALPHABETS[1], sizes):
                if a != e:
                    yield {'k': 'entry', 'a': a, 'e': e, 'fa': ['\n', 1],
                           'fe': ['\n', 1], 'pts': 'multi-entry'}
        elif layer == 'perm-entry':
            lines = TA.PERM_LINES if tier == 'thorough' else TA.PERM_LINES[:4]
            extras = TA.PERM_EXTRA if tier == 'thorough' \
                else TA.PERM_EXTRA[:1]
            for a, e in TA.permutation_pairs(lines, extras=extras):
                yield {'k': 'entry', 'a': a, 'e': e,
                       'fa': ['\n', 1], 'fe': ['\n', 1], 'pts': 'perm-entry'}
        elif layer == 'long':
            for n in TA.LONG_SIZES:
                for dev in TA.LONG_DEVIATIONS:
                    yield {'k': 'long', 'n': n, 'dev': dev, 'width': 0}
            for width in (5000, 100000):
                for n in (1, 3):
                    for dev in TA.LONG_DEVIATIONS:
                        if n == 1 and 'swap' in dev:
                            continue
                        yield {'k': 'long', 'n': n, 'dev': dev,
                               'width': width}
        elif layer in ('entry', 'entry-full'):
            alphas = [TA.LAMBDA_R]
            if tier == 'thorough' and layer == 'entry':
                alphas.append(TA.LAMBDA_R2)
            for alpha in alphas:
                for a in TA.sequences(alpha, 2):
                    for e in TA.sequences(alpha, 2):
                        yield {'k': 'entry', 'a': a, 'e': e,
                               'fa': ['\n', 1], 'fe': ['\n', 1],
                               'pts': 'full' if layer == 'entry-full'
                               else 'q'}
        elif layer == 'forms':
            alpha = FORM_ALPHA_T if tier == 'thorough' else FORM_ALPHA_Q
            for a in TA.sequences(alpha, 2):
                for e in TA.sequences(alpha, 2):
                    for fa in TA.FILE_FORMS:
                        for fe in TA.FILE_FORMS:
                            if fa == ('\n', 1) and fe == ('\n', 1):
                                continue
                            yield {'k': 'entry', 'a': a, 'e': e,
                                   'fa': list(fa), 'fe': list(fe),
                                   'pts': 'form'}
            for a in TA.sequences(alpha, 2):
                yield {'k': 'missing', 'a': a}
        elif layer == 'seq3-short':
            for a in TA.sequences(TA.LAMBDA, 3, 3):
                for e in TA.sequences(TA.LAMBDA, 1):
                    yield {'k': 'sweep', 'a': a, 'e': e}
                    yield {'k': 'sweep', 'a': e, 'e': a}
        elif layer == 'seq3-2':
            for a in TA.sequences(TA.LAMBDA, 3, 3):
                for e in TA.sequences(TA.LAMBDA, 2, 2):
                    yield {'k': 'sweep', 'a': a, 'e': e}
                    yield {'k': 'sweep', 'a': e, 'e': a}
        elif layer == 'seq3-3':
            for a in TA.sequences(TA.LAMBDA, 3, 3):
                for e in TA.sequences(TA.LAMBDA, 3, 3):
                    if a != e:
                        yield {'k': 'sweep', 'a': a, 'e': e}

    # ------------------------------------------------------------- worker
    def setup_worker(self, tier):
        from tdda.referencetest.checkfiles import FilesComparison
        self.box = TA.TextSandbox('c04_')
        self.fc = FilesComparison(verbose=False, tmp_dir=self.box.tmp)
        self.full_kw = [TA.kwargs_of(p) for p in FULL]
        self.full_mo = [model_opts(p) for p in FULL]
        self.sets = {'full': FULL, 'q': ENTRY_Q, 'form': FORM_POINTS,
                     'perm': PERM_FULL, 'perm-entry': PERM_ENTRY,
                     'multi': MULTI_POINTS, 'multi-entry': MULTI_ENTRY}
        self.sweep_kw = {'full': (self.full_kw, self.full_mo),
                         'perm': ([TA.kwargs_of(p) for p in PERM_FULL],
                                  [model_opts(p) for p in PERM_FULL]),
                         'multi': ([TA.kwargs_of(p) for p in MULTI_POINTS],
                                   [model_opts(p) for p in MULTI_POINTS])}

    def teardown_worker(self):
        box = getattr(self, 'box', None)
        if box is not None:
            box.close()
            self.box = None

    # ------------------------------------------------------- real executions
    def real_strings(self, a, e, kw):
        """'pass' | 'fail' | ('error', exc)"""
        try:
            r = self.fc.check_strings(list(a), list(e),
                                      create_temporaries=False, **kw)
            return 'pass' if r.failures == 0 else 'fail'
        except Exception as ex:
            return ('error', ex)

    # ---------------------------------------------------------- attribution
    def violation_kind(self, real, verdict):
        if isinstance(real, tuple):
            return 'internal-error'
        if real == 'pass' and verdict == TS.MUST_FAIL:
            return 'over-accept'
        if real == 'fail' and verdict == TS.MUST_PASS:
            return 'under-accept'
        return None

    def kind_at(self, a, e, point):
        m = TS.evaluate(a, e, model_opts(point))
        real = self.real_strings(a, e, TA.kwargs_of(point))
        return self.violation_kind(real, m.verdict), m, real

    def shrink(self, a, e, point, kind):
        """Greedy, deterministic reduction of a violating instance."""
        a, e, point = list(a), list(e), dict(point)
        changed = True
        while changed:
            changed = False
            cands = []
            for i in range(max(len(a), len(e))):
                if i < len(a) and i < len(e):
                    cands.append((a[:i] + a[i + 1:], e[:i] + e[i + 1:]))
                if i < len(a):
                    cands.append((a[:i] + a[i + 1:], e))
                if i < len(e):
                    cands.append((a, e[:i] + e[i + 1:]))
            # two aligned pairs at once (a permuted couple goes only together)
            n = min(len(a), len(e))
            for i in range(n):
                for j in range(i + 1, n):
                    cands.append(([s for k, s in enumerate(a)
                                   if k not in (i, j)],
                                  [s for k, s in enumerate(e)
                                   if k not in (i, j)]))
            # simplify a line: take its outer blanks away
            for i, s in enumerate(a):
                if s != s.strip():
                    cands.append((a[:i] + [s.strip()] + a[i + 1:], e))
            for i, s in enumerate(e):
                if s != s.strip():
                    cands.append((a, e[:i] + [s.strip()] + e[i + 1:]))
            for (a2, e2) in cands:
                if self.kind_at(a2, e2, point)[0] == kind:
                    a, e, changed = a2, e2, True
                    break
            if changed:
                continue
            for k in TA.OPTION_NAMES:
                if point[k] != TA.DEFAULT_POINT[k]:
                    p2 = dict(point)
                    p2[k] = TA.DEFAULT_POINT[k]
                    if self.kind_at(a, e, p2)[0] == kind:
                        point, changed = p2, True
                        break
        return a, e, point

    def signature(self, kind, a, e, point, where='check_strings'):
        sa, se, sp = self.shrink(a, e, point, kind)
        k2, m, real = self.kind_at(sa, se, sp)
        if kind == 'under-accept':
            basis = '+'.join(TS.pass_reasons(m)) or m.why
        elif kind == 'over-accept':
            basis = m.why
        else:
            basis = type(real[1]).__name__
        sig = '%s:%s:%s' % (kind, TA.option_label(sp), basis)
        return sig, {'actual': sa, 'reference': se,
                     'options': dict((k, v) for k, v in sp.items()
                                     if v != TA.DEFAULT_POINT[k]),
                     'model': m.verdict, 'model_basis': m.why,
                     'tdda': real if isinstance(real, str) else repr(real[1])}

    CLAUSES = {'over-accept': 'unexcused-difference-must-fail',
               'under-accept': 'agreement-modulo-exclusions-must-pass',
               'internal-error': 'no-internal-error'}

    def report(self, R, a, e, points, bad, where):
        """bad: {index in points: kind}.  Reports the minimal points."""
        if where != 'check_strings':
            # Does check_strings show the same fault on the same content?
            # If not, the wrapper (option forwarding) is at fault, not the
            # comparison: one violation per kind, named after the entry
            # point (the detail lists the options set at EVERY violating
            # point of the case).
            for kind in sorted(set(bad.values())):
                idx = sorted(i for i in bad if bad[i] == kind)
                if any(self.kind_at(a, e, points[i])[0] == kind
                       for i in idx):
                    continue
                common = None
                for i in idx:
                    names = set(TA.option_label(points[i]).split('+'))
                    common = names if common is None else common & names
                first = min(idx, key=lambda i: (TA.n_set(points[i]), i))
                R.viol('%s@%s' % (kind, where), self.CLAUSES[kind],
                       {'entry': where, 'actual': a, 'reference': e,
                        'options': dict((k, v)
                                        for k, v in points[first].items()
                                        if v != TA.DEFAULT_POINT[k]),
                        'options_set_at_every_violating_point':
                            sorted(common),
                        'note': 'check_strings agrees with the model on '
                                'this content; only the entry point differs',
                        'other_option_points_in_this_case': len(idx) - 1},
                       sub={'point': first, 'entry': where})
                bad = dict((i, k) for i, k in bad.items() if k != kind)
        for i, kind in sorted(bad.items()):
            if any(j != i and bad[j] == kind
                   and TA.is_subpoint(points[j], points[i])
                   and points[j] != points[i] for j in bad):
                continue
            sig, small = self.signature(kind, a, e, points[i])
            R.viol(sig, self.CLAUSES[kind],
                   {'entry': where, 'actual': a, 'reference': e,
                    'options': dict((k, v) for k, v in points[i].items()
                                    if v != TA.DEFAULT_POINT[k]),
                    'shrunk': small,
                    'other_option_points_in_this_case': len(bad) - 1},
                   sub={'point': i, 'entry': where})

    # ------------------------------------------------------------- run_case
    def run_case(self, case):
        if case['k'] == 'sweep':
            return self.run_sweep(case)
        if case['k'] == 'entry':
            return self.run_entry(case)
        if case['k'] == 'long':
            return self.run_long(case)
        return self.run_missing(case)

    def run_sweep(self, case):
        R = Res()
        a, e = case['a'], case['e']
        bad = {}
        tally = {}
        bits = bytearray()
        verdicts = set()
        pts = case.get('pts', 'full')
        points = self.sets[pts]
        kws, mos = self.sweep_kw[pts]
        for i, (kw, mo) in enumerate(zip(kws, mos)):
            real = self.real_strings(a, e, kw)
            m = TS.evaluate(a, e, mo)
            v = m.verdict
            verdicts.add(v)
            rk = real if isinstance(real, str) else 'error'
            bits.append(80 if rk == 'pass' else 70 if rk == 'fail' else 69)
            key = rk + '|' + v
            tally[key] = tally.get(key, 0) + 1
            if v == TS.UNSPEC:
                R.unspec += 1
            kind = self.violation_kind(real, v)
            if kind:
                bad[i] = kind
        R.ev(len(points))
        for k, n in tally.items():
            R.out(k, n)
        R.out('vector:%08x' % zlib.crc32(bytes(bits)))
        R.nontrivial = TS.MUST_PASS in verdicts and TS.MUST_FAIL in verdicts
        if bad:
            self.report(R, a, e, points, bad, 'check_strings')
        return R

    def run_long(self, case):
        """Many lines / long lines with one named deviation, through
        check_strings and the entry points.  No shrinking here (the input is
        generated from three parameters, which name the signature)."""
        R = Res()
        box = self.box
        n, dev, width = case['n'], case['dev'], case['width']
        a, e = TA.long_text(n, dev, width)
        ta, te = TA.content(a), TA.content(e)
        box.clean(box.ref, box.act, box.tmp)
        ref = os.path.join(box.ref, 'ref.txt')
        act = os.path.join(box.act, 'out.txt')
        box.write(ref, te)
        box.write(act, ta)
        verdicts = set()
        for i, p in enumerate(LONG_POINTS):
            if width and p['ignore_patterns']:
                continue        # pattern readings on 100k-character lines
            kw = TA.kwargs_of(p)
            m = TS.evaluate(a, e, model_opts(p))
            verdicts.add(m.verdict)
            if m.verdict == TS.UNSPEC:
                R.unspec += 1
            seen = []
            for name, fn in (
                    ('check_strings', lambda: (self.real_strings(a, e, kw),
                                               None)),
                    ('assertStringCorrect', lambda: box.call(
                        'assertStringCorrect', ta, ref, **kw)),
                    ('assertTextFileCorrect', lambda: box.call(
                        'assertTextFileCorrect', act, ref, **kw)),
                    ('assertTextFilesCorrect', lambda: box.call(
                        'assertTextFilesCorrect', [act, ref], [ref, ref],
                        **kw))):
                rk, info = fn()
                if isinstance(rk, tuple):
                    rk, info = 'error', rk[1]
                R.ev()
                seen.append(rk[0])
                if rk != 'pass':
                    box.clean(box.tmp)
                real = rk if rk != 'error' else ('error', info)
                kind = self.violation_kind(real, m.verdict)
                if kind:
                    R.viol('%s:long-text:%s:%s:%s' % (
                        kind, dev, TA.option_label(p),
                        'check_strings' if name == 'check_strings'
                        else 'entry-points'),
                        self.CLAUSES[kind],
                        {'entry': name, 'lines': n, 'line_width': width,
                         'deviation': dev, 'options': dict(
                             (k, v) for k, v in p.items()
                             if v != TA.DEFAULT_POINT[k]),
                         'model': m.verdict, 'model_basis': m.why,
                         'tdda': rk if rk != 'error' else repr(info)[:300]},
                        sub={'point': i, 'entry': name})
            R.out('%s|%s' % (''.join(seen), m.verdict))
        R.nontrivial = dev != 'none'
        return R

    def run_entry(self, case):
        R = Res()
        box = self.box
        a, e = case['a'], case['e']
        ta = TA.content(a, *case['fa'])
        te = TA.content(e, *case['fe'])
        points = self.sets[case['pts']]
        box.clean(box.ref, box.act, box.tmp)
        ref = os.path.join(box.ref, 'ref.txt')
        ref2 = os.path.join(box.ref, 'same.txt')
        act = os.path.join(box.act, 'out.txt')
        act2 = os.path.join(box.act, 'same.txt')
        box.write(ref, te)
        box.write(ref2, te)
        box.write(act2, te)
        box.write(act, ta)
        routes = [
            ('assertStringCorrect', lambda kw: box.call(
                'assertStringCorrect', ta, ref, **kw)),
            ('assertTextFileCorrect', lambda kw: box.call(
                'assertTextFileCorrect', act, ref, **kw)),
            ('assertTextFilesCorrect[1]', lambda kw: box.call(
                'assertTextFilesCorrect', [act, act2], [ref, ref2], **kw)),
            ('assertTextFilesCorrect[2]', lambda kw: box.call(
                'assertTextFilesCorrect', [act2, act], [ref2, ref], **kw)),
        ]
        bad = dict((name, {}) for (name, fn) in routes)
        verdicts = set()
        tally = {}
        for i, p in enumerate(points):
            kw = TA.kwargs_of(p)
            mo = model_opts(p)
            m = TS.evaluate_texts(ta, te, mo)
            v = m.verdict
            if len(routes) > 2:
                # the list assertion also compares an identical pair: it
                # must pass exactly when both pairs do
                same = TS.evaluate_texts(te, te, mo).verdict
            verdicts.add(v)
            seen = []
            for (name, fn) in routes:
                (rk, info) = fn(kw)
                R.ev()
                seen.append(rk)
                if rk != 'pass':
                    # fresh files are cheap, truncating old ones is not
                    box.clean(box.tmp)
                vv = v
                if name.startswith('assertTextFilesCorrect'):
                    if same == TS.MUST_FAIL or v == TS.MUST_FAIL:
                        vv = TS.MUST_FAIL
                    elif same == TS.MUST_PASS and v == TS.MUST_PASS:
                        vv = TS.MUST_PASS
                    else:
                        vv = TS.UNSPEC
                if vv == TS.UNSPEC:
                    R.unspec += 1
                real = rk if rk != 'error' else ('error', info)
                kind = self.violation_kind(real, vv)
                if kind:
                    bad[name][i] = kind
            key = '%s|%s' % (''.join(s[0] for s in seen), v)
            tally[key] = tally.get(key, 0) + 1
        for k, n in tally.items():
            R.out(k, n)
        R.nontrivial = TS.MUST_PASS in verdicts and TS.MUST_FAIL in verdicts
        la, le = TS.lines_of_text(ta)[0], TS.lines_of_text(te)[0]
        for (name, fn) in routes:
            if not bad[name]:
                continue
            errs = dict((i, k) for i, k in bad[name].items()
                        if k == 'internal-error')
            rest = dict((i, k) for i, k in bad[name].items()
                        if k != 'internal-error')
            for i in sorted(errs)[:1]:
                rk, info = fn(TA.kwargs_of(points[i]))
                R.viol('internal-error:%s:%s:%s'
                       % (name.split('[')[0], type(info).__name__,
                          TA.option_label(points[i])),
                       'no-internal-error',
                       {'entry': name, 'actual_text': ta,
                        'reference_text': te, 'options': points[i],
                        'exception': repr(info)[:400]},
                       sub={'point': i, 'entry': name})
            if rest:
                if case['fa'] == ['\n', 1] and case['fe'] == ['\n', 1]:
                    self.report(R, la, le, points, rest,
                                name.split('[')[0])
                else:
                    for i, kind in sorted(rest.items())[:1]:
                        R.viol('%s:file-form:%s/%s:%s' % (
                            kind, self.form_name(case['fa']),
                            self.form_name(case['fe']), name.split('[')[0]),
                            'file-forms',
                            {'entry': name, 'actual_text': ta,
                             'reference_text': te, 'options': points[i]},
                            sub={'point': i, 'entry': name})
        box.clean(box.tmp)
        return R

    @staticmethod
    def form_name(form):
        nl = {'\n': 'LF', '\r\n': 'CRLF', '\r': 'CR'}[form[0]]
        return '%s%d' % (nl, form[1])

    def run_missing(self, case):
        """The reference file does not exist: no entry point may pass, and
        none may fail with anything but an assertion failure."""
        R = Res()
        box = self.box
        box.clean(box.ref, box.act, box.tmp)
        ta = TA.content(case['a'])
        ref = os.path.join(box.ref, 'absent.txt')
        ref2 = os.path.join(box.ref, 'same.txt')
        act = os.path.join(box.act, 'out.txt')
        box.write(act, ta)
        box.write(ref2, ta)
        R.nontrivial = True
        for i, p in enumerate(FORM_POINTS):
            kw = TA.kwargs_of(p)
            for (name, args) in [
                    ('assertStringCorrect', (ta, ref)),
                    ('assertTextFileCorrect', (act, ref)),
                    ('assertTextFilesCorrect', ([act, act], [ref2, ref]))]:
                rk, info = box.call(name, *args, **kw)
                box.clean(box.tmp)
                R.ev()
                R.out('missing-reference:%s' % rk)
                if rk == 'pass':
                    R.viol('over-accept:missing-reference:%s' % name,
                           'missing-reference-must-fail',
                           {'entry': name, 'actual_text': ta, 'options': p},
                           sub={'point': i, 'entry': name})
                elif rk == 'error':
                    R.viol('internal-error:missing-reference:%s:%s'
                           % (name, type(info).__name__),
                           'no-internal-error',
                           {'entry': name, 'actual_text': ta, 'options': p,
                            'exception': repr(info)[:400]},
                           sub={'point': i, 'entry': name})
        box.clean(box.tmp)
        return R


CHECK = C04()
