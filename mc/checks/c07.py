"""
C07 - discovery reports exact statistics of the data (constraints are tight).

E1 over every small single-column DataFrame of DESIGN 3.1 (all column
families, 0..R rows, the 19/20/21/25 category boundary) through the REAL
discover_df(...).to_dict(), and over SQLite tables (INTEGER / REAL / TEXT /
BOOLEAN / DATETIME and the other spellings of tdda's type map, 0..R rows,
same value alphabets) through the REAL discover_db_table on a connection made
by tdda's own database_connection(dbtype='sqlite', db=':memory:').

Oracle: mc.models.discover_spec (independent exact-statistics model, three
valued).  Every key of every discovered field is compared; fields, their
order and the absence of other fields are compared too.

Process state: the worker only imports tdda; every case executes it in a
child forked from that pristine image (mc.fresh_fork), so the explorer and a
fresh-process replay see the same state and no case can be influenced by
another.  Dependence on what the process did before is explored EXPLICITLY in
two E3 layers (sqlite-hist, pd-hist): a same-named table / same-named columns
are discovered again after something else, with the differential oracle "the
last discovery reports what it reports from a fresh state" in front of the
model (signature history-dependent:<source>:<mode>:<aspect>).  A third E3
layer (sqlite-txn) works on ONE connection: some rows of the table are
committed, the others only written, and every sequence of three operations out
of {discover_db_table, caller commits} follows; every discovery must report
all the rows the caller wrote (history-dependent:sqlite:uncommitted-rows:...).
"""
import collections
import contextlib
import datetime
import io
import itertools
import json
import os
import shutil
import tempfile

from mc.engine import Check, Res
from mc import frames_alphabet as FA
from mc import fresh_fork as FF
from mc.models import discover_spec as DS

# ---------------------------------------------------------------- SQLite side

SQL_VALUES = {
    'int': [None, -2, 0, 1, 3],
    'real': [None, -1.5, 0.0, 2.0, 2.5],
    'string': [None, '', 'a', 'B1', 'é²', "o'q\\", 'x y'],
    'bool': [None, 0, 1],
    'date': [None, '1999-12-31 23:59:59', '2000-01-01 00:00:00',
             '2000-02-29 12:00:00'],
}
SQL_EXTREME = {'int': [-(2 ** 63) + 1, -1, 2 ** 62]}
SQL_DECL = {          # declared type -> tdda kind (documented type map)
    'INTEGER': 'int', 'REAL': 'real', 'TEXT': 'string', 'BOOLEAN': 'bool',
    'DATETIME': 'date',
}
SQL_DECL_MORE = {
    'INT': 'int', 'BIGINT': 'int', 'SMALLINT': 'int', 'TINYINT': 'int',
    'FLOAT': 'real', 'DOUBLE': 'real', 'DOUBLE PRECISION': 'real',
    'NUMERIC': 'real', 'VARCHAR': 'string', 'CHAR': 'string',
    'NVARCHAR': 'string', 'BOOL': 'bool', 'DATE': 'date',
    'TIMESTAMP': 'date',
}
SQL_NAMES = ['c', 'my col', 'é']
# how the caller's connection is made and how it handles transactions
TXN_CONNS = ['tdda-mem',        # database_connection(db=':memory:'): python's
                                # default, a transaction opens before DML
             'tdda-file',       # the same on a database file
             'own-autocommit-off',  # DBConnector(sqlite3.connect(...,
                                    # autocommit=False)): always in a txn
             'own-explicit-begin']  # isolation_level=None + BEGIN by hand
TXN_OPS = 'DC'                  # discover_db_table / the caller commits


def sql_columns(decl, kind, maxrows, name, values=None):
    vals = values if values is not None else SQL_VALUES[kind]
    for n in range(maxrows + 1):
        for tup in itertools.product(vals, repeat=n):
            yield {'name': name, 'decl': decl, 'kind': kind, 'v': list(tup)}


def sql_plain(col):
    """(kind, values, info) for the model from a SQL column description."""
    kind = col['kind']
    vals = []
    for v in col['v']:
        if v is None:
            vals.append(None)
        elif kind == 'bool':
            vals.append(bool(v))
        elif kind == 'date':
            vals.append(FA.parse_instant(v.replace(' ', 'T')))
        elif kind == 'real':
            vals.append(float(v))
        else:
            vals.append(v)
    return kind, vals, {'dateonly': False, 'tzmin': None}


# --------------------------------------------------------------------- check

class C07(Check):
    pid = 'C07'
    title = 'discovery reports exact statistics of the data'
    technique = ('bounded exhaustive enumeration of small columns (pandas '
                 'frames and SQLite tables) through the real discover_df / '
                 'discover_db_table, compared key by key with an independent '
                 'exact-statistics model')
    rule = ('cases = every one-column DataFrame with 0..R cells (R=3 quick, '
            '4 thorough) over each of 22 column families '
            '(signed/unsigned/extreme/nullable ints, floats with NaN and '
            '+-inf, float32, bool / object-bool / nullable boolean, object '
            'strings incl. unicode, quotes, ^ and -, categoricals with and '
            'without unused categories, naive datetimes at s/ms/us/ns, two '
            'tz-aware families, date objects) plus 28 many-category columns '
            '(0,1,2,19,20,21,25 distinct x repeat x null) x field names; and '
            'every one-column SQLite table with 0..R rows over INTEGER / REAL '
            '/ TEXT / BOOLEAN / DATETIME x 3 column names, 14 more declared '
            'type names (0..2 rows), many-category TEXT columns; every '
            'two-column frame / table over ordered pairs of families / types '
            'with 2 rows; E3: every history (first table/frame with a fixed '
            '2-row column of type A) -> (same-named table/frame of type B, '
            '0..2 rows over a 3-/2-value sub-alphabet) for all ordered type '
            'pairs x modes {new :memory: database with the first connection '
            'kept open, DROP+CREATE in the same database | new frame object, '
            'same frame object with replaced columns}, plus exchanged column '
            'types, an inserted leading column and the category boundary '
            '(thorough: two earlier steps, 14 more declared types); E3 on one '
            'connection: every one-column table of 1..2 rows (thorough 3) '
            'over 5 declared types x every split into k committed rows + the '
            'rest written but not committed x 4 kinds of connection (made by '
            'tdda on :memory: / on a file, made by the caller with '
            'autocommit off / with an explicit BEGIN) x all 8 sequences of 3 '
            'operations out of {discover_db_table, connection.commit()}; '
            'non-trivial = the model requires at least one statistic beyond '
            'the type')
    assumptions = [
        'pandas 3.0.6 / numpy 2.5 / sqlite3 of python 3.12; values outside '
        'the alphabets, > 4 rows (except many-category columns) and > 2 '
        'columns are not explored',
        'text columns are object dtype or Categorical (pandas `str` dtype is '
        'outside the property\'s type list)',
        'every null object an object column can hold (None, float nan, '
        'np.nan, pd.NA, pd.NaT) counts as null in the model; '
        'gray zones (never alarmed on): type of an object column without any '
        'non-null cell; max_nulls 0 or allowed_values [] for absent data; '
        'sign "null" on an all-null numeric column; presence of sign on bool '
        'fields (its value is still checked); a nanosecond bound truncated to '
        'microseconds; a tz-aware bound written without offset; order of '
        'allowed_values (the file-format document says it is not '
        'significant)',
        'SQLite booleans are the integers 0/1, so 0/1 are accepted as bool '
        'min/max there; SQLite DATETIME values are canonical '
        '"YYYY-MM-DD HH:MM:SS" text',
        'float bounds are compared with == on exactly representable values',
        'every case starts from the process state "tdda imported, never '
        'called" (forked child); state kept by tdda between calls is explored '
        'only through the explicit histories of the sqlite-hist / pd-hist '
        'layers (depth 1, thorough 2) and the operation sequences of '
        'sqlite-txn',
        'rows the caller has written through the connection handed to '
        'discover_db_table and not yet committed belong to the table (the '
        'connection sees them; the quantifier says "all SQLite tables", not '
        '"committed"); the caller never rolls back, so every discovery on '
        'that connection is held to the statistics of all rows written',
        'cells are str (object dtype / Categorical / SQLite text); bytes '
        'cells (SQLite blobs in a TEXT column) are not "strings" of the '
        'quantifier and "length in characters" is undefined for them: not '
        'enumerated',
    ]

    # ----------------------------------------------------------- enumeration
    def hashseeds(self, tier, verif_seed):
        return [verif_seed % 3]

    def layers(self, tier):
        R = 4 if tier == 'thorough' else 3
        return [('pd-single', 'one-column DataFrames, all families, 0..%d '
                              'rows, many-category columns' % R),
                ('pd-nulls', 'object columns (strings, bools, dates, 19/20/21 '
                             'categories) with one, two (both orders) or '
                             'three KINDS of null - None, float nan, np.nan, '
                             'pd.NA, pd.NaT - and all values distinct / one '
                             'duplicated / one value / none'),
                ('sqlite-single', 'one-column SQLite tables, 0..%d rows' % R),
                ('sqlite-decl', 'the 14 other declared type names of the '
                                'type map, 0..2 rows'),
                ('sqlite-two', 'two-column SQLite tables, 2 rows'),
                ('sqlite-hist', 'E3: table t / column c discovered, then a '
                                'same-named table with another declared '
                                'type / layout / data (new :memory: database '
                                'with the first connection kept open; DROP + '
                                'CREATE in the same database) discovered '
                                'again: must equal discovery from a fresh '
                                'state'),
                ('sqlite-txn', 'E3 on ONE connection: a table whose first '
                               'k rows are committed and whose other rows '
                               'are written but not (yet) committed, then '
                               'every sequence of 3 operations out of '
                               '{discover_db_table, caller commits}; '
                               'connection made by tdda (:memory: / file) or '
                               'by the caller (autocommit off / explicit '
                               'BEGIN): every discovery must report the '
                               'statistics of ALL rows, as from a fresh '
                               'state'),
                ('pd-hist', 'E3: discover_df on a frame, then on another '
                            'frame object with the same column names, or on '
                            'the same frame object after its columns were '
                            'replaced: must equal discovery from a fresh '
                            'state'),
                ('pd-two', 'two-column DataFrames (ordered family pairs, '
                           '2 rows, %d-value sub-alphabets)' % (R - 1 if R == 3
                                                               else R,))]

    def cases(self, tier, layer):
        thorough = tier == 'thorough'
        R = 4 if thorough else 3
        if layer == 'pd-single':
            names = FA.NAMES if thorough else ['a', 'b c']
            fams = FA.BASE_FAMILIES + FA.EXTRA_FAMILIES
            for fr in FA.single_column_frames(fams, R, names, manycat=True):
                yield {'src': 'pd', 'frame': fr}
        elif layer == 'pd-nulls':
            for name in (FA.NAMES[:3] if thorough else ['a']):
                for col in FA.null_flavour_columns(name):
                    yield {'src': 'pd', 'frame': {'cols': [col]}}
        elif layer == 'sqlite-single':
            for name in SQL_NAMES:
                for decl, kind in SQL_DECL.items():
                    for col in sql_columns(decl, kind, R, name):
                        yield {'src': 'sqlite', 'cols': [col]}
                for col in sql_columns('INTEGER', 'int', 3, name,
                                       SQL_EXTREME['int']):
                    yield {'src': 'sqlite', 'cols': [col]}
                for mc in FA.manycat_columns(name):
                    yield {'src': 'sqlite', 'cols': [
                        {'name': name, 'decl': 'TEXT', 'kind': 'string',
                         'v': mc['v']}]}
        elif layer == 'pd-two':
            fams = FA.BASE_FAMILIES + (FA.EXTRA_FAMILIES if thorough else [])
            pairs = [('a', 'b c'), ('min', 'a')] if thorough \
                else [('a', 'b c')]
            for fr in FA.two_column_frames(fams, 2, pairs,
                                           4 if thorough else 2):
                yield {'src': 'pd', 'frame': fr}
        elif layer == 'sqlite-two':
            decls = list(SQL_DECL.items())
            nv = 5 if thorough else 3
            for (d1, k1) in decls:
                for (d2, k2) in decls:
                    for t1 in itertools.product(SQL_VALUES[k1][:nv],
                                                repeat=2):
                        for t2 in itertools.product(SQL_VALUES[k2][:nv],
                                                    repeat=2):
                            yield {'src': 'sqlite', 'cols': [
                                {'name': 'c', 'decl': d1, 'kind': k1,
                                 'v': list(t1)},
                                {'name': 'my col', 'decl': d2, 'kind': k2,
                                 'v': list(t2)}]}
        elif layer == 'sqlite-decl':
            for decl, kind in SQL_DECL_MORE.items():
                for col in sql_columns(decl, kind, 2, 'c'):
                    yield {'src': 'sqlite', 'cols': [col]}
        elif layer == 'sqlite-hist':
            for case in self.grouped(self.sqlite_histories(thorough)):
                yield case
        elif layer == 'pd-hist':
            for case in self.grouped(self.pd_histories(thorough)):
                yield case
        elif layer == 'sqlite-txn':
            nv, rows = (4, 3) if thorough else (3, 2)
            for conn in TXN_CONNS:
                for decl, kind in SQL_DECL.items():
                    for col in sql_columns(decl, kind, rows, 'c',
                                           SQL_VALUES[kind][:nv]):
                        n = len(col['v'])
                        for k in range(n + 1 if n else 0):
                            yield {'src': 'sqlite', 'cols': [col],
                                   'txn': {'conn': conn, 'committed': k,
                                           'depth': 3}}

    @staticmethod
    def grouped(histories):
        """One case = one last step + mode with ALL the histories that end
        in it (the fresh-state observation of the last step is shared)."""
        groups = collections.OrderedDict()
        for h in histories:
            last = dict((k, h[k]) for k in ('src', 'mode', 'cols', 'frame')
                        if k in h)
            key = json.dumps(last, sort_keys=True)
            if key not in groups:
                groups[key] = dict(last, hists=[])
            groups[key]['hists'].append(h['hist'])
        return groups.values()

    @staticmethod
    def sqlite_histories(thorough):
        modes = ('new-db', 'drop-create')
        decls = list(SQL_DECL.items())

        def fixed(decl, kind, name='c'):
            return {'name': name, 'decl': decl, 'kind': kind,
                    'v': SQL_VALUES[kind][-2:]}
        nb = 4 if thorough else 3
        for (dA, kA) in decls:
            A = fixed(dA, kA)
            for (dB, kB) in decls:
                for B in sql_columns(dB, kB, 3 if thorough else 2, 'c',
                                     SQL_VALUES[kB][:nb]):
                    if dA == dB and B['v'] == A['v']:
                        continue
                    for mode in modes:
                        yield {'src': 'sqlite', 'mode': mode, 'hist': [[A]],
                               'cols': [B]}
        # layout changes: declared types swapped between two columns; a
        # column inserted in front of an unchanged one
        for (dA, kA) in decls:
            for (dB, kB) in decls:
                if dA == dB:
                    continue
                for mode in modes:
                    yield {'src': 'sqlite', 'mode': mode,
                           'hist': [[fixed(dA, kA, 'c'), fixed(dB, kB, 'd')]],
                           'cols': [fixed(dB, kB, 'c'), fixed(dA, kA, 'd')]}
                    yield {'src': 'sqlite', 'mode': mode,
                           'hist': [[fixed(dA, kA, 'c')]],
                           'cols': [fixed(dB, kB, 'b'), fixed(dA, kA, 'c')]}
        if thorough:
            # two earlier tables; the other declared type names
            for (dA, kA) in decls:
                for (dC, kC) in decls:
                    for (dB, kB) in decls:
                        for B in sql_columns(dB, kB, 2, 'c',
                                             SQL_VALUES[kB][1:3]):
                            for mode in modes:
                                yield {'src': 'sqlite', 'mode': mode,
                                       'hist': [[fixed(dA, kA)],
                                                [fixed(dC, kC)]],
                                       'cols': [B]}
            for (dM, kM) in SQL_DECL_MORE.items():
                for (dB, kB) in decls:
                    for mode in modes:
                        yield {'src': 'sqlite', 'mode': mode,
                               'hist': [[fixed(dM, kM)]],
                               'cols': [fixed(dB, kB)]}
                        yield {'src': 'sqlite', 'mode': mode,
                               'hist': [[fixed(dB, kB)]],
                               'cols': [fixed(dM, kM)]}

    @staticmethod
    def pd_histories(thorough):
        for h in FA.frame_histories(thorough):
            yield dict(h, src='pd')

    # ---------------------------------------------------------------- worker
    def setup_worker(self, tier):
        # import only: tdda code is executed in children forked from this
        # pristine image (mc.fresh_fork), one child per case / per history
        FF.single_threaded_env()
        import sqlite3                      # noqa: F401
        import numpy                        # noqa: F401
        import pandas                       # noqa: F401
        from tdda.constraints import discover_df, discover_db_table
        from tdda.constraints.db.drivers import database_connection
        self.discover_df = discover_df
        self.discover_db_table = discover_db_table
        self.connect = database_connection
        from tdda.constraints.db.drivers import DBConnector
        self.DBConnector = DBConnector
        self.sandbox = tempfile.mkdtemp(prefix='tdda_mc_c07_', dir='/var/tmp')
        FA.build_frame({'cols': [{'name': 'a', 'fam': 'i64', 'v': [1]}]})
        FF.freeze()

    def teardown_worker(self):
        sb = getattr(self, 'sandbox', None)
        if sb and os.path.isdir(sb):
            shutil.rmtree(sb, ignore_errors=True)

    # ------------------------------------------- real calls (in the child)
    def open_db(self):
        return self.connect(dbtype='sqlite', db=':memory:')

    def make_table(self, db, cols):
        cur = db.connection.cursor()
        cur.execute('DROP TABLE IF EXISTS t')
        cur.execute('CREATE TABLE t (%s)' % ', '.join(
            '"%s" %s' % (c['name'], c['decl']) for c in cols))
        nrows = len(cols[0]['v'])
        for i in range(nrows):
            cur.execute('INSERT INTO t VALUES (%s)'
                        % ', '.join('?' for c in cols),
                        [c['v'][i] for c in cols])
        db.connection.commit()

    def observe(self, fn, *a):
        """-> ('ok', fields as plain JSON-able dict or None) |
              ('raise', exception type name, repr)"""
        out = io.StringIO()
        try:
            with contextlib.redirect_stdout(out), \
                    contextlib.redirect_stderr(out):
                c = fn(*a)
                d = c.to_dict() if c is not None else None
        except Exception as e:
            return ('raise', type(e).__name__, repr(e)[:300])
        fields = (d or {}).get('fields') or {}
        return ('ok', [[str(k), _jd(v)] for k, v in fields.items()])

    def child_single(self, case):
        if case['src'] == 'pd':
            return self.observe(self.discover_df,
                                FA.build_frame(case['frame']))
        db = self.open_db()
        self.make_table(db, case['cols'])
        return self.observe(self.discover_db_table, 'sqlite', db, 't')

    def child_history(self, case):
        """Earlier steps, then the last one, in ONE process.  Returns the
        observation of the last discovery and the number of discoveries."""
        n = 0
        if case['src'] == 'sqlite':
            db = self.open_db()
            keep = [db]
            for cols in case['hist']:
                self.make_table(db, cols)
                self.observe(self.discover_db_table, 'sqlite', db, 't')
                n += 1
                if case['mode'] == 'new-db':
                    db = self.open_db()     # earlier connections stay open
                    keep.append(db)
            self.make_table(db, case['cols'])   # DROP + CREATE when same db
            return self.observe(self.discover_db_table, 'sqlite', db,
                                't'), n + 1
        keep = []
        df = None
        for fr in case['hist']:
            if df is None or case['mode'] == 'new-frame':
                df = FA.build_frame(fr)
                keep.append(df)
            else:
                self.mutate(df, fr)
            self.observe(self.discover_df, df)
            n += 1
        if case['mode'] == 'new-frame':
            df = FA.build_frame(case['frame'])
        else:
            self.mutate(df, case['frame'])
        return self.observe(self.discover_df, df), n + 1

    mutate = staticmethod(FA.mutate_into)

    def open_txn_db(self, conn, tag):
        """-> (connector for tdda, DB-API connection of the caller, file)"""
        import sqlite3
        if conn == 'tdda-mem':
            db = self.open_db()
            return db, db.connection, None
        if conn == 'tdda-file':
            path = os.path.join(self.sandbox, 'db_%s.sqlite3' % tag)
            if os.path.exists(path):
                os.remove(path)
            db = self.connect(dbtype='sqlite', db=path)
            return db, db.connection, path
        if conn == 'own-autocommit-off':
            c = sqlite3.connect(':memory:', autocommit=False)
        else:
            c = sqlite3.connect(':memory:', isolation_level=None)
        return self.DBConnector(c, None, database=':memory:'), c, None

    def child_txn(self, case):
        """Every sequence of `depth` operations out of TXN_OPS, each on a
        new connection whose table t holds `committed` committed rows and the
        remaining rows written through the same connection but not
        committed.  -> [(sequence so far, observation)] for every discovery."""
        cols, txn = case['cols'], case['txn']
        n = len(cols[0]['v'])
        out = []
        for si, seq in enumerate(itertools.product(TXN_OPS,
                                                   repeat=txn['depth'])):
            db, conn, path = self.open_txn_db(txn['conn'], si)
            cur = conn.cursor()
            cur.execute('CREATE TABLE t (%s)' % ', '.join(
                '"%s" %s' % (c['name'], c['decl']) for c in cols))
            conn.commit()
            for i in range(n):
                if i == txn['committed']:
                    conn.commit()
                    if txn['conn'] == 'own-explicit-begin':
                        cur.execute('BEGIN')
                cur.execute('INSERT INTO t VALUES (%s)'
                            % ', '.join('?' for c in cols),
                            [c['v'][i] for c in cols])
            if txn['committed'] >= n:
                conn.commit()
            done = ''
            for op in seq:
                if op == 'C':
                    conn.commit()
                else:
                    out.append((done, self.observe(self.discover_db_table,
                                                   'sqlite', db, 't')))
                done += op
            conn.close()
            if path and os.path.exists(path):
                os.remove(path)
        return out

    # ------------------------------------------------------------------ run
    def fresh(self, fn, case):
        try:
            return FF.run_fresh(fn, case)
        except FF.TddaEscaped as e:
            return ('escaped', e.tname, e.rep, e.tb)

    def run_case(self, case):
        R = Res()
        if 'hists' in case:
            return self.run_histories(R, case)
        if 'txn' in case:
            return self.run_txn(R, case)
        obs = self.fresh(self.child_single, case)
        R.ev()
        self.judge(R, case, obs)
        if R.violations and case['src'] == 'pd':
            self.blame_null_flavours(R, case)
        return R

    def blame_null_flavours(self, R, case):
        """Root-cause attribution by reduction: a violation on a column that
        holds explicit null objects (pd.NA, NaT, nan ...) which disappears
        when every null is the plain None is caused by the KIND of null and
        gets ':null=<kind>' / ':mixed-nulls' appended to its signature."""
        cols = case['frame']['cols']
        fl = sorted(set(f for c in cols for f in FA.null_flavours_of(c)))
        if not fl:
            return
        plain = {'src': 'pd', 'frame': {'cols': [
            dict(c, v=[None if isinstance(x, dict) else x for x in c['v']])
            for c in cols]}}
        R2 = Res()
        self.judge(R2, plain, self.fresh(self.child_single, plain))
        R.ev()
        base = set(v['sig'] for v in R2.violations)
        tag = ':mixed-nulls' if len(fl) > 1 else ':null=%s' % fl[0]
        for v in R.violations:
            if v['sig'] not in base:
                v['sig'] += tag

    def run_histories(self, R, case):
        """E3: same-named table / column discovered again after something
        else.  Differential oracle: the last discovery must report what it
        reports from a fresh state; then the exact-statistics model."""
        last = dict((k, case[k]) for k in ('src', 'cols', 'frame')
                    if k in case)
        f = self.fresh(self.child_single, last)
        R.ev()
        R.nontrivial = True
        nstates = 1
        for i, hist in enumerate(case['hists']):
            h = self.fresh(self.child_history, dict(last, mode=case['mode'],
                                                    hist=hist))
            if h[0] == 'escaped':
                obs_h, n = h, len(hist) + 1
            else:
                obs_h, n = h
            R.ev(n, checked=1)
            nstates += n
            if obs_h == f:
                R.out('hist:%s:%s:same-as-fresh' % (case['src'],
                                                    case['mode']))
                continue
            aspect = self.first_difference(obs_h, f)
            R.out('hist:%s:%s:differs:%s' % (case['src'], case['mode'],
                                             aspect))
            R.viol('history-dependent:%s:%s:%s' % (case['src'], case['mode'],
                                                   aspect),
                   'same-result-as-from-fresh-state',
                   {'source': case['src'], 'mode': case['mode'],
                    'history': [self.what({'src': case['src'], 'cols': st,
                                           'frame': st}) for st in hist],
                    'last': self.what(case), 'after_history': obs_h,
                    'from_fresh_state': f,
                    'expected': 'what discovery reports for a table / frame '
                                'does not depend on what the process '
                                'discovered before'}, {'history': i})
        R.states = nstates
        self.judge(R, last, f)
        return R

    def run_txn(self, R, case):
        """E3 on one connection.  The caller wrote every row and removed
        none, so every discovery must report the statistics of all the rows
        (model), which is what a fresh process reports for the same table
        with everything committed (differential, in front of the model)."""
        last = {'src': 'sqlite', 'cols': case['cols']}
        txn = case['txn']
        f = self.fresh(self.child_single, last)
        R.ev()
        R.nontrivial = True
        n = len(case['cols'][0]['v'])
        pending = txn['committed'] < n
        h = self.fresh(self.child_txn, case)
        if h and h[0] == 'escaped':
            self.judge(R, last, h)
            return R
        seen = set()
        for (done, obs) in h:
            R.ev(1, checked=1)
            nd = done.count('D')
            seen.add((done.count('C') > 0, nd))
            where = 'first-discovery' if nd == 0 else 'after-a-discovery'
            if obs == f:
                R.out('txn:%s:%s:%s:same-as-fresh' % (
                    txn['conn'].split('-')[0],
                    'uncommitted-rows' if pending else 'all-committed',
                    where))
                continue
            aspect = self.first_difference(obs, f)
            R.out('txn:%s:differs:%s' % (txn['conn'], aspect))
            R.viol('history-dependent:sqlite:%s:%s' % (
                'uncommitted-rows' if pending else 'all-committed', where),
                'same-result-as-from-fresh-state',
                {'source': 'sqlite', 'connection': txn['conn'],
                 'table': self.what(last),
                 'rows_committed_before_discovery': txn['committed'],
                 'rows_written_not_committed': n - txn['committed'],
                 'operations_before_this_discovery':
                     [{'D': 'discover_db_table', 'C': 'connection.commit()'}[o]
                      for o in done],
                 'first_difference': aspect, 'observed': obs,
                 'from_fresh_state_all_committed': f,
                 'expected': 'the caller wrote these rows through the '
                             'connection and removed none: every discovery '
                             'reports the statistics of all of them'},
                {'after': done})
        R.states = len(seen) + 1
        self.judge(R, last, f)
        return R

    @staticmethod
    def first_difference(a, b):
        if a[0] != b[0] or a[0] != 'ok':
            return 'raises' if 'raise' in (a[0], b[0]) or \
                'escaped' in (a[0], b[0]) else 'result'
        fa, fb = a[1] or [], b[1] or []
        if [k for k, _ in fa] != [k for k, _ in fb]:
            return 'fields'
        for (k, da), (_, db) in zip(fa, fb):
            for key in DS.KINDS:
                if da.get(key, '<absent>') != db.get(key, '<absent>'):
                    return key
        return 'other'

    @staticmethod
    def what(case):
        if case['src'] == 'pd':
            return FA.describe(case['frame'])
        return '; '.join('%s %s=%r' % (c['name'], c['decl'], c['v'])
                         for c in case['cols'])

    def judge(self, R, case, obs):
        """Exact-statistics model against one observation."""
        src = case['src']
        if src == 'pd':
            cols = case['frame']['cols']
            plains = [FA.plain_column(c) for c in cols]
        else:
            cols = case['cols']
            plains = [sql_plain(c) for c in cols]
        what = self.what(case)
        names = [c['name'] for c in cols]
        expects = [DS.discover(k, v, info) for (k, v, info) in plains]
        R.nontrivial = R.nontrivial or any(DS.nontrivial(e) for e in expects)
        kinds = [p[0] for p in plains]
        if obs[0] == 'escaped':
            R.out('uncaught:%s' % obs[1])
            R.viol('uncaught:%s' % obs[1], 'no-internal-error',
                   {'source': src, 'input': what, 'exception': obs[2],
                    'traceback': obs[3]})
            return
        if obs[0] == 'raise':
            R.out('raise:%s' % obs[1])
            R.viol('discover-raises:%s:type=%s:rows=%s'
                   % (obs[1], '+'.join(str(k) for k in kinds),
                      '0' if not cols[0]['v'] else '>0'),
                   'statistics-reported',
                   {'source': src, 'input': what, 'exception': obs[2]})
            return
        fields = collections.OrderedDict(
            (k, _jl(v)) for k, v in (obs[1] or []))
        # every column here has a recognised type: each must be reported,
        # in column order, and nothing else
        if list(fields.keys()) != names:
            R.viol('fields:%s' % src, 'one-entry-per-recognised-column',
                   {'source': src, 'input': what,
                    'observed_fields': list(fields.keys()),
                    'expected_fields': names})
        tags = []
        for name, exp, (kind, vals, info), col in zip(names, expects, plains,
                                                      cols):
            obs1 = fields.get(name)
            if obs1 is None:
                continue
            problems, gray = DS.compare(exp, dict(obs1),
                                        bool_as_int_ok=(src == 'sqlite'))
            R.unspec += gray
            tags.append('%s{%s}' % (obs1.get('type'), ','.join(
                k[:4] + ('=' + str(obs1[k]) if k in ('sign', 'max_nulls',
                                                     'no_duplicates') else '')
                for k in obs1 if k != 'type')))
            for (clause, key, e, o) in problems:
                R.viol(self.sig(clause, key, kind, vals, info),
                       '%s-%s' % (key, clause),
                       {'source': src, 'input': what, 'field': name,
                        'key': key, 'expected': _j(e), 'observed': _j(o),
                        'discovered': _j(dict(obs1))}, {'field': name})
        R.out('%s:%s' % (src, '|'.join(tags)))

    @staticmethod
    def sig(clause, key, kind, vals, info):
        """key:clause:type=<kind>[:discriminator] - the discriminator names
        the sub-rule of the statement that is involved."""
        nonnull = [v for v in vals if v is not None]
        nnull = len(vals) - len(nonnull)
        extra = ''
        if key == 'max_nulls':
            extra = ':rows=0' if not vals else \
                ':nulls=%s' % (nnull if nnull < 2 else '2+')
        elif key == 'allowed_values':
            n = len(set(nonnull))
            extra = ':distinct=%s' % ('0' if n == 0 else '1-19' if n < 20
                                      else '20' if n == 20 else '21+')
        elif key == 'sign':
            if not nonnull:
                extra = ':allnull'
            elif kind in ('int', 'real', 'bool'):
                extra = ':%s' % (DS.sign_class([
                    int(v) if isinstance(v, bool) else v
                    for v in nonnull]) or 'mixed')
        elif key in ('min', 'max') and kind == 'date':
            extra = ':%s' % ('dateonly' if info.get('dateonly') else
                             'tz' if info.get('tzmin') is not None
                             else 'naive')
        elif key in ('min', 'max') and kind == 'real':
            if any(v in (float('inf'), float('-inf')) for v in nonnull):
                extra = ':inf'
        return '%s:%s:type=%s%s' % (key, clause, kind or 'allnull-object',
                                    extra)


def _jd(x):
    """Discovered values as picklable plain Python, types preserved:
    numpy scalars -> python scalars, anything exotic -> ('repr', text)."""
    if isinstance(x, dict):
        return dict((str(k), _jd(v)) for k, v in x.items())
    if isinstance(x, (list, tuple)):
        return [_jd(y) for y in x]
    if x is None or type(x) in (bool, int, float, str):
        return x
    if isinstance(x, (datetime.datetime, datetime.date)) \
            and type(x).__module__ == 'datetime':
        return x
    item = getattr(x, 'item', None)
    if callable(item):
        try:
            y = item()
            if type(y) in (bool, int, float, str):
                return y
        except Exception:
            pass
    return ('repr', repr(x))


def _jl(x):
    return x


def _j(x):
    """JSON-able rendering of expectations / observations."""
    if isinstance(x, (list, tuple)):
        return [_j(y) for y in x]
    if isinstance(x, dict):
        return dict((str(k), _j(v)) for k, v in x.items())
    if isinstance(x, float) and (x != x or x in (float('inf'),
                                                 float('-inf'))):
        return repr(x)
    if isinstance(x, (str, int, float, bool)) or x is None:
        return x
    return repr(x)


CHECK = C07()
