"""
C07 - discovery reports exact statistics of the data (constraints are tight).

E1 over every small single-column DataFrame of DESIGN 3.1 (all column
families, 0..R rows, the 19/20/21/25 category boundary) through the REAL
discover_df(...).to_dict(), and over SQLite tables (INTEGER / REAL / TEXT /
BOOLEAN / DATETIME and the other spellings of tdda's type map, 0..R rows,
same value alphabets) through the REAL discover_db_table on a connection made
by tdda's own database_connection(dbtype='sqlite', db=':memory:').

Oracle: mc.models.discover_spec (independent exact-statistics model, three
valued).  Every key of every discovered field is compared; fields, their
order and the absence of other fields are compared too.
"""
import contextlib
import io
import itertools

from mc.engine import Check, Res
from mc import frames_alphabet as FA
from mc.models import discover_spec as DS

# ---------------------------------------------------------------- SQLite side

SQL_VALUES = {
    'int': [None, -2, 0, 1, 3],
    'real': [None, -1.5, 0.0, 2.0, 2.5],
    'string': [None, '', 'a', 'B1', 'é²', "o'q\\", 'x y'],
    'bool': [None, 0, 1],
    'date': [None, '1999-12-31 23:59:59', '2000-01-01 00:00:00',
             '2000-02-29 12:00:00'],
}
SQL_EXTREME = {'int': [-(2 ** 63) + 1, -1, 2 ** 62]}
SQL_DECL = {          # declared type -> tdda kind (documented type map)
    'INTEGER': 'int', 'REAL': 'real', 'TEXT': 'string', 'BOOLEAN': 'bool',
    'DATETIME': 'date',
}
SQL_DECL_MORE = {
    'INT': 'int', 'BIGINT': 'int', 'SMALLINT': 'int', 'TINYINT': 'int',
    'FLOAT': 'real', 'DOUBLE': 'real', 'DOUBLE PRECISION': 'real',
    'NUMERIC': 'real', 'VARCHAR': 'string', 'CHAR': 'string',
    'NVARCHAR': 'string', 'BOOL': 'bool', 'DATE': 'date',
    'TIMESTAMP': 'date',
}
SQL_NAMES = ['c', 'my col', 'é']


def sql_columns(decl, kind, maxrows, name, values=None):
    vals = values if values is not None else SQL_VALUES[kind]
    for n in range(maxrows + 1):
        for tup in itertools.product(vals, repeat=n):
            yield {'name': name, 'decl': decl, 'kind': kind, 'v': list(tup)}


def sql_plain(col):
    """(kind, values, info) for the model from a SQL column description."""
    kind = col['kind']
    vals = []
    for v in col['v']:
        if v is None:
            vals.append(None)
        elif kind == 'bool':
            vals.append(bool(v))
        elif kind == 'date':
            vals.append(FA.parse_instant(v.replace(' ', 'T')))
        elif kind == 'real':
            vals.append(float(v))
        else:
            vals.append(v)
    return kind, vals, {'dateonly': False, 'tzmin': None}


# --------------------------------------------------------------------- check

class C07(Check):
    pid = 'C07'
    title = 'discovery reports exact statistics of the data'
    technique = ('bounded exhaustive enumeration of small columns (pandas '
                 'frames and SQLite tables) through the real discover_df / '
                 'discover_db_table, compared key by key with an independent '
                 'exact-statistics model')
    rule = ('cases = every one-column DataFrame with 0..R cells (R=3 quick, '
            '4 thorough) over each of 22 column families '
            '(signed/unsigned/extreme/nullable ints, floats with NaN and '
            '+-inf, float32, bool / object-bool / nullable boolean, object '
            'strings incl. unicode, quotes, ^ and -, categoricals with and '
            'without unused categories, naive datetimes at s/ms/us/ns, two '
            'tz-aware families, date objects) plus 28 many-category columns '
            '(0,1,2,19,20,21,25 distinct x repeat x null) x field names; and '
            'every one-column SQLite table with 0..R rows over INTEGER / REAL '
            '/ TEXT / BOOLEAN / DATETIME x 3 column names, 14 more declared '
            'type names (0..2 rows), many-category TEXT columns; every '
            'two-column frame / table over ordered pairs of families / types '
            'with 2 rows; non-trivial = the model requires at least one '
            'statistic beyond the type')
    assumptions = [
        'pandas 3.0.6 / numpy 2.5 / sqlite3 of python 3.12; values outside '
        'the alphabets, > 4 rows (except many-category columns) and > 2 '
        'columns are not explored',
        'text columns are object dtype or Categorical (pandas `str` dtype is '
        'outside the property\'s type list)',
        'gray zones (never alarmed on): type of an object column without any '
        'non-null cell; max_nulls 0 or allowed_values [] for absent data; '
        'sign "null" on an all-null numeric column; presence of sign on bool '
        'fields (its value is still checked); a nanosecond bound truncated to '
        'microseconds; a tz-aware bound written without offset; order of '
        'allowed_values (the file-format document says it is not '
        'significant)',
        'SQLite booleans are the integers 0/1, so 0/1 are accepted as bool '
        'min/max there; SQLite DATETIME values are canonical '
        '"YYYY-MM-DD HH:MM:SS" text',
        'float bounds are compared with == on exactly representable values',
    ]

    # ----------------------------------------------------------- enumeration
    def hashseeds(self, tier, verif_seed):
        return [verif_seed % 3]

    def layers(self, tier):
        R = 4 if tier == 'thorough' else 3
        return [('pd-single', 'one-column DataFrames, all families, 0..%d '
                              'rows, many-category columns' % R),
                ('sqlite-single', 'one-column SQLite tables, 0..%d rows' % R),
                ('sqlite-decl', 'the 14 other declared type names of the '
                                'type map, 0..2 rows'),
                ('pd-two', 'two-column DataFrames (ordered family pairs, '
                           '2 rows, %d-value sub-alphabets)' % (R,)),
                ('sqlite-two', 'two-column SQLite tables, 2 rows')]

    def cases(self, tier, layer):
        thorough = tier == 'thorough'
        R = 4 if thorough else 3
        if layer == 'pd-single':
            names = FA.NAMES if thorough else ['a', 'b c', 'é']
            fams = FA.BASE_FAMILIES + FA.EXTRA_FAMILIES
            for fr in FA.single_column_frames(fams, R, names, manycat=True):
                yield {'src': 'pd', 'frame': fr}
        elif layer == 'sqlite-single':
            for name in SQL_NAMES:
                for decl, kind in SQL_DECL.items():
                    for col in sql_columns(decl, kind, R, name):
                        yield {'src': 'sqlite', 'cols': [col]}
                for col in sql_columns('INTEGER', 'int', 3, name,
                                       SQL_EXTREME['int']):
                    yield {'src': 'sqlite', 'cols': [col]}
                for mc in FA.manycat_columns(name):
                    yield {'src': 'sqlite', 'cols': [
                        {'name': name, 'decl': 'TEXT', 'kind': 'string',
                         'v': mc['v']}]}
        elif layer == 'pd-two':
            fams = FA.BASE_FAMILIES + (FA.EXTRA_FAMILIES if thorough else [])
            pairs = [('a', 'b c'), ('min', 'a')] if thorough \
                else [('a', 'b c')]
            for fr in FA.two_column_frames(fams, 2, pairs,
                                           4 if thorough else 3):
                yield {'src': 'pd', 'frame': fr}
        elif layer == 'sqlite-two':
            decls = list(SQL_DECL.items())
            nv = 5 if thorough else 3
            for (d1, k1) in decls:
                for (d2, k2) in decls:
                    for t1 in itertools.product(SQL_VALUES[k1][:nv],
                                                repeat=2):
                        for t2 in itertools.product(SQL_VALUES[k2][:nv],
                                                    repeat=2):
                            yield {'src': 'sqlite', 'cols': [
                                {'name': 'c', 'decl': d1, 'kind': k1,
                                 'v': list(t1)},
                                {'name': 'my col', 'decl': d2, 'kind': k2,
                                 'v': list(t2)}]}
        elif layer == 'sqlite-decl':
            for decl, kind in SQL_DECL_MORE.items():
                for col in sql_columns(decl, kind, 2, 'c'):
                    yield {'src': 'sqlite', 'cols': [col]}

    # ---------------------------------------------------------------- worker
    def setup_worker(self, tier):
        from tdda.constraints import discover_df, discover_db_table
        from tdda.constraints.db.drivers import database_connection
        self.discover_df = discover_df
        self.discover_db_table = discover_db_table
        self.db = database_connection(dbtype='sqlite', db=':memory:')
        self.conn = self.db.connection

    def teardown_worker(self):
        try:
            self.conn.close()
        except Exception:
            pass

    # ------------------------------------------------------------------ run
    def real_pd(self, frame):
        df = FA.build_frame(frame)
        out = io.StringIO()
        with contextlib.redirect_stdout(out), contextlib.redirect_stderr(out):
            c = self.discover_df(df)
            d = c.to_dict() if c is not None else None
        return d

    def real_sqlite(self, cols):
        cur = self.conn.cursor()
        cur.execute('DROP TABLE IF EXISTS t')
        cur.execute('CREATE TABLE t (%s)' % ', '.join(
            '"%s" %s' % (c['name'], c['decl']) for c in cols))
        nrows = len(cols[0]['v'])
        for i in range(nrows):
            cur.execute('INSERT INTO t VALUES (%s)'
                        % ', '.join('?' for c in cols),
                        [c['v'][i] for c in cols])
        self.conn.commit()
        out = io.StringIO()
        with contextlib.redirect_stdout(out), contextlib.redirect_stderr(out):
            c = self.discover_db_table('sqlite', self.db, 't')
            d = c.to_dict() if c is not None else None
        return d

    def run_case(self, case):
        R = Res()
        src = case['src']
        if src == 'pd':
            cols = case['frame']['cols']
            plains = [FA.plain_column(c) for c in cols]
            what = FA.describe(case['frame'])
        else:
            cols = case['cols']
            plains = [sql_plain(c) for c in cols]
            what = '; '.join('%s %s=%r' % (c['name'], c['decl'], c['v'])
                             for c in cols)
        names = [c['name'] for c in cols]
        expects = [DS.discover(k, v, info) for (k, v, info) in plains]
        R.nontrivial = any(DS.nontrivial(e) for e in expects)
        kinds = [p[0] for p in plains]
        try:
            d = self.real_pd(case['frame']) if src == 'pd' \
                else self.real_sqlite(cols)
        except Exception as e:
            R.ev()
            R.out('raise:%s' % type(e).__name__)
            R.viol('discover-raises:%s:type=%s:rows=%s'
                   % (type(e).__name__, '+'.join(str(k) for k in kinds),
                      '0' if not cols[0]['v'] else '>0'),
                   'statistics-reported',
                   {'source': src, 'input': what, 'exception': repr(e)[:300]})
            return R
        R.ev()
        fields = (d or {}).get('fields') or {}
        # every column here has a recognised type: each must be reported,
        # in column order, and nothing else
        if list(fields.keys()) != names:
            R.viol('fields:%s' % src, 'one-entry-per-recognised-column',
                   {'source': src, 'input': what,
                    'observed_fields': list(fields.keys()),
                    'expected_fields': names})
        tags = []
        for name, exp, (kind, vals, info), col in zip(names, expects, plains,
                                                      cols):
            obs = fields.get(name)
            if obs is None:
                continue
            problems, gray = DS.compare(exp, dict(obs),
                                        bool_as_int_ok=(src == 'sqlite'))
            R.unspec += gray
            tags.append('%s{%s}' % (obs.get('type'), ','.join(
                k[:4] + ('=' + str(obs[k]) if k in ('sign', 'max_nulls',
                                                    'no_duplicates') else '')
                for k in obs if k != 'type')))
            for (clause, key, e, o) in problems:
                R.viol(self.sig(clause, key, kind, vals, info), '%s-%s'
                       % (key, clause),
                       {'source': src, 'input': what, 'field': name,
                        'key': key, 'expected': _j(e), 'observed': _j(o),
                        'discovered': _j(dict(obs))}, {'field': name})
        R.out('%s:%s' % (src, '|'.join(tags)))
        return R

    @staticmethod
    def sig(clause, key, kind, vals, info):
        """key:clause:type=<kind>[:discriminator] - the discriminator names
        the sub-rule of the statement that is involved."""
        nonnull = [v for v in vals if v is not None]
        nnull = len(vals) - len(nonnull)
        extra = ''
        if key == 'max_nulls':
            extra = ':rows=0' if not vals else \
                ':nulls=%s' % (nnull if nnull < 2 else '2+')
        elif key == 'allowed_values':
            n = len(set(nonnull))
            extra = ':distinct=%s' % ('0' if n == 0 else '1-19' if n < 20
                                      else '20' if n == 20 else '21+')
        elif key == 'sign':
            if not nonnull:
                extra = ':allnull'
            elif kind in ('int', 'real', 'bool'):
                extra = ':%s' % (DS.sign_class([
                    int(v) if isinstance(v, bool) else v
                    for v in nonnull]) or 'mixed')
        elif key in ('min', 'max') and kind == 'date':
            extra = ':%s' % ('dateonly' if info.get('dateonly') else
                             'tz' if info.get('tzmin') is not None
                             else 'naive')
        elif key in ('min', 'max') and kind == 'real':
            if any(v in (float('inf'), float('-inf')) for v in nonnull):
                extra = ':inf'
        return '%s:%s:type=%s%s' % (key, clause, kind or 'allnull-object',
                                    extra)


def _j(x):
    """JSON-able rendering of expectations / observations."""
    if isinstance(x, (list, tuple)):
        return [_j(y) for y in x]
    if isinstance(x, dict):
        return dict((str(k), _j(v)) for k, v in x.items())
    if isinstance(x, float) and (x != x or x in (float('inf'),
                                                 float('-inf'))):
        return repr(x)
    if isinstance(x, (str, int, float, bool)) or x is None:
        return x
    return repr(x)


CHECK = C07()
