"""
C12 - gentest: the generated test fails when the command later behaves
differently (each change reported by the test for that stream / file /
status) and keeps passing when nothing changed.

E3 histories on the real code, rebuilt per case in a sandbox:

    generate -> run (all pass) -> for EVERY single mutation of what the
    command emits:  apply -> run (the test guarding the mutated output
    fails, every other test passes) -> revert -> run (all pass)

The command is `sh ./emit.sh` copying data files (mc/gentest_harness.py); a
mutation edits one data file (never the generated script): one character of
one line altered, a line added at any gap, a line removed, an output file no
longer produced, one byte of a binary file flipped / appended / dropped, the
exit status changed, a byte-order mark put in front of a text / taken away.  thorough adds every character position, a second
replacement style and pairs of simultaneous mutations of two different
outputs.
"""
import os

from mc.engine import Check, Res
from mc import gentest_harness as gh
from mc.models import gentest_spec as spec
from mc.checks.c11 import (mk, tokens, kinds, placements, tf, specs_for,
                           two_file_sets, CWD, SUB, TMP, ALT, SIB, ELSE)

TEXT_KINDS = ('text', 'csv', 'noext', 'json', 'utf8txt', 'bomtxt', 'bomascii')
MARK = gh.TMP_MARK.encode()


def _positions(n, every):
    if every or n <= 3:
        return list(range(n))
    return sorted(set([0, n // 2, n - 1]))


def _split(data):
    """lines without terminators + whether the text ends with a newline"""
    if data == b'':
        return [], True
    parts = data.split(b'\n')
    if parts[-1] == b'':
        return parts[:-1], True
    return parts, False


def _join(lines, final):
    if not lines:
        return b''
    return b'\n'.join(lines) + (b'\n' if final else b'')


def _alter(ch, style):
    if style == 1:
        if ch.isdigit():
            return str((int(ch) + 1) % 10) if ch in '0123456789' else 'X'
        if ch.lower() != ch.upper():
            return ch.lower() if ch.isupper() else ch.upper()
    return 'Y' if ch == 'X' else 'X'


def text_mutations(data, every, styles, raw_bytes=False):
    """yield (kind, line index or None, new data)."""
    lines, final = _split(data)
    # a byte-order mark (the character U+FEFF) put in front of the text, or
    # taken away when the text begins with one
    if data.startswith(gh.BOM):
        yield ('bom-remove@0', 0, data[len(gh.BOM):])
    elif data:
        yield ('bom-insert@0', 0, gh.BOM + data)
    # a non-ASCII character, a NUL, (files) a Latin-1 byte, a CR before the
    # line terminator
    for i, raw in enumerate(lines):
        if gh.TMP_MARK.encode() in raw:
            continue
        mid = len(raw) // 2
        while mid < len(raw) and (raw[mid] & 0xC0) == 0x80:
            mid += 1                    # not inside a UTF-8 sequence
        extra = [('nonascii-insert', '\u00e9'.encode('utf-8')),
                 ('nul-insert', b'\x00')]
        if raw_bytes:
            extra.append(('latin1-insert', b'\xe9'))
        for kind, ins in extra:
            yield ('%s@%d' % (kind, i), i,
                   _join(lines[:i] + [raw[:mid] + ins + raw[mid:]]
                         + lines[i + 1:], final))
        if i == 0 or every:
            if raw and raw[0] < 0x80:
                yield ('nonascii-replace@%d' % i, i,
                       _join(lines[:i] + ['\u00e9'.encode('utf-8') + raw[1:]]
                             + lines[i + 1:], final))
            if final or i < len(lines) - 1:
                yield ('crlf@%d' % i, i,
                       _join(lines[:i] + [raw + b'\r'] + lines[i + 1:],
                             final))
    if lines:
        yield ('final-newline', None, _join(lines, not final))
    for i, raw in enumerate(lines):
        try:
            s = raw.decode('utf-8')
            enc = 'utf-8'
        except UnicodeDecodeError:
            s = raw.decode('latin-1')
            enc = 'latin-1'
        m0 = s.find(gh.TMP_MARK)
        for p in _positions(len(s), every):
            if m0 >= 0 and m0 <= p < m0 + len(gh.TMP_MARK):
                continue
            for style in styles:
                c = _alter(s[p], style)
                if c == s[p] or (style == 1 and c in 'XY'):
                    continue
                t = s[:p] + c + s[p + 1:]
                try:
                    new = t.encode(enc)
                except UnicodeEncodeError:
                    continue
                yield ('alter@%d/%d%s' % (p, len(s), 'c' if style else ''), i,
                       _join(lines[:i] + [new] + lines[i + 1:], final))
    for i in range(len(lines) + 1):
        yield ('add@%d' % i, None,
               _join(lines[:i] + [b'added'] + lines[i:], final))
    for i in range(len(lines)):
        yield ('remove@%d' % i, i, _join(lines[:i] + lines[i + 1:], final))


def binary_mutations(data):
    for p in range(len(data)):
        yield ('flip@%d' % p, None,
               data[:p] + bytes([data[p] ^ 1]) + data[p + 1:])
    yield ('append', None, data + b'\x00')
    if data:
        yield ('truncate', None, data[:-1])


class _Abort(Exception):
    pass


class C12(Check):
    pid = 'C12'
    title = ('gentest: the generated test fails when the command behaves '
             'differently')
    technique = ('explicit-state exploration of histories generate -> run -> '
                 'mutate -> run -> revert -> run on the real generated '
                 'scripts, every single mutation of the emitted behaviour '
                 'enumerated')
    rule = ('cases = deterministic commands (stdout token x stderr token; '
            'two-line streams; 1-2 output files of every kind x place x '
            'naming; option product; rarely used gentest() keywords; UTF-8 '
            'files with / without a byte-order mark) that generate '
            'successfully; two generations in one directory under script '
            'names differing only in underscores / case; per case '
            'every single mutation of every emitted output is applied and '
            'reverted.  non-trivial = at least one mutation whose target is '
            'guarded by a test and is not in a gray zone was executed')
    assumptions = [
        'same sandbox, fake clock and command as C11 (mc/gentest_harness.py)',
        'gray zone (unspecified): a mutation on / removal of a line that may '
        'legitimately carry an exclusion - it holds the user name, host '
        'name, working directory, home directory, gentest $TMPDIR or an '
        'address of the host, or it has two consecutive digits and either '
        'something time-like (d:d) or a digit group equal to the (fake) '
        'current year +-1 in 4- or 2-digit form; a change that only makes a '
        'final newline / one trailing empty line come or go',
        'a failing test = unittest failure or error of that test method; '
        '"reported by the test for that stream/file/status" also means the '
        'tests guarding untouched outputs still pass',
        'quick: three character positions per line (first, middle, last) and '
        'the revert run after the first mutation of each kind per output; '
        'thorough: every position, two replacement styles, revert run after '
        'every mutation, pairs of mutations on two different outputs',
    ]

    def hashseeds(self, tier, verif_seed):
        return [verif_seed % 3]

    def layers(self, tier):
        L = [('streams', 'stdout token x stderr token (iterations 2), single '
                         'tokens with 1 and 3 iterations'),
             ('lines2', 'two-line streams: token next to a plain line'),
             ('files1', 'one output file: kind x place x naming x '
                        'iterations; text files over the token alphabet'),
             ('files2', 'two output files'),
             ('options', 'stream / file command x option product'),
             ('prehist', 'pre-history {fresh directory, outputs present '
                         'from a manual run, previous generation in the same '
                         'directory} x one file at every place / two files '
                         'with colliding names x naming; content-changed and '
                         'no-longer-produced applied to each file'),
             ('chars', 'splitlines() boundary classes, NUL, astral next to '
                       'a plain line on stdout / stderr / in a text file'),
             ('runmodes', 'post-mutation run in a fresh process / the SAME '
                          'loaded module and class run again'),
             ('encodings', 'UTF-8 text files recorded with an explicit '
                           'encoding: non-ASCII content without / with a '
                           'byte-order mark, ASCII with one x place x naming '
                           'x iterations; byte-order mark put in front / '
                           'taken away among the mutations'),
             ('scripts2', 'two generations in ONE directory under script '
                          'names that differ only in underscores / case '
                          '(ordered pairs) x second command {same, different '
                          'behaviour}: the first test keeps passing while '
                          'its command is unchanged, reports the change '
                          'otherwise')]
        if tier == 'thorough':
            L.append(('pairs', 'two simultaneous mutations on different '
                               'outputs'))
        return L

    def cases(self, tier, layer):
        T = tokens(tier)
        K = kinds(tier)
        if layer == 'streams':
            opts = [None] + list(T)
            for o in opts:
                for e in opts:
                    yield mk(out=[o] if o else [], err=[e] if e else [],
                             iters=2)
            for out, err in placements(T):
                for it in (1, 3):
                    yield mk(out=out, err=err, iters=it)
        elif layer == 'lines2':
            for t in T:
                for pair in ([t, 'plain'], ['plain', t]):
                    for it in ((1, 2) if tier == 'thorough' else (2,)):
                        yield mk(out=pair, err=[], iters=it)
                        yield mk(out=[], err=pair, iters=it)
        elif layer == 'files1':
            for k in K:
                for sub in (0, 1, 2):
                    for sp in ('none', 'dir', 'explicit', 'glob'):
                        for it in ((1, 2, 3) if tier == 'thorough'
                                   else (1, 2)):
                            yield mk(out=['plain'],
                                     files=[{'kind': k, 'sub': sub}],
                                     spec=sp, iters=it)
            for t in T:
                for pair in ([t], [t, 'plain'], ['plain', t]):
                    yield mk(out=['plain'],
                             files=[{'kind': 'text', 'sub': 0,
                                     'lines': pair}],
                             spec='explicit', iters=2)
        elif layer == 'files2':
            import itertools
            for k1, k2 in itertools.combinations(K, 2):
                for sp in ('dir', 'glob'):
                    for s2 in (0, 1):
                        yield mk(out=['plain'], err=['today'],
                                 files=[{'kind': k1, 'sub': 0},
                                        {'kind': k2, 'sub': s2}],
                                 spec=sp, iters=2)
        elif layer == 'options':
            for it in (1, 2):
                for no_stdout in (0, 1):
                    for no_stderr in (0, 1):
                        for nonzero in (0, 1):
                            for status in (0, 3):
                                if status and not nonzero:
                                    continue
                                for sc in ('rel', 'abs'):
                                    yield mk(out=['plain'], err=['quotes'],
                                             files=[{'kind': 'text',
                                                     'sub': 0}],
                                             spec='explicit', iters=it,
                                             no_stdout=no_stdout,
                                             no_stderr=no_stderr,
                                             nonzero=nonzero, status=status,
                                             script=sc)
            # the rarely used keywords of gentest(), each at one value
            for kw in gh.KW_POINTS:
                for it in (1, 2):
                    for f, sp in (({'kind': 'text', 'sub': 0}, 'explicit'),
                                  ({'kind': 'bin', 'sub': 1}, 'dir')):
                        c = mk(out=['plain'], err=['tmp', 'plain'],
                               files=[f], spec=sp, iters=it, kw=kw)
                        c['menu'] = 'chars'
                        yield c
        elif layer == 'prehist':
            singles = []
            for place in (CWD, SUB, ALT, SIB, TMP, ELSE):
                for n in ('o.txt', 'Report.txt'):
                    singles.append([tf(n, place, ['plain', 'regex'])])
            singles.append([{'kind': 'bin', 'sub': CWD}])
            singles.append([{'kind': 'png', 'sub': SUB}])
            sets = singles + list(two_file_sets(tier))
            for fs in sets:
                places = [f['sub'] for f in fs]
                for hist in ('fresh', 'manual', 'regen'):
                    for sp in specs_for(places, hist != 'fresh'):
                        if sp == 'none' and len(fs) > 1:
                            continue
                        for it in ((1, 2) if (len(fs) == 1
                                              or tier == 'thorough')
                                   else (2,)):
                            c = mk(out=['plain'], err=['quotes'], files=fs,
                                   spec=sp, iters=it,
                                   pre=1 if hist == 'manual' else 0)
                            if hist == 'regen':
                                c['regen'] = 1
                            if tier != 'thorough':
                                c['menu'] = 'short'
                            yield c
        elif layer == 'chars':
            for t in gh.CHAR_TOKENS:
                for it in ((1, 2) if tier == 'thorough' else (2,)):
                    for c in (mk(out=[t, 'plain'], err=['plain'], iters=it),
                              mk(out=['plain'], err=['plain', t], iters=it),
                              mk(out=['plain'], iters=it, spec='explicit',
                                 files=[{'kind': 'text', 'sub': 0,
                                         'lines': [t, 'plain']}])):
                        if tier != 'thorough':
                            c['menu'] = 'chars'
                        yield c
        elif layer == 'runmodes':
            shapes = [
                mk(out=['plain'], err=['quotes']),
                mk(out=['plain', 'today'], err=[], status=3, nonzero=1),
                mk(out=['plain'], files=[{'kind': 'text', 'sub': 0}],
                   spec='explicit'),
                mk(out=['host'], files=[{'kind': 'bin', 'sub': 1}],
                   spec='dir'),
                mk(out=['tmp'], err=['plain'],
                   files=[{'kind': 'text', 'sub': 2}], spec='none'),
                mk(out=['plain'],
                   files=[{'kind': 'text', 'sub': 1, 'name': 'Report.txt',
                           'lines': ['plain']},
                          {'kind': 'text', 'sub': 3, 'name': 'Report.txt',
                           'lines': ['quotes', 'plain']}], spec='dir'),
            ]
            for sh in shapes:
                for it in (1, 2):
                    c = dict(sh, iters=it, mode='same')
                    if tier != 'thorough':
                        c['menu'] = 'chars'
                    yield c
            for sh in (shapes if tier == 'thorough' else shapes[:1] + shapes[2:3]
                       + shapes[4:5]):
                c = dict(sh, mode='fresh', menu='tiny')
                yield c
        elif layer == 'encodings':
            for k in ('utf8txt', 'bomtxt', 'bomascii'):
                for sub in (0, 1):
                    for sp in ('dir', 'explicit'):
                        for it in (1, 2):
                            yield mk(out=['plain'], err=['uni'],
                                     files=[{'kind': k, 'sub': sub}],
                                     spec=sp, iters=it)
        elif layer == 'scripts2':
            names = [(st, 'rel') for st in gh.STEMS]
            pairs = [(a, b) for a in names for b in names if a != b]
            # test<s>.py (no underscore) next to test_<s>.py
            pairs += [(('x', 'nound'), ('x', 'rel')),
                      (('x', 'rel'), ('x', 'nound')),
                      (('x', 'nound'), ('_x', 'rel')),
                      (('__x', 'rel'), ('x', 'nound'))]
            for (s1, f1), (s2, f2) in pairs:
                for second in ('same', 'different'):
                    for files in (0, 1):
                        for it in ((1, 2) if tier == 'thorough' else (2,)):
                            kw = dict(out=['plain'], err=['quotes'], iters=it)
                            if files:
                                kw.update(files=[tf('o.txt', CWD,
                                                    ['plain', 'regex'])],
                                          spec='explicit')
                            c = mk(stem=s1, script=f1, **kw)
                            c['hist2'] = {'stem': s2, 'script': f2,
                                          'second': second}
                            yield c
        elif layer == 'pairs':
            for o in ('plain', 'today', 'regex'):
                for k in ('text', 'bin'):
                    for sp in ('dir', 'explicit'):
                        c = mk(out=[o], err=['uni'],
                               files=[{'kind': k, 'sub': 0}], spec=sp,
                               iters=2)
                        c['pairs'] = 1
                        yield c

    def setup_worker(self, tier):
        self.H = gh.Harness()
        self.H.setup()
        self.tier = tier

    def teardown_worker(self):
        H = getattr(self, 'H', None)
        if H is not None:
            H.teardown()

    # ---------------------------------------------------------- mutations
    def mutations(self, b):
        """[(target, kind, gray, data file, new content, line class)]"""
        H = self.H
        every = self.tier == 'thorough'
        styles = (0, 1) if every else (0,)
        env = {'user': H.user, 'host': H.host, 'cwd': b.cwd, 'home': H.home,
               'tmpdir': b.tmpdir, 'ip': H.ip, 'now': gh.FAKE_NOW[:3]}
        case = b.case
        out = []

        def text_target(target, dname, toks):
            data = b.data[dname]
            lines, _ = _split(data)
            shown = [l.replace(MARK, b.tmpdir.encode()).decode('utf-8',
                                                             'replace')
                     for l in lines]
            for kind, li, new in text_mutations(data, every, styles,
                                                raw_bytes=target != 'stdout'
                                                and target != 'stderr'):
                gray = (li is not None
                        and spec.may_be_excluded(shown[li], env)) \
                    or spec.only_final_newline_differs(data, new) \
                    or kind.startswith('crlf')
                cl = '-'
                if li is not None and toks and li < len(toks):
                    cl = spec.classify_token(toks[li])
                    if cl == 'text':
                        cl = '-'
                out.append((target, kind, gray, dname, new, cl))

        text_target('stdout', 'd_out.dat', case['out'])
        text_target('stderr', 'd_err.dat', case['err'])
        for i, (rel, dname, kind) in enumerate(b.files):
            tgt = 'file:%d' % i
            data = b.data[dname]
            if kind in TEXT_KINDS or (kind == 'zero'):
                text_target(tgt, dname, case['files'][i].get('lines')
                            or (['plain'] if kind in ('text', 'noext')
                                else None))
            elif kind == 'latin':
                text_target(tgt, dname, None)
            else:
                for mk_, _, new in binary_mutations(data):
                    out.append((tgt, mk_, False, dname, new, '-'))
            out.append((tgt, 'not-produced', False, dname, None, '-'))
        cur = case['status']
        for s in (0, 1, 3):
            if s != cur:
                out.append(('status', 'status->%d' % s, False,
                            'd_status.dat', ('%d\n' % s).encode(), '-'))
        if case.get('menu') in ('short', 'tiny', 'chars'):
            # per output one character / byte altered, one line added, one
            # line removed, the file no longer produced; one status change
            seen = set()
            short = []
            for m in out:
                k = m[1].split('@')[0]
                cls_ = ('content' if k in ('alter', 'flip') else k
                        if k in ('not-produced', 'add', 'remove',
                                 'nonascii-insert', 'nul-insert',
                                 'latin1-insert', 'bom-insert',
                                 'bom-remove') else
                        'status' if k.startswith('status') else None)
                if cls_ is None or m[2] or (m[0], cls_) in seen:
                    continue
                if case['menu'] == 'tiny' and cls_ not in (
                        'content', 'not-produced', 'status'):
                    continue
                if case['menu'] == 'short' and cls_ in (
                        'nonascii-insert', 'nul-insert', 'latin1-insert',
                        'bom-insert', 'bom-remove'):
                    continue
                seen.add((m[0], cls_))
                short.append(m)
            out = short
        return out

    # ----------------------------------------------------------- run_case
    def run_case(self, case):
        R = Res()
        try:
            self._run_case(case, R)
        except _Abort:
            pass
        return R

    # ------------------------------------------- two scripts, one directory
    @staticmethod
    def name_relation(c1, c2):
        n1 = ('test' if c1['script'] == 'nound' else 'test_') + c1['stem']
        n2 = ('test' if c2['script'] == 'nound' else 'test_') + c2['stem']
        if n1.replace('_', '') == n2.replace('_', ''):
            if 'nound' in (c1['script'], c2['script']) and \
                    c1['stem'] == c2['stem']:
                return 'testNAME-and-test_NAME'
            return 'underscore-count'
        if n1.lower() == n2.lower():
            return 'case-only'
        return 'different'

    def _run_scripts2(self, case, R):
        """generate A as script 1, run; generate B as script 2 in the same
        directory, run; script 1 must still judge the command by what it did
        when script 1 was generated."""
        H = self.H
        h = case['hist2']
        c1 = dict((k, v) for k, v in case.items() if k != 'hist2')
        c2 = dict(c1, stem=h['stem'], script=h['script'])
        if h['second'] == 'different':
            c2['out'] = ['regex', 'plain']
            if c2['files']:
                c2['files'] = [dict(f, lines=['quotes', 'plain'])
                               for f in c2['files']]
        rel = self.name_relation(c1, c2)

        def gen(c, wipe):
            b = H.build(c, wipe=wipe)
            g = H.generate(b, settle=0.0 if wipe else 0.03)
            R.ev()
            if g.get('hang') or g['exc'] is not None or g['exit'] is not None \
                    or not os.path.isfile(b.script):
                R.out('not-generated:%s' % ('first' if wipe else 'second'))
                raise _Abort()
            try:
                return b, H.compile_script(b)
            except (SyntaxError, ValueError):
                R.out('not-compilable')
                raise _Abort()

        def run(b, code):
            r = H.run_script(b, code)
            R.ev()
            R.states += 1
            if r['hang']:
                R.out('generated-test-hangs')
                raise _Abort()
            bad = sorted(t for t, v in r['tests'].items() if v != 'ok')
            if r['import_error'] or r['other']:
                bad.append('<class>')
            return bad

        def behave_like(b):
            for n, content in b.data.items():
                H.write_data(b, n, content)

        def changed_tests(b):
            t = [] if b.case.get('no_stdout') else ['test_stdout']
            return t + ['test_' + spec.sanitize(os.path.basename(rel_))
                        for rel_, _, _ in b.files]

        b1, code1 = gen(c1, True)
        bad = run(b1, code1)
        if bad:
            R.out('unchanged-fails')
            R.viol('unchanged-fails:first-script', 'keeps-passing-when-'
                   'nothing-changed', {'case': case, 'failing': bad})
            return R
        b2, code2 = gen(c2, False)
        if os.path.samefile(b1.script, b2.script):
            R.out('same-script-file')       # overwritten, as documented
            return R
        bad = run(b2, code2)
        if bad:
            R.viol('unchanged-fails:second-script:%s' % rel,
                   'keeps-passing-when-nothing-changed',
                   {'case': case, 'failing': bad})
        R.nontrivial = True
        if h['second'] == 'same':
            bad = run(b1, code1)
            R.out('second-same:first-%s' % ('passes' if not bad else 'FAILS'))
            if bad:
                R.viol('other-script-generated:%s' % rel,
                       'keeps-passing-when-nothing-changed',
                       {'case': case, 'first': b1.modname,
                        'second': b2.modname, 'failing': bad})
            return R
        # the command now behaves like B
        bad = run(b1, code1)
        want = changed_tests(b1)
        R.out('second-different:first-%s' % (
            'reports' if set(want) <= set(bad) else 'MISSES'))
        if not set(want) <= set(bad):
            R.viol('other-script-generated:%s' % rel,
                   'change-is-reported-by-its-test',
                   {'case': case, 'first': b1.modname, 'second': b2.modname,
                    'failing': bad, 'expected_failing': want})
        if set(bad) - set(want):
            R.viol('other-script-generated:%s:collateral' % rel,
                   'untouched-outputs-keep-passing',
                   {'case': case, 'failing': bad, 'expected_failing': want})
        # ... and like A again
        behave_like(b1)
        bad = run(b1, code1)
        if bad:
            R.viol('other-script-generated:%s' % rel,
                   'keeps-passing-when-nothing-changed',
                   {'case': case, 'first': b1.modname, 'second': b2.modname,
                    'failing': bad})
        bad = run(b2, code2)
        want = changed_tests(b2)
        if not set(want) <= set(bad):
            R.viol('other-script-generated:%s' % rel,
                   'change-is-reported-by-its-test',
                   {'case': case, 'failing': bad, 'expected_failing': want})
        return R

    def _run_case(self, case, R):
        H = self.H
        if case.get('hist2'):
            return self._run_scripts2(case, R)
        pairs = case.get('pairs')
        regen = case.get('regen')
        plain = dict((k, v) for k, v in case.items()
                     if k not in ('pairs', 'regen'))
        if regen:
            # a previous generation (and run of the generated test) in the
            # same directory: its script, references and outputs are there
            pb = H.build(plain)
            pg = H.generate(pb)
            R.ev()
            if pg['exc'] is not None or pg['exit'] is not None:
                R.out('not-generated:previous')
                return R
            b = H.build(plain, wipe=False)
        else:
            b = H.build(plain)
        case = b.case
        g = H.generate(b, settle=0.03 if (regen or case.get('pre')) else 0.0)
        R.ev()
        R.states = 1
        if g.get('hang'):
            R.out('not-generated:hang')
            return R
        if g['exc'] is not None or g['exit'] is not None \
                or not os.path.isfile(b.script):
            # not a generated test: nothing C12 can say (C11 reports it)
            R.out('not-generated:%s' % (type(g['exc']).__name__
                                        if g['exc'] is not None else 'exit'))
            return R
        try:
            code = H.compile_script(b)
        except (SyntaxError, ValueError):
            R.out('not-compilable')
            return R
        basenames = [os.path.basename(rel) for rel, _, _ in b.files]
        want_tests, names_ok, groups = spec.expected_tests(case, basenames)
        ckind = spec.collision_kind(case, basenames)

        def target_of(gd):
            return 'file:%d' % gd[1] if gd[0] == 'file' else gd[0]
        guard_of = {}                 # target -> documented test name
        for t, gd in want_tests.items():
            guard_of[target_of(gd)] = t
        n1 = '1' if case['iters'] == 1 else '2+'

        def tname(target):
            if target.startswith('file:'):
                return 'file-%s' % b.files[int(target[5:])][2]
            return target

        def tclass(target):
            """coarse output class for signatures"""
            if target.startswith('file:'):
                k = b.files[int(target[5:])][2]
                return 'file-text' if (k in TEXT_KINDS or k in (
                    'zero', 'latin')) else 'file-binary'
            return target

        def mclass(kind):
            k = kind.split('@')[0]
            if k in ('flip', 'append', 'truncate'):
                return 'bytes'
            if k.startswith('status'):
                return 'status'
            if k.startswith('nonascii'):
                return 'nonascii'
            return k.replace('-insert', '')

        mode = case.get('mode', 'reimport')
        loaded = [None]

        def run():
            """one run of the generated test: in a fresh process, freshly
            imported in this process, or the SAME loaded module and class
            objects run again (a runner re-running loaded tests)"""
            if mode == 'fresh':
                r = H.run_fresh_process(b)
            elif mode == 'same':
                r = H.run_script(b, code, module=loaded[0])
                loaded[0] = r['module'] or loaded[0]
            else:
                r = H.run_script(b, code)
            R.ev()
            if r['hang']:
                R.out('generated-test-hangs')
                R.viol('generated-test-hangs:%s' % mode,
                       'change-is-reported-by-its-test',
                       {'case': case, 'limit_s': gh.HANG_LIMIT})
                raise _Abort()
            bad = sorted(t for t, v in r['tests'].items() if v != 'ok')
            return r, bad

        r0, bad0 = run()
        if r0['import_error'] or r0['other'] or bad0:
            R.out('unchanged-fails')
            for t in bad0 or ['<class>']:
                gd = want_tests.get(t)
                R.viol('unchanged-fails:%s:n%s:%s' % (
                    ('file-%s' % b.files[gd[1]][2]) if gd and gd[0] == 'file'
                    else (gd[0] if gd else 'other'), n1,
                    self.classes_for(case, gd)),
                    'keeps-passing-when-nothing-changed',
                    {'case': case, 'failing': bad0,
                     'import_error': r0['import_error'],
                     'other': r0['other'],
                     'message': r0['details'].get(t, '')[-300:]})
            return R
        if names_ok and set(want_tests) != set(r0['tests']):
            R.viol('test-set:missing=%s' % ','.join(sorted(
                tname(k) for k, t in guard_of.items()
                if t not in r0['tests'])) or '-',
                'one-test-per-stream-file-status',
                {'case': case, 'tests': sorted(r0['tests']),
                 'expected': sorted(want_tests)})
            R.out('test-set-differs')
            return R
        # outputs whose documented test names coincide: any test called
        # <prefix>... may be theirs, but each needs one of its own
        cand = dict((tg, set([t])) for tg, t in guard_of.items())
        group_of = {}
        owner = {}
        for pfx, members in groups.items():
            names = set(t for t in r0['tests']
                        if t.startswith(pfx) and t not in want_tests)
            for gd in members:
                cand[target_of(gd)] = names
                group_of[target_of(gd)] = pfx
            if len(names) < len(members):
                R.viol('test-set:short:%s' % ckind,
                       'one-test-per-stream-file-status',
                       {'case': case, 'tests': sorted(r0['tests']),
                        'prefix': pfx, 'outputs_sharing_it': len(members)})
        if groups:
            R.unspec += 1

        muts = self.mutations(b)
        reverted_once = set()
        nmust = ngray = nfree = 0

        def check(target_list, kinds_, grays, bad, sub):
            """compare failing set with the model for mutated targets"""
            badset = set(bad)
            allowed = set()
            for i, (tg, gray) in enumerate(zip(target_list, grays)):
                c = cand.get(tg)
                if c is None:
                    continue          # no test guards it (--no-stdout ...)
                allowed |= c
                hit = c & badset
                if gray:
                    continue
                if not hit:
                    R.viol('undetected:%s:%s:%s' % (
                        tclass(tg), mclass(kinds_[i]),
                        sub['class'] if tg not in group_of else ckind),
                        'change-is-reported-by-its-test',
                        {'case': case, 'mutation': sub, 'failing': bad,
                         'candidates': sorted(c)}, sub)
                elif tg in group_of:
                    if len(hit) > 1 and len(target_list) == 1:
                        R.viol('collateral:group:%s:%s' % (
                            ckind, mclass(kinds_[i])),
                            'untouched-outputs-keep-passing',
                            {'case': case, 'mutation': sub, 'failing': bad},
                            sub)
                    elif len(target_list) == 1:
                        t = sorted(hit)[0]
                        if owner.setdefault(tg, t) != t:
                            R.viol('collateral:group-inconsistent:%s'
                                   % ckind, 'change-is-reported-by-its-test',
                                   {'case': case, 'mutation': sub,
                                    'failing': bad, 'earlier': owner[tg]},
                                   sub)
            for t in sorted(badset - allowed):
                gd = want_tests.get(t)
                R.viol('collateral:%s-fails-on-%s:%s' % (
                    self.gname(b, gd), '+'.join(tclass(x) for x in
                                                target_list),
                    mclass(kinds_[0])),
                    'untouched-outputs-keep-passing',
                    {'case': case, 'mutation': sub, 'failing': bad}, sub)

        for (target, kind, gray, dname, new, cl) in muts:
            sub = {'target': target, 'kind': kind, 'class': cl,
                   'gray': gray}
            H.write_data(b, dname, new)
            r, bad = run()
            R.states += 1
            guarded = target in cand
            hit = bool(cand.get(target, set()) & set(bad))
            if gray:
                R.unspec += 1
                ngray += 1
                R.out('gray:%s:%s' % (tname(target).split('-')[0],
                                      'fails' if hit else 'passes'))
            elif guarded:
                nmust += 1
                R.out('%s:%s:%s' % (tname(target), kind.split('@')[0],
                                    'detected' if hit else 'UNDETECTED'))
            else:
                nfree += 1
                R.out('%s:unguarded:%s' % (tname(target),
                                           'quiet' if not bad else 'NOISY'))
            if r['import_error'] or r['other']:
                # class-level failure (setUpClass): every test is affected
                R.viol('class-level-error-after:%s:%s' % (
                    tname(target), kind.split('@')[0]),
                    'change-is-reported-by-its-test',
                    {'case': case, 'mutation': sub, 'other': r['other'],
                     'import_error': r['import_error']}, sub)
            else:
                check([target], [kind], [gray], bad, sub)
            # ---- revert
            H.write_data(b, dname, b.data[dname])
            key = (target, kind.split('@')[0])
            if mode == 'fresh' and self.tier != 'thorough':
                continue            # one revert run at the end (cost)
            if self.tier == 'thorough' or key not in reverted_once or bad \
                    and not guarded:
                reverted_once.add(key)
                r2, bad2 = run()
                if bad2 or r2['other'] or r2['import_error']:
                    R.viol('revert-fails:%s:after-%s:%s' % (
                        ','.join(self.gname(b, want_tests.get(t))
                                 for t in bad2) or 'class',
                        tname(target), kind.split('@')[0]),
                        'keeps-passing-when-nothing-changed',
                        {'case': case, 'mutation': sub, 'failing': bad2,
                         'other': r2['other']}, sub)

        if mode == 'fresh' and self.tier != 'thorough':
            r2, bad2 = run()
            if bad2 or r2['other'] or r2['import_error']:
                R.viol('revert-fails:fresh-process',
                       'keeps-passing-when-nothing-changed',
                       {'case': case, 'failing': bad2, 'other': r2['other']})
        if pairs:
            # one representative non-gray mutation per (target, kind class)
            reps = {}
            for m in muts:
                if m[2]:
                    continue
                reps.setdefault((m[0], m[1].split('@')[0]), m)
            reps = list(reps.values())
            for i in range(len(reps)):
                for j in range(i + 1, len(reps)):
                    a, c = reps[i], reps[j]
                    if a[0] == c[0]:
                        continue
                    sub = {'pair': [[a[0], a[1]], [c[0], c[1]]],
                           'class': '-'}
                    H.write_data(b, a[3], a[4])
                    H.write_data(b, c[3], c[4])
                    r, bad = run()
                    R.states += 1
                    nmust += 1
                    R.out('pair:%s' % ('both' if all(
                        cand[x[0]] & set(bad) for x in (a, c)
                        if x[0] in cand) else 'MISSED'))
                    check([a[0], c[0]], [a[1], c[1]], [False, False], bad,
                          sub)
                    H.write_data(b, a[3], b.data[a[3]])
                    H.write_data(b, c[3], b.data[c[3]])
            r2, bad2 = run()
            if bad2:
                R.viol('revert-fails:after-pairs',
                       'keeps-passing-when-nothing-changed',
                       {'case': case, 'failing': bad2})
        # each of the outputs sharing a documented test name must have been
        # reported by a test of its own
        for pfx in groups:
            seen = {}
            for tg, t in sorted(owner.items()):
                if group_of.get(tg) != pfx:
                    continue
                if t in seen:
                    R.viol('shared-test:%s' % ckind,
                           'change-is-reported-by-its-test',
                           {'case': case, 'test': t,
                            'reports_both': [seen[t], tg]})
                seen[t] = tg
        R.nontrivial = nmust > 0
        return R

    @staticmethod
    def gname(b, gd):
        if gd is None:
            return 'unknown'
        if gd[0] == 'file':
            return 'file-%s' % b.files[gd[1]][2]
        return gd[0]

    @staticmethod
    def classes_for(case, gd):
        if gd is None:
            return '-'
        if gd[0] == 'stdout':
            toks = case['out']
        elif gd[0] == 'stderr':
            toks = case['err']
        elif gd[0] == 'file':
            toks = case['files'][gd[1]].get('lines')
        else:
            toks = None
        return spec.leading_class(toks)


CHECK = C12()
