"""
C01 - discovered DataFrame constraints are satisfied by the data they came
from; discovery and that verification never raise.

E1: every small frame of DESIGN 3.1 x {rex off, on} x {constraints as dict,
as .tdda file} x {verify_df, detect_df} x {repair on, off} on the REAL
discover_df / verify_df / detect_df.
E3 over one .tdda path (e3-path): the path is read, rewritten with the
constraints of another frame and read again (path as str / pathlib.Path /
relative, rewritten in place or replaced): verdicts as from a fresh state.
E3: every sequence of <= D operations from {verify, verify(repair=False),
detect(outpath), detect(in_place=True), re-discover} applied to the SAME
frame object, every history rebuilt from scratch, oracle checked after every
operation (repair and in_place may mutate the caller's frame; the statistics
a verifier caches must describe the frame it verifies).

Oracle = invariant (no reference model is needed): nothing raises; discovery
returns constraints for every column; failures == 0; every per-field verdict
is truthy and there is one for every discovered constraint; passes == number
of discovered constraints; detection reports 0 failing records, returns no
detected frame and writes no file.
"""
import contextlib
import hashlib
import io
import itertools
import json
import os
import random
import re
import shutil
import tempfile

from mc.engine import Check, Res
from mc import frames_alphabet as FA
from mc import fresh_fork as FF

OPS = ['V', 'v', 'D', 'I', 'R']
OPNAMES = {'V': 'verify_df(repair=True)', 'v': 'verify_df(repair=False)',
           'D': 'detect_df(outpath)', 'I': 'detect_df(in_place=True)',
           'R': 're-discover'}


def char_tokens(strings):
    """Coarse description of the characters of some strings (for rex
    signatures): L letter, D ascii digit, the character itself for ascii
    punctuation / space, U+XXXX for anything else."""
    toks = set()
    for s in strings:
        if s == '':
            toks.add('empty')
        for ch in s:
            if ch.isascii() and ch.isalpha():
                toks.add('L')
            elif ch.isascii() and ch.isdigit():
                toks.add('D')
            elif ch == ' ':
                toks.add('SP')
            elif ch.isascii():
                toks.add(ch)
            elif ch.isalpha():
                toks.add('Lu')
            else:
                toks.add('U+%04X' % ord(ch))
    return ','.join(sorted(toks))


def exotic_chars(strings):
    """Control, line-boundary and other non-printable characters present in
    some strings, as U+XXXX tokens ('' if there are none)."""
    toks = set()
    for s in strings:
        for ch in s:
            o = ord(ch)
            if o < 0x20 or 0x7f <= o <= 0x9f or o in (0x2028, 0x2029):
                toks.add('U+%04X' % o)
    return ','.join(sorted(toks))


class C01(Check):
    pid = 'C01'
    title = ('discovered DataFrame constraints are satisfied by the data '
             'they came from')
    technique = ('bounded exhaustive enumeration of small DataFrames x 16 '
                 'discovery/verification configurations (E1) and of '
                 'operation sequences on one frame object (E3) on the real '
                 'discover_df / verify_df / detect_df; oracle = closure '
                 'invariant')
    rule = ('E1 cases = every one-column frame with 0..R cells (R=3 quick; 4 '
            'thorough for alphabets <= 4) over 22 column families + 28 '
            'many-category columns x field names (quick: a, and "b c" with '
            '0..2 rows; thorough: 6 names); 18 tz-aware families (7 fixed '
            'offsets of every sign x minutes class + 2 DST zones, us and ns) '
            'with 0..2 (thorough 3) rows; 2,236 structured-string columns '
            'for the rex-on pipelines (every ordered pair / triple of 20 '
            'special characters in a varying position, letters/digits/mixed, '
            'tails, columns either side of max_punc_in_group=5, '
            'max_strings_in_group=10, MAX_VRLE_RANGE=2, MAX_GROUPS=99, '
            'do_all=100; options covered pairwise in quick, fully in '
            'thorough); 2,188 run-length columns (one character out of 5 '
            'repeated n times for every subset of >= 2 run lengths out of '
            '0..4, x 2 prefixes x 7 suffixes, and two runs varying together) '
            'and, thorough, every ordered pair of 18 families x 2 '
            'rows x 3-value sub-alphabets; each case runs 2 discoveries and '
            '16 verification pipelines. E3 cases = every one-column frame '
            '(0..2 rows quick, 0..3 thorough) x every sequence of D '
            'operations (D=2: 25 sequences, thorough also D=3: 125) out of '
            '5, each rebuilt from scratch, invariant checked after each '
            'operation. E3 over frames = every (earlier frame of family A) '
            '-> (frame with the same column names of family B, 0..2 rows) '
            'for all ordered family pairs x {new frame object, same object '
            'with replaced columns}, exchanged column types, category '
            'boundary; last frame discovered (rex on), verified from the '
            'dict and detected from the .tdda file. E3 over one path = '
            'every ordered pair of 18 families (earlier frame -> last frame, '
            'same and different column name) under the plain spec, and the '
            'ordered pairs of 6 core families x {str, Path, relative} for the '
            'earlier read x the same for the last reads x {verify_df, '
            'detect_df, DatasetConstraints(loadpath)} x {rewritten in place, '
            'replaced}; differential against the fresh state on verdict '
            'vectors, passes and failures. non-trivial = at least '
            'one constraint beyond `type` was discovered and verified')
    assumptions = [
        'pandas 3.0.6 / numpy 2.5; values outside the alphabets, > 4 rows '
        '(except many-category columns up to 27 rows) and > 2 columns are '
        'not explored',
        'text columns are object dtype or Categorical (`str`/`string` '
        'dtypes are not in the property\'s type list)',
        'mutation of the caller\'s frame by repair / in_place is not itself '
        'a violation (the statement does not forbid it); it is tracked as '
        'E3 state and the invariant is required of the mutated frame too',
        'rexpy is deterministic for these inputs (<= 27 distinct strings, no '
        'sampling); the global PRNG is not controlled here (C03/C14 do that)',
        'every case starts from the process state "tdda imported, never '
        'called" (child forked from a pristine worker, mc.fresh_fork); inside '
        'an E1/E3 case the 18 calls / 25 sequences share one process, which '
        'is part of the (replayable) case; dependence on EARLIER FRAMES is '
        'explored explicitly by the e3-frames layer with a differential '
        'oracle against the fresh state (history-dependent:<mode>:<what>); '
        'dependence on EARLIER CONTENTS OF THE SAME .tdda PATH by the e3-path '
        'layer (history-dependent:path-rewritten:<forms>:<rewrite mode>); '
        'inside an E1 case the rex-off and the rex-on constraints are '
        'written to two different paths, each read four times (verify_df '
        'gets it as str, detect_df as pathlib.Path)',
    ]

    # ----------------------------------------------------------- enumeration
    def hashseeds(self, tier, verif_seed):
        # rexpy iterates over sets of strings: PYTHONHASHSEED is the one
        # environment answer that can matter here
        return [verif_seed % 3]

    def layers(self, tier):
        if tier == 'quick':
            return [('e1-a', 'E1, one-column frames named "a", 0..3 rows, '
                             '2 discoveries + 16 pipelines each'),
                    ('e1-bc', 'E1, one-column frames named "b c", 0..2 rows'),
                    ('e1-tz', 'E1, tz-aware columns over the offset alphabet '
                              '(7 fixed offsets of every sign x minutes '
                              'class, 2 named zones across a DST transition) '
                              'x {us, ns}, 0..2 rows'),
                    ('e1-rexs', 'E1 (rex-on pipelines), structured strings: '
                                'every special character in a varying '
                                'punctuation position next to every other '
                                'one, varying letters/digits, optional '
                                'tails, columns either side of rexpy\'s size '
                                'constants'),
                    ('e1-runs', 'E1 (rex-on pipelines), one character '
                                'repeated with every set of >= 2 run lengths '
                                'out of 0..4 (digits, letters, punctuation, '
                                'space) in front of nothing / a character '
                                'sorting above or below it / the other '
                                'alphanumeric class / punctuation, with and '
                                'without a prefix; two runs varying together'),
                    ('e1-lb', 'E1 (all 8 rex-on pipelines), every whitespace '
                              '/ line-boundary character inside and at the '
                              'end of short values, of values with 96..102 '
                              'coarse-class runs and in columns of 99..101 '
                              'distinct values'),
                    ('e1-nulls', 'E1, object columns with one, two or three '
                                 'kinds of null (None, nan, np.nan, pd.NA, '
                                 'pd.NaT): strings, bools, dates, 19/20/21 '
                                 'categories'),
                    ('e3-d2', 'E3, all 25 two-operation sequences on every '
                              'one-column frame with 0..2 rows and every '
                              'many-category column'),
                    ('e3-frames', 'E3 over frames: a frame is discovered and '
                                  'verified, then another frame with the '
                                  'same column names (new object / same '
                                  'object with replaced columns) goes '
                                  'through discovery, verify and detect in '
                                  'the same process: same verdicts as from '
                                  'a fresh state'),
                    ('e3-path', 'E3 over one .tdda path: constraints of an '
                                'earlier frame are written to the path and '
                                'read (verify_df / detect_df / '
                                'DatasetConstraints(loadpath)), the path is '
                                'rewritten (in place / replaced) with the '
                                'constraints of another frame, which is '
                                'verified and detected against it; path '
                                'given as str / pathlib.Path / relative: same '
                                'verdicts as from a fresh state')]
        return [('e1-a', 'E1, one-column frames named "a", 0..4 rows for '
                         'alphabets <= 4, else 0..3'),
                ('e1-tz', 'E1, tz-aware columns over the offset alphabet x '
                          '{us, ns}, 0..3 rows'),
                ('e1-rexs', 'E1 (rex-on pipelines), structured strings with '
                            'ordered triples, object and categorical'),
                ('e1-runs', 'E1 (rex-on pipelines), one repeated character, '
                            'every set of run lengths out of 0..5, object '
                            'and categorical'),
                ('e1-lb', 'E1 (rex-on pipelines), line-boundary characters, '
                          'object and categorical'),
                ('e1-nulls', 'E1, object columns with mixed kinds of null, '
                             'three field names'),
                ('e3-d2', 'E3, two-operation sequences, frames 0..3 rows'),
                ('e3-frames', 'E3 over frames with the same column names '
                              '(one or two earlier frames, 22 families)'),
                ('e3-path', 'E3 over one .tdda path rewritten between reads '
                            '(22 families, full product of path forms x '
                            'loaders x rewrite modes, two earlier frames)'),
                ('e1-two', 'E1, two-column frames (ordered pairs of 18 '
                           'families, 2 rows, 3-value sub-alphabets, two '
                           'name pairs)'),
                ('e3-d3', 'E3, all 125 three-operation sequences, frames '
                          '0..3 rows'),
                ('e1-names', 'E1, the five other field names, 0..3 rows')]

    def _singles(self, tier, names, maxrows=3):
        fams = FA.BASE_FAMILIES + FA.EXTRA_FAMILIES
        rows_for = {}
        if tier == 'thorough':
            for f in fams:
                if len(FA.FAMILIES[f]['values']) <= 4:
                    rows_for[f] = 4
        return FA.single_column_frames(fams, maxrows, names, manycat=True,
                                       rows_for=rows_for)

    def cases(self, tier, layer):
        if layer == 'e1-a':
            yield {'mode': 'e1', 'frame': {'cols': []}}   # no columns at all
            for fr in self._singles(tier, ['a']):
                yield {'mode': 'e1', 'frame': fr}
        elif layer == 'e1-bc':
            for fr in self._singles(tier, ['b c'], 2):
                yield {'mode': 'e1', 'frame': fr}
        elif layer == 'e1-tz':
            rows = 3 if tier == 'thorough' else 2
            for fam in FA.TZ_FAMILIES:
                for col in FA.columns(fam, rows, 'a'):
                    yield {'mode': 'e1', 'frame': {'cols': [col]}}
        elif layer == 'e1-rexs':
            thorough = tier == 'thorough'
            for fam in (['rexs', 'rexscat'] if thorough else ['rexs']):
                for col in FA.rex_structured_columns(thorough, 'a', fam):
                    c = {'mode': 'e1', 'frame': {'cols': [col]},
                         'rex': [True]}
                    if not thorough:
                        # the three two-valued options covered pairwise
                        # (4 of the 8 pipelines); thorough runs all 8
                        c['pairwise'] = True
                    yield c
        elif layer == 'e1-runs':
            thorough = tier == 'thorough'
            for fam in (['rexs', 'rexscat'] if thorough else ['rexs']):
                for col in FA.run_length_columns(thorough, 'a', fam):
                    c = {'mode': 'e1', 'frame': {'cols': [col]},
                         'rex': [True]}
                    if not thorough:
                        c['pairwise'] = True
                    yield c
        elif layer == 'e3-path':
            groups = {}
            for h in FA.path_histories(tier == 'thorough'):
                key = json.dumps([h['spec'], h['frame']], sort_keys=True)
                if key not in groups:
                    groups[key] = {'mode': 'ph', 'spec': h['spec'],
                                   'frame': h['frame'], 'hists': []}
                groups[key]['hists'].append(h['hist'])
            for g in groups.values():
                yield g
        elif layer == 'e1-lb':
            for fam in (['rexs', 'rexscat'] if tier == 'thorough'
                        else ['rexs']):
                for col in FA.line_boundary_columns('a', fam):
                    yield {'mode': 'e1', 'frame': {'cols': [col]},
                           'rex': [True]}
        elif layer == 'e1-nulls':
            for name in (FA.NAMES[:3] if tier == 'thorough' else ['a']):
                for col in FA.null_flavour_columns(name):
                    yield {'mode': 'e1', 'frame': {'cols': [col]}}
        elif layer == 'e1-names':
            for fr in self._singles('quick', FA.NAMES[1:]):
                yield {'mode': 'e1', 'frame': fr}
        elif layer == 'e1-two':
            pairs = [('a', 'b c'), ('a_min_ok', 'a')]
            for fr in FA.two_column_frames(FA.BASE_FAMILIES, 2, pairs, 3):
                yield {'mode': 'e1', 'frame': fr}
        elif layer == 'e3-frames':
            groups = {}
            for h in FA.frame_histories(tier == 'thorough'):
                key = json.dumps([h['mode'], h['frame']], sort_keys=True)
                if key not in groups:
                    groups[key] = {'mode': 'fh', 'mmode': h['mode'],
                                   'frame': h['frame'], 'hists': []}
                groups[key]['hists'].append(h['hist'])
            for g in groups.values():
                yield g
        elif layer in ('e3-d2', 'e3-d3'):
            depth = int(layer[-1])
            rows = 2 if tier == 'quick' else 3
            for fr in self._singles('quick', ['a'], rows):
                yield {'mode': 'e3', 'frame': fr, 'depth': depth}

    # ---------------------------------------------------------------- worker
    def setup_worker(self, tier):
        # import only: every case (and, in the e3-frames layer, every
        # history) executes tdda in a child forked from this pristine image
        FF.single_threaded_env()
        import numpy                        # noqa: F401
        import pandas                       # noqa: F401
        from tdda.constraints import discover_df, verify_df, detect_df
        self.discover_df = discover_df
        self.verify_df = verify_df
        self.detect_df = detect_df
        self.sandbox = tempfile.mkdtemp(prefix='tdda_mc_c01_', dir='/var/tmp')
        self.tddapath = os.path.join(self.sandbox, 'c.tdda')
        self.outpath = os.path.join(self.sandbox, 'detected.csv')
        FA.build_frame({'cols': [{'name': 'a', 'fam': 'i64', 'v': [1]}]})
        FF.freeze()

    def teardown_worker(self):
        sb = getattr(self, 'sandbox', None)
        if sb and os.path.isdir(sb):
            shutil.rmtree(sb, ignore_errors=True)

    def reset(self):
        for p in [self.outpath, self.tddapath] + [
                os.path.join(self.sandbox, 'c_rex%d.tdda' % i)
                for i in (0, 1)]:
            if os.path.exists(p):
                os.remove(p)

    # ------------------------------------------------------------- real calls
    def quiet(self, fn, *a, **kw):
        out = io.StringIO()
        with contextlib.redirect_stdout(out), contextlib.redirect_stderr(out):
            return fn(*a, **kw)

    def kinds(self, frame, only=None):
        return '+'.join(FA.FAMILIES[c['fam']]['kind'] for c in frame['cols']
                        if only is None or c['name'] in only)

    def localise(self, frame, attempt):
        """Delta-debug an exception on a multi-column frame down to the
        columns that raise on their own."""
        if len(frame['cols']) < 2:
            return frame['cols']
        bad = []
        for c in frame['cols']:
            try:
                attempt({'cols': [c]})
            except Exception:
                bad.append(c)
        return bad or frame['cols']

    def col_tag(self, cols):
        """type=<tdda kinds of the data>:rows=0|>0, with discriminators for
        tz-aware / date-object and categorical columns.  An object column
        without any non-null cell is the same frame whatever family it was
        enumerated from: it is tagged `string` (tdda's convention)."""
        ks = []
        for c in cols:
            k = FA.plain_column(c)[0] or 'string'
            if k == 'date':
                tzc = FA.tz_class(c['fam'])
                k += ('(tz%s)' % tzc if tzc is not None else
                      '(dateobj)' if c['fam'] == 'dateobj' else '')
            if k == 'string' and FA.FAMILIES[c['fam']]['dtype'] == 'category':
                k += '(cat)'
            fl = FA.null_flavours_of(c)
            if fl:
                k += '(mixed-nulls)' if len(fl) > 1 else '(null=%s)' % fl[0]
            if k not in ks:
                ks.append(k)
        rows = '0' if not cols or not cols[0]['v'] else '>0'
        return 'type=%s:rows=%s' % ('+'.join(ks) or 'none', rows)

    def discover(self, R, frame, df, rex, sub):
        """-> (constraints object, dict) or (None, None) after reporting."""
        try:
            c = self.quiet(self.discover_df, df, inc_rex=rex)
            R.ev()
        except Exception as e:
            R.ev()
            bad = self.localise(frame, lambda fr: self.quiet(
                self.discover_df, FA.build_frame(fr), inc_rex=rex))
            R.out('discover-raises:%s' % type(e).__name__)
            R.viol('discover-raises:%s:%s:rex=%s'
                   % (type(e).__name__, self.col_tag(bad),
                      'on' if rex else 'off'),
                   'discovery-never-raises',
                   {'frame': FA.describe(frame), 'inc_rex': rex,
                    'exception': repr(e)[:300],
                    'snippet': FA.snippet(frame) + '\nfrom tdda.constraints '
                    'import discover_df\ndiscover_df(df, inc_rex=%r)' % rex},
                   sub)
            return None, None
        if c is None and not frame['cols']:
            # a frame without any (recognised) column: None is the documented
            # answer ("None - if no constraints were found")
            R.out('discover-none:no-columns')
            return None, None
        if c is None:
            R.out('discover-none')
            R.viol('discover-none:%s' % self.col_tag(frame['cols']),
                   'constraints-for-recognised-columns',
                   {'frame': FA.describe(frame), 'inc_rex': rex}, sub)
            return None, None
        try:
            d = c.to_dict()
        except Exception as e:
            R.viol('to_dict-raises:%s:%s' % (type(e).__name__,
                                             self.col_tag(frame['cols'])),
                   'discovery-never-raises',
                   {'frame': FA.describe(frame), 'exception': repr(e)[:300]},
                   sub)
            return None, None
        missing = [c_['name'] for c_ in frame['cols']
                   if c_['name'] not in d['fields']]
        if missing:
            R.viol('field-not-discovered:%s' % self.col_tag(
                [c_ for c_ in frame['cols'] if c_['name'] in missing]),
                'constraints-for-recognised-columns',
                {'frame': FA.describe(frame), 'missing': missing}, sub)
        return c, d

    def check_verification(self, R, frame, df, d, v, fn, sub, extra):
        """The closure invariant on one Verification/Detection object."""
        ndisc = sum(len(fc) for fc in d['fields'].values())
        ok = True
        bycol = dict((c['name'], c) for c in frame['cols'])
        for name, fc in d['fields'].items():
            res = v.fields.get(name)
            col = bycol.get(name)
            tag = self.col_tag([col]) if col else 'type=%s' % fc.get('type')
            if res is None:
                ok = False
                R.viol('no-verdicts-for-field:%s' % tag,
                       'every-constraint-reported-satisfied',
                       dict(extra, field=name), sub)
                continue
            for kind in fc:
                verdict = res.get(kind, '<absent>')
                if verdict is True or (verdict not in (None, '<absent>')
                                       and bool(verdict)):
                    continue
                ok = False
                disc = ''
                if kind == 'rex' and col is not None:
                    pats = [re.compile(r, re.UNICODE | re.DOTALL)
                            for r in fc['rex']]
                    un = [s for s in col['v'] if isinstance(s, str)
                          and not any(p.match(s) for p in pats)]
                    # `un` is computed with the documented flags (UNICODE |
                    # DOTALL): empty means the expressions do match the data
                    # and the verifier applied them differently
                    disc = ':unmatched=%s' % (
                        char_tokens(un) if un else 'none-under-DOTALL')
                    ex = exotic_chars(x for x in col['v']
                                      if isinstance(x, str))
                    if ex and not un:
                        disc += ':chars=%s' % ex
                elif col is not None and kind in (
                        'min_length', 'max_length', 'allowed_values',
                        'no_duplicates') and any(isinstance(x, str)
                                                 for x in col['v']):
                    ex = exotic_chars(x for x in col['v']
                                      if isinstance(x, str))
                    if ex:
                        disc = ':chars=%s' % ex
                what = ('fails-own' if verdict is False or
                        (verdict not in (None, '<absent>'))
                        else 'no-verdict')
                R.viol('%s:%s:%s%s' % (what, kind, tag, disc),
                       'every-constraint-reported-satisfied',
                       dict(extra, field=name, constraint=kind,
                            value=_j(fc[kind]), verdict=_j(verdict),
                            verdicts=_j(dict(res))), sub)
        if v.failures != 0 and ok:
            ok = False
            R.viol('failures-nonzero:%s' % self.col_tag(frame['cols']),
                   'failures==0', dict(extra, failures=v.failures), sub)
        if v.passes != ndisc and ok:
            ok = False
            R.viol('passes!=discovered:%s' % self.col_tag(frame['cols']),
                   'passes==number-discovered',
                   dict(extra, passes=v.passes, discovered=ndisc), sub)
        if fn == 'detect':
            det = getattr(v, 'detection', None)
            nfail = getattr(det, 'n_failing_records', 0) if det else 0
            if ok and det is not None and nfail != 0:
                ok = False
                R.viol('detect-failing-records:%s'
                       % self.col_tag(frame['cols']),
                       'no-failing-records', dict(extra, n_failing=int(nfail)),
                       sub)
            try:
                dd = v.detected()
            except Exception as e:
                dd = None
                R.viol('detected()-raises:%s' % type(e).__name__,
                       'verification-never-raises', extra, sub)
            if ok and dd is not None and len(dd) != 0:
                ok = False
                R.viol('detect-returns-records:%s'
                       % self.col_tag(frame['cols']), 'no-failing-records',
                       dict(extra, n=len(dd)), sub)
        return ok

    def call(self, R, frame, df, d, cons, fn, kw, sub, extra):
        """One verify_df / detect_df call + invariant.  -> 'ok'|'bad'."""
        wrote = False
        if os.path.exists(self.outpath):
            os.remove(self.outpath)
        self.last_obs = None
        try:
            f = self.verify_df if fn == 'verify' else self.detect_df
            v = self.quiet(f, df, cons, **kw)
            R.ev()
            self.last_obs = [fn, _j(v.passes), _j(v.failures), sorted(
                (str(k), sorted(_j(dict(r)).items()))
                for k, r in v.fields.items())]
        except Exception as e:
            R.ev()
            self.last_obs = [fn, 'raises', type(e).__name__]
            R.out('%s-raises:%s' % (fn, type(e).__name__))
            R.viol('%s-raises:%s:%s' % (fn, type(e).__name__,
                                        self.col_tag(frame['cols'])),
                   'verification-never-raises',
                   dict(extra, exception=repr(e)[:300]), sub)
            return 'bad'
        ok = self.check_verification(R, frame, df, d, v, fn, sub, extra)
        if os.path.exists(self.outpath):
            wrote = True
            os.remove(self.outpath)
        if wrote and ok:
            ok = False
            R.viol('detect-writes-file', 'no-detection-file', extra, sub)
        return 'ok' if ok else 'bad'

    # --------------------------------------------------------------------- E1
    PAIRWISE = [('dict', 'verify', True), ('file', 'verify', False),
                ('dict', 'detect', False), ('file', 'detect', True)]

    def run_e1(self, R, frame, rexes=(False, True), pairwise=False):
        pristine = FA.build_frame(frame)
        sig0 = frame_state(pristine)
        df = FA.build_frame(frame)
        outcome = []
        for rex in rexes:
            sub0 = {'rex': rex}
            self.reset()
            # one .tdda path per discovery: what a path that is REUSED does
            # is the subject of the e3-path layer, not of E1
            self.tddapath = os.path.join(self.sandbox,
                                         'c_rex%d.tdda' % int(rex))
            c, d = self.discover(R, frame, df, rex, sub0)
            if c is None:
                outcome.append('X')
                continue
            nkinds = sum(len(fc) for fc in d['fields'].values())
            if nkinds > len(d['fields']):
                R.nontrivial = True
            try:
                with open(self.tddapath, 'w', encoding='utf-8') as f:
                    f.write(c.to_json())
            except Exception as e:
                R.viol('to_json-raises:%s:%s' % (type(e).__name__,
                                                 self.col_tag(frame['cols'])),
                       'tdda-file-route', {'frame': FA.describe(frame),
                                           'exception': repr(e)[:300]}, sub0)
                continue
            good = 0
            combos = self.PAIRWISE if pairwise else [
                (ro, fn, rp) for ro in ('dict', 'file')
                for fn in ('verify', 'detect') for rp in (True, False)]
            if True:
                if True:
                    for (route, fn, repair) in combos:
                        sub = {'rex': rex, 'route': route, 'fn': fn,
                               'repair': repair}
                        # the path as str (verify) / pathlib.Path (detect)
                        cons = d if route == 'dict' else self.path_form(
                            'str' if fn == 'verify' else 'Path')
                        kw = {'repair': repair}
                        if fn == 'detect':
                            kw['outpath'] = self.outpath
                        extra = {'frame': FA.describe(frame), 'config': sub,
                                 'constraints': _j(d['fields']),
                                 'snippet': FA.snippet(frame)}
                        r = self.call(R, frame, df, d, cons, fn, kw, sub,
                                      extra)
                        good += r == 'ok'
                        if frame_state(df) != sig0:
                            outcome.append('mutated')
                            df = FA.build_frame(frame)
            outcome.append('%d/%d' % (good, len(combos)))
            sh = '|'.join('%s{%s}' % (fc.get('type'), ','.join(
                k[:4] + ('=' + str(fc[k]) if k in ('sign', 'max_nulls')
                         else '=%d' % len(fc[k]) if k == 'rex' else '')
                for k in fc if k != 'type')) for fc in d['fields'].values())
            R.out('e1:%s:%s' % (sh, outcome[-1]))

    # --------------------------------------------------------------------- E3
    def run_e3(self, R, frame, depth):
        """Every operation sequence of exactly `depth` operations, each
        rebuilt from scratch on one frame object; the invariant is checked
        after every operation (so every shorter history is covered as a
        prefix).  State = (frame content, current constraints)."""
        rex = any(FA.FAMILIES[c['fam']]['kind'] == 'string'
                  for c in frame['cols'])
        seen = set()
        ntrans = 0
        for seq in itertools.product(OPS, repeat=depth):
            self.reset()
            df = FA.build_frame(frame)
            sub0 = {'history': ''}
            c, d = self.discover(R, frame, df, rex, sub0)
            if c is None:
                return
            if sum(len(fc) for fc in d['fields'].values()) > len(d['fields']):
                R.nontrivial = True
            seen.add(state_key(df, d))
            cur_frame = frame
            hist = ''
            for op in seq:
                hist += op
                sub = {'history': hist}
                extra = {'frame': FA.describe(frame),
                         'history': [OPNAMES[o] for o in hist],
                         'constraints': _j(d['fields']),
                         'columns_now': [str(x) for x in df.columns]}
                ntrans += 1
                if op == 'R':
                    # the frame may have gained columns: describe it for sigs
                    c2, d2 = self.discover(R, cur_frame, df, rex, sub) \
                        if list(df.columns) == [x['name'] for x in
                                                cur_frame['cols']] \
                        else self.rediscover_mutated(R, df, rex, sub, extra)
                    if c2 is None:
                        break
                    c, d = c2, d2
                    r = 'ok'
                else:
                    fn = 'verify' if op in 'Vv' else 'detect'
                    kw = {'repair': op != 'v'}
                    if op == 'D':
                        kw['outpath'] = self.outpath
                    if op == 'I':
                        kw['in_place'] = True
                    r = self.call(R, cur_frame, df, d, d, fn, kw, sub, extra)
                seen.add(state_key(df, d))
                if r != 'ok':
                    break
            R.out('e3:%s:%s' % (hist, r))
        R.states = len(seen)
        R.checked += 0

    def rediscover_mutated(self, R, df, rex, sub, extra):
        try:
            c = self.quiet(self.discover_df, df, inc_rex=rex)
            R.ev()
            if c is None:
                R.viol('discover-none:mutated-frame',
                       'constraints-for-recognised-columns', extra, sub)
                return None, None
            return c, c.to_dict()
        except Exception as e:
            R.ev()
            R.viol('discover-raises:%s:mutated-frame' % type(e).__name__,
                   'discovery-never-raises',
                   dict(extra, exception=repr(e)[:300]), sub)
            return None, None

    # -------------------------------------------------- E3 over frames
    def child_frame_ops(self, hist, frame, mode):
        """In one process: for every earlier frame discover + verify it, then
        bring up the last frame (a new object, or the same object with its
        columns replaced) and run discovery (rex on) + verify_df from the
        dict + detect_df from the .tdda file on it.  Returns the Res of the
        LAST frame's operations only."""
        df = None
        keep = []
        scratch = Res()
        for fr in hist:
            if df is None or mode == 'new-frame':
                df = FA.build_frame(fr)
                keep.append(df)
            else:
                FA.mutate_into(df, fr)
            c, d = self.discover(scratch, fr, df, True, None)
            if c is not None:
                self.call(scratch, fr, df, d, d, 'verify', {'repair': True},
                          None, {})
        if df is None or mode == 'new-frame':
            df = FA.build_frame(frame)
        else:
            FA.mutate_into(df, frame)
        R = Res()
        sub = {'ops': 'last-frame'}
        c, d = self.discover(R, frame, df, True, sub)
        if c is not None:
            if sum(len(fc) for fc in d['fields'].values()) > len(d['fields']):
                R.nontrivial = True
            extra = {'frame': FA.describe(frame),
                     'constraints': _j(d['fields'])}
            self.call(R, frame, df, d, d, 'verify', {'repair': True}, sub,
                      extra)
            with open(self.tddapath, 'w', encoding='utf-8') as f:
                f.write(c.to_json())
            self.call(R, frame, df, d, self.tddapath, 'detect',
                      {'repair': False, 'outpath': self.outpath}, sub, extra)
        R.evals += scratch.evals
        R.transitions += scratch.transitions
        self.reset()
        return R

    def run_frame_histories(self, case):
        """Differential: a violation on the last frame that does not occur
        when the same operations run on it from a fresh state is caused by
        what the process did before -> history-dependent:<mode>:<sig>."""
        fresh = self.in_child(self.child_frame_ops, [], case['frame'],
                              'new-frame')
        fresh_sigs = set(v['sig'] for v in fresh.violations)
        R = fresh
        R.states = 1
        for i, hist in enumerate(case['hists']):
            H = self.in_child(self.child_frame_ops, hist, case['frame'],
                              case['mmode'])
            R.evals += H.evals
            R.transitions += H.transitions
            R.checked += H.checked
            R.states += len(hist) + 1
            hs = set(v['sig'] for v in H.violations)
            R.out('e3f:%s:%s' % (case['mmode'], 'same-as-fresh'
                                 if hs == fresh_sigs else 'differs'))
            for v in H.violations:
                if v['sig'] in fresh_sigs:
                    continue
                d = dict(v['detail'] or {})
                d['history'] = [FA.describe(fr) for fr in hist]
                d['mode'] = case['mmode']
                d['from_fresh_state'] = sorted(fresh_sigs) or 'no violation'
                parts = v['sig'].split(':')
                aspect = ':'.join(parts[:2] if parts[0] == 'fails-own'
                                  else parts[:1])
                d['violation_after_history'] = v['sig']
                R.viol('history-dependent:%s:%s' % (case['mmode'], aspect),
                       'same-verdicts-as-from-fresh-state', d,
                       {'history': i})
            if fresh_sigs - hs:
                R.viol('history-dependent:%s:violation-disappears'
                       % case['mmode'], 'same-verdicts-as-from-fresh-state',
                       {'history': [FA.describe(fr) for fr in hist],
                        'frame': FA.describe(case['frame']),
                        'only_from_fresh_state': sorted(fresh_sigs - hs)},
                       {'history': i})
        R.nontrivial = True
        return R

    # -------------------------------------------------- E3 over one path
    def write_tdda(self, c, how='w'):
        """The documented way: constraints.to_json() written by the caller;
        'w' truncates the file in place, 'replace' moves a new file over
        it (what an atomic writer does)."""
        target = self.tddapath if how == 'w' else self.tddapath + '.new'
        with open(target, 'w', encoding='utf-8') as f:
            f.write(c.to_json())
        if how != 'w':
            os.replace(target, self.tddapath)

    def path_form(self, form):
        import pathlib
        return {'str': self.tddapath, 'Path': pathlib.Path(self.tddapath),
                'rel': os.path.basename(self.tddapath)}[form]

    def child_path_ops(self, hist, frame, spec):
        """In one process, ONE .tdda path: for every earlier frame discover
        it, write its constraints to the path and read the path (verify_df,
        detect_df or DatasetConstraints(loadpath=...)); then discover the
        last frame, rewrite the path and verify + detect the last frame
        against it.  -> (Res of the last frame's operations, observations
        [fn, passes, failures, verdicts] of the two last calls)."""
        from tdda.constraints.base import DatasetConstraints
        os.chdir(self.sandbox)              # for the relative form
        scratch = Res()
        for fr in hist:
            df = FA.build_frame(fr)
            c, d = self.discover(scratch, fr, df, True, None)
            if c is None:
                continue
            self.write_tdda(c, 'w')
            p1 = self.path_form(spec['f1'])
            if spec['first'] == 'load':
                self.quiet(DatasetConstraints, loadpath=p1)
                scratch.ev()
            else:
                kw = {'repair': True}
                if spec['first'] == 'detect':
                    kw['outpath'] = self.outpath
                self.call(scratch, fr, df, d, p1, spec['first'], kw, None,
                          {})
        df = FA.build_frame(frame)
        R = Res()
        obs = []
        sub = {'ops': 'last-frame'}
        c, d = self.discover(R, frame, df, True, sub)
        if c is not None:
            if sum(len(fc) for fc in d['fields'].values()) > len(d['fields']):
                R.nontrivial = True
            extra = {'frame': FA.describe(frame), 'path': spec,
                     'constraints': _j(d['fields'])}
            self.write_tdda(c, spec['write'])
            p2 = self.path_form(spec['f2'])
            self.call(R, frame, df, d, p2, 'verify', {'repair': True},
                      dict(sub, fn='verify'), extra)
            obs.append(self.last_obs)
            self.call(R, frame, df, d, p2, 'detect',
                      {'repair': False, 'outpath': self.outpath},
                      dict(sub, fn='detect'), extra)
            obs.append(self.last_obs)
        R.evals += scratch.evals
        R.transitions += scratch.transitions
        self.reset()
        return R, obs

    def run_path_histories(self, case):
        """Differential: what verify_df / detect_df report for the last
        frame against the rewritten path must be what they report when the
        process has never read that path before."""
        spec = case['spec']
        fresh = self.in_child(self.child_path_ops, [], case['frame'], spec)
        if isinstance(fresh, Res):          # tdda exception escaped
            return fresh
        R, fobs = fresh
        fresh_sigs = set(v['sig'] for v in R.violations)
        R.states = 1
        tag = 'path-rewritten'
        for i, hist in enumerate(case['hists']):
            H = self.in_child(self.child_path_ops, hist, case['frame'], spec)
            H, hobs = H if isinstance(H, tuple) else (H, None)
            R.evals += H.evals
            R.transitions += H.transitions
            R.checked += H.checked
            R.states += len(hist) + 1
            hs = set(v['sig'] for v in H.violations)
            same = hs == fresh_sigs and hobs == fobs
            R.out('e3p:%s>%s:%s:%s:%s' % (
                spec['f1'], spec['f2'], spec['first'], spec['write'],
                'same-as-fresh' if same else 'differs'))
            if same:
                continue
            d = {'history': [FA.describe(fr) for fr in hist],
                 'frame': FA.describe(case['frame']), 'path': spec,
                 'steps': 'for each earlier frame: discover_df(rex), write '
                          'to_json() to P, %s reads P; then discover_df on '
                          'the last frame, rewrite P (%s), verify_df(df, P), '
                          'detect_df(df, P)' % (spec['first'], spec['write']),
                 'from_fresh_state': sorted(fresh_sigs) or 'no violation',
                 'after_history': sorted(hs) or 'no violation',
                 'observed_after_history': hobs,
                 'observed_from_fresh_state': fobs}
            new = sorted(hs - fresh_sigs)
            if new:
                parts = new[0].split(':')
                aspect = ':'.join(parts[:2] if parts[0] in (
                    'fails-own', 'no-verdict') else parts[:1])
            elif fresh_sigs - hs:
                aspect = 'violation-disappears'
            else:
                aspect = 'verdicts-differ'
            # the root cause lies in how the path is remembered, not in
            # which constraint of the stale / mixed-up contents fails: the
            # signature names the path forms and the rewrite mode only
            d['first_difference'] = aspect
            R.viol('history-dependent:%s:%s:%s' % (
                tag, 'same-form' if spec['f1'] == spec['f2']
                else '%s-then-%s' % (spec['f1'], spec['f2']),
                'in-place' if spec['write'] == 'w' else 'replaced'),
                'same-verdicts-as-from-fresh-state', d, {'history': i})
        R.nontrivial = True
        return R

    def in_child(self, fn, *args):
        try:
            return FF.run_fresh(fn, *args)
        except FF.TddaEscaped as e:
            R = Res()
            R.ev()
            R.nontrivial = True
            R.out('uncaught:%s' % e.tname)
            R.viol('uncaught:%s' % e.tname, 'no-internal-error',
                   {'exception': e.rep, 'traceback': e.tb})
            return R

    def child_case(self, case):
        R = Res()
        # rexpy samples (global PRNG) beyond 100 distinct strings: fix the
        # state the child starts from so that explorer and replay agree
        random.seed(20260927)
        if case['mode'] == 'e1':
            self.run_e1(R, case['frame'], case.get('rex') or (False, True),
                        bool(case.get('pairwise')))
        else:
            self.run_e3(R, case['frame'], case['depth'])
        self.reset()
        return R

    def run_case(self, case):
        if case['mode'] == 'fh':
            return self.run_frame_histories(case)
        if case['mode'] == 'ph':
            return self.run_path_histories(case)
        return self.in_child(self.child_case, case)


def frame_state(df):
    """Canonical, hashable content of a frame: column names, dtypes, index
    and cell reprs (what a later operation can observe)."""
    h = hashlib.blake2b(digest_size=12)
    h.update(repr([(str(c), str(df[c].dtype)) for c in df.columns]
                  ).encode('utf-8'))
    h.update(repr(list(df.index)).encode('utf-8'))
    for c in df.columns:
        h.update(repr(list(df[c].astype(object))).encode('utf-8', 'replace'))
    return h.hexdigest()


def state_key(df, d):
    return (frame_state(df),
            json.dumps(_j(d['fields']), sort_keys=True, ensure_ascii=True))


def _j(x):
    if isinstance(x, dict):
        return dict((str(k), _j(v)) for k, v in x.items())
    if isinstance(x, (list, tuple)):
        return [_j(y) for y in x]
    if isinstance(x, float) and (x != x or x in (float('inf'),
                                                 float('-inf'))):
        return repr(x)
    if isinstance(x, (str, int, float, bool)) or x is None:
        return x
    return repr(x)


CHECK = C01()
