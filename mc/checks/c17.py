"""
C17 - the tdda command line gives the same constraints, verdicts and detection
output as the library; discover -> verify closes with 0 failures; erroneous
invocations end non-zero and leave no file behind.

E1 over (table, file format, subcommand, flag set, input / constraints /
output mode).  The REAL entry point tdda.constraints.console.main_with_argv
is called in-process in a fresh sandbox directory (stdout/stderr/stdin
redirected, SystemExit captured); a defined subset is also run as a real
`python -m tdda.constraints.console` subprocess and bound to the in-process
observation.

Oracle: models/cli_spec.py (written from the help text, no tdda code, no
argparse) turns the command line into (verdict, files, library keywords);
the reference result is the library called directly (discover_df / verify_df
/ detect_df) with those keywords on the frame loaded from the same file.

E3 (layers history2 / history3): the same observation after one or two other
commands have run in the same process on the same file; differential clause:
what ran before does not change the result.
"""
import contextlib
import csv
import io
import itertools
import json
import os
import re
import shutil
import subprocess
import sys
import tempfile

from mc.engine import Check, Res
from mc.models import cli_spec

# --------------------------------------------------------------- alphabet
# column = [name, kind, values]; None = null; dates as ISO text; 'inf'/'-inf'

_D = ['1999-12-31', '2000-01-01', '2000-02-29']
_DT = ['1999-12-31 23:59:59', '2000-01-01 00:00:00', '2000-02-29 12:00:00']

TABLES = [
    ['T01', [['i', 'int', [1, 2, 3]]]],
    ['T02', [['i', 'int', [-4, 0, 3, 3]]]],
    ['T03', [['f', 'float', [1.5, None, 2.0, 3.25]]]],
    ['T04', [['f', 'float', [1.0, 2.0, 100.0]]]],
    ['T05', [['f', 'float', [-100.0, -2.0, -1.0]]]],
    ['T06', [['i', 'int', [10, 20, 200]], ['f', 'float', [0.5, None, -0.25]]]],
    ['T07', [['b', 'bool', [True, False, True]]]],
    ['T08', [['bo', 'boolobj', [True, None, False]], ['i', 'int', [5, 6, 7]]]],
    ['T09', [['I', 'Int64', [1, None, 300]]]],
    ['T10', [['ss', 'string', ['a', 'é²', None, 'x y']]]],
    ['T11', [['sc', 'cat', ['a', 'é²', None, 'a']]]],
    ['T12', [['so', 'strobj', ['ab', 'B1', None, 'cd']], ['i', 'int', [1, 1, 2, 3]]]],
    ['T13', [['do', 'date', [_D[1], None, _D[0], _D[2]]]]],
    ['T14', [['dn', 'dtns', [_DT[1], _DT[0], _DT[2]]]]],
    ['T15', [['du', 'dtus', [_DT[2], None, _DT[0]]], ['f', 'float', [2.0, 4.0, 8.0]]]],
    ['T16', [['i', 'int', [7, 8, 9]], ['ss', 'string', ['ab', 'cd', 'ab']],
             ['dn', 'dtns', [_DT[0], _DT[0], _DT[1]]]]],
    ['T17', [['é', 'float', [1.25, 2.5, 1000.0]], ['b c', 'int', [-3, -2, -1]]]],
    ['T18', [['a', 'int', [1, 5, 9]], ['a_min_ok', 'int', [0, 1, 0]],
             ['min', 'float', [0.0, None, 1.0]]]],
    ['T19', [['i', 'int', []], ['f', 'float', []]]],
    ['T20', [['f', 'float', [None, None]], ['i', 'int', [0, 0]]]],
    ['T21', [['ss', 'string', ["o'q", 'a,b', '"x"', 'p\\q']], ['i', 'int', [1, 2, 3, 4]]]],
    ['T22', [['i', 'int', [-(2 ** 63) + 1, -1, 2 ** 62]]]],
    ['T23', [['f', 'float', ['inf', '-inf', 1.0]], ['g', 'float', [3.0, 2.0, 1.0]]]],
    ['T24', [['ss', 'string', ['v%02d' % k for k in range(21)] + [None]]]],
]
TABLE = dict((t[0], t[1]) for t in TABLES)
TIDS = [t[0] for t in TABLES]
# tables used where the flag dimension is widest (pairs / triples of flags):
# every column kind appears in at least one of them
CORE = ['T04', 'T06', 'T08', 'T10', 'T13', 'T16', 'T17', 'T18']
FMTS = ['csv', 'parquet']

STRINGY = ('string', 'cat', 'strobj')
DATEY = ('date', 'dtns', 'dtus')


def build_frame(tid):
    import numpy as np
    import pandas as pd
    import datetime
    cols = {}
    n = None
    for name, kind, vals in TABLE[tid]:
        n = len(vals)
        if kind == 'int':
            s = pd.Series(vals, dtype='int64')
        elif kind == 'Int64':
            s = pd.Series(pd.array(vals, dtype='Int64'))
        elif kind == 'float':
            s = pd.Series([np.nan if v is None else float(v) for v in vals],
                          dtype='float64')
        elif kind == 'bool':
            s = pd.Series(vals, dtype='bool')
        elif kind in ('boolobj', 'strobj'):
            s = pd.Series(vals, dtype=object)
        elif kind == 'string':
            s = pd.Series(vals, dtype='string')
        elif kind == 'cat':
            s = pd.Series(pd.Categorical(vals))
        elif kind == 'date':
            s = pd.Series([None if v is None else
                           datetime.date.fromisoformat(v) for v in vals],
                          dtype=object)
        elif kind in ('dtns', 'dtus'):
            unit = 'ns' if kind == 'dtns' else 'us'
            s = pd.Series(pd.to_datetime(
                [None if v is None else v for v in vals],
                format='%Y-%m-%d %H:%M:%S')).astype('datetime64[%s]' % unit)
        else:
            raise ValueError(kind)
        cols[name] = s
    return pd.DataFrame(cols)


def tight_constraints(tid):
    """A hand-derived constraint set that the table violates in several
    ways, with a `max` that only passes with --epsilon 0.01 and (for whole
    valued real columns) a `type: int` that only passes when sloppy."""
    fields = {}
    for name, kind, vals in TABLE[tid]:
        nn = [v for v in vals if v is not None]
        c = {}
        if kind in ('int', 'Int64', 'float'):
            nums = [float(v) if kind == 'float' else v for v in nn]
            fin = [v for v in nums if v not in (float('inf'), float('-inf'))]
            whole = all(float(v) == int(v) for v in fin) if fin else False
            c['type'] = 'int' if (kind != 'float' or whole) else 'real'
            if len(fin) >= 2:
                c['min'] = sorted(fin)[1]
            if fin:
                mx = max(fin)
                c['max'] = (mx / 1.005 if mx > 0 else mx * 1.005
                            if mx < 0 else 0)
            c['sign'] = 'positive'
            c['max_nulls'] = 0
            if kind != 'float':
                c['no_duplicates'] = True
        elif kind in ('bool', 'boolobj'):
            c = {'type': 'bool', 'max_nulls': 0}
        elif kind in STRINGY:
            c = {'type': 'string', 'min_length': 2, 'max_length': 2,
                 'max_nulls': 0, 'no_duplicates': True,
                 'allowed_values': nn[:1], 'rex': ['^[a-z]+$']}
        elif kind in DATEY:
            c = {'type': 'date', 'max_nulls': 0}
            if len(nn) >= 2:
                c['min'] = sorted(nn)[1]
                c['max'] = sorted(nn)[-2]
        fields[name] = c
    fields['zz_absent'] = {'type': 'int', 'max_nulls': 0}
    return {'fields': fields}


# Constraint sets that did NOT come from the file itself (another extract, a
# hand-edited .tdda): every column is declared with the SAME type `kind`,
# whatever its dtype is.  cons = 'ty:<kind>:<variant>'.  '+' = a type list.
TYPE_KINDS = ['bool', 'int', 'real', 'string', 'date', 'int+real']
TYPE_VARIANTS = ['plain', 'limits']


def retyped_constraints(tid, kind, variant):
    """type `kind` declared for every column; variant 'limits' adds the
    column's own numeric min / max (int limits for whole-number kinds, real
    ones for float columns), a null limit and, for a declared string, length
    limits and allowed values (text of the column's first two values)."""
    fields = {}
    for name, ckind, vals in TABLE[tid]:
        c = {'type': kind.split('+') if '+' in kind else kind}
        if variant == 'limits':
            nn = [v for v in vals if v is not None]
            if ckind in ('int', 'Int64', 'float'):
                nums = [float(v) if ckind == 'float' else v for v in nn]
                fin = [v for v in nums
                       if v not in (float('inf'), float('-inf'))]
                if fin:
                    c['min'] = min(fin)
                    c['max'] = max(fin)
            c['max_nulls'] = 0
            if kind == 'string':
                c['min_length'] = 1
                c['max_length'] = 3
                c['allowed_values'] = [str(v) for v in nn[:2]]
        fields[name] = c
    return {'fields': fields}


def constraints_doc(tid, cons):
    """the hand-written constraint documents ('own' comes from the CLI)"""
    if cons == 'tight':
        return tight_constraints(tid)
    if cons.startswith('ty:'):
        _, kind, variant = cons.split(':')
        return retyped_constraints(tid, kind, variant)
    raise ValueError(cons)


# ------------------------------------------------------------ flag alphabets

DISCOVER_FLAGS = [[], ['-r'], ['-R'], ['--rex'], ['--norex'], ['-7'],
                  ['-r', '-7'], ['-r', '-R']]

VERIFY_SHORT = [['-a'], ['-f'], ['-7'], ['--epsilon', '0.01'],
                ['-t', 'strict'], ['-t', 'sloppy']]
VERIFY_LONG = [['--all'], ['--fields'], ['--ascii'], ['--epsilon', '0'],
               ['--type_checking', 'strict'], ['--type_checking', 'sloppy'],
               ['--epsilon', '0.5']]

DETECT_OWN = [['--write-all'], ['--per-constraint'], ['--no-per-constraint'],
              ['--output-fields', '@0'], ['--output-fields'],
              ['--no-output-fields'], ['--index'], ['--int'],
              ['--interleave']]
DETECT_SHARED = [['-7'], ['--epsilon', '0.01'], ['-t', 'strict']]
DETECT_EXTRA = [['--output-fields', '@0', '@1'], ['--output-fields', '@1', '@0'],
                ['-t', 'sloppy'], ['--ascii'], ['--epsilon', '0'],
                ['-a'], ['-f']]

# flags combined with every ordered list of names given to --output-fields
OUTFIELD_WITH = [[], ['--no-per-constraint'], ['--index'], ['--interleave'],
                 ['--write-all']]

# Histories: commands run BEFORE the observed one, in the same process, on
# the same file (console.main_with_argv is the documented in-process entry;
# the statement gives every invocation the same meaning whatever ran before).
# step = {cmd, flags, cons, out, data}; data='other' = the step runs while
# the file (same name) still holds another table, and is rewritten afterwards.
def hstep(cmd, cons=None, flags=(), out=None, data=None):
    s = {'cmd': cmd, 'flags': [list(g) for g in flags]}
    if cons is not None:
        s['cons'] = cons
    if out is not None:
        s['out'] = out
    if data is not None:
        s['data'] = data
    return s


H_STEPS = [
    hstep('discover', out='file'),
    hstep('discover', flags=[['-r']], out='-'),
    hstep('discover', out='-', data='other'),
    hstep('verify', 'own'),
    hstep('verify', 'tight'),
    hstep('verify', 'ty:bool:plain'),
    hstep('verify', 'ty:string:limits'),
    hstep('detect', 'tight', out='csv'),
    hstep('detect', 'ty:bool:plain', out='csv'),
    hstep('detect', 'ty:string:plain', flags=[['--write-all']], out='parquet'),
]
# the steps used where two of them precede the observed command
H_STEPS2 = [H_STEPS[i] for i in (0, 3, 5, 6, 7)]
# observed (last) commands: keyword arguments of case()
H_FINALS = [
    dict(cmd='discover', out='file'),
    dict(cmd='discover', flags=[['-r']], out='-'),
    dict(cmd='verify', cons='own'),
    dict(cmd='verify', cons='tight'),
    dict(cmd='verify', cons='ty:bool:plain'),
    dict(cmd='detect', cons='tight', out='csv'),
    dict(cmd='detect', cons='own', out='csv'),
    dict(cmd='detect', cons='ty:string:plain', out='-'),
]
H_FINALS2 = [H_FINALS[i] for i in (0, 2, 3, 6)]


def hcase(t, fmt, pre, fin):
    fin = dict(fin)
    c = case(fin.pop('cmd'), t, fmt, fin.pop('flags', ()), **fin)
    c['pre'] = [dict(s) for s in pre]
    return c


def step_label(s):
    lab = s['cmd']
    if s.get('cons'):
        lab += '(%s)' % s['cons']
    if s.get('data'):
        lab += '@' + s['data']
    return lab


def _optname(group):
    return group[0] if group else ''


def subsets(groups, k):
    """all sets of exactly k flag groups with pairwise different option
    (the same option twice is never generated)"""
    for comb in itertools.combinations(range(len(groups)), k):
        gs = [groups[i] for i in comb]
        names = [cli_spec.GRAMMAR['detect'].get(_optname(g), (g[0],))[0]
                 for g in gs]
        if len(set(names)) < len(names):
            continue
        yield gs


UNKNOWN_FLAGS = [['--bogus'], ['-Z'], ['--no-such-flag', 'x']]


def case(cmd, t, fmt, flags=(), inp='file', cons='tight', cmode='explicit',
         out=None, pos='before', route='in', name='data'):
    return {'cmd': cmd, 't': t, 'fmt': fmt, 'flags': [list(g) for g in flags],
            'inp': inp, 'cons': cons, 'cmode': cmode, 'out': out, 'pos': pos,
            'route': route, 'name': name}


DEFAULT_OUT = {'discover': 'file', 'verify': None, 'detect': 'csv'}


# ------------------------------------------------------------- observations

def _exit_code(e):
    c = e.code
    if c is None:
        return 0
    if isinstance(c, int):
        return c
    return 1


RE_TOTALS = re.compile(r'Constraints passing: (\d+)\s+Constraints failing: (\d+)')
RE_RECORDS = re.compile(r'Records passing: (\d+)\s+Records failing: (\d+)')


class C17(Check):
    pid = 'C17'
    title = 'the tdda command line agrees with the library'
    technique = ('bounded exhaustive enumeration of (table, file format, '
                 'subcommand, flag set, input/constraints/output mode) on the '
                 'real console entry point, in-process and as a subprocess, '
                 'against the library driven by an independent '
                 'flag->keyword model')
    rule = ('cases = 24 tables (int/float/bool/nullable-int/date/datetime/'
            'string-dtype/categorical/object-string columns, nulls, unicode '
            'values and column names, names colliding with detection columns, '
            'zero rows, 22 rows, inf, 2**62) x {csv, parquet} x: discover {8 '
            'flag sets} x input {file, stdin} x output {file, -, omitted}, '
            'each followed by `tdda verify` of the same file against what was '
            'written; verify {every set of <=2 (quick) / <=3 (thorough) of 6 '
            'short flags, 7 long forms} x constraints {hand-derived violated '
            'set, set just discovered by the CLI} x {explicit, implied '
            '<stem>.tdda} x input {file, stdin}; detect {every set of <=1 of '
            '12 (thorough 19) flags on every table, every pair on 8 core '
            'tables (thorough: all tables, and every triple on the core '
            'tables)} x output {csv, parquet, -, omitted} x constraints '
            '{violated, own, implied} x input {file, stdin}; error menu '
            '(missing input; missing / implied-missing / underivable '
            'constraints; 3 unknown flags before and after the positionals; '
            'detect-only flags given to verify/discover; 2 contradictory '
            'pairs in both orders) alone and with one valid flag; verify / '
            'detect against hand-written constraints that declare ONE type '
            '(bool, int, real, string, date, [int, real]) for every column '
            'whatever its dtype, plain or with the column\'s own limits, x '
            '{csv, parquet, stdin} x {explicit, implied} x output x {-, -t '
            'sloppy}; detect --output-fields with every ordered list of 2 / 3 '
            'column names x 5 flag sets x 3 outputs; histories: 1 (every '
            'table) or 2 (core tables) earlier commands out of 10 (discover, '
            'verify, detect with own / violated / re-typed constraints, the '
            'file rewritten in between) run in the same process on the same '
            'file before each of 8 observed commands; a defined '
            'subset re-run as real `python -m tdda.constraints.console` '
            'subprocesses; thorough adds unicode/space and absolute file '
            'names, flags after the positionals, stale output files. '
            'non-trivial = an error-menu entry, or a valid invocation whose '
            'library reference carries at least one discovered constraint / '
            'constraint verdict')
    assumptions = [
        'pinned pandas 3.0.6 / pyarrow 25: text columns read from CSV (and '
        'object-string columns read from parquet) get dtype `str`, which '
        'tdda types as `other` (no constraints) on both routes; string '
        'constraints are exercised through `string`-dtype and categorical '
        'parquet columns',
        'reference frame = pandas reader with the documented settings '
        '(constraints.txt "Constraints for CSV Files") when it equals '
        'tdda.load_df on that file, otherwise load_df (counted unspecified: '
        'date inference is documented only loosely)',
        'unspecified: -r with -R, -a with -f (report shape only), -a/-f on '
        'detect (report shape only), detect with the output parameter '
        'omitted (the two documents disagree), --output-fields without names '
        'together with --no-output-fields, the same option twice, a metadata '
        'file next to the CSV, flags that are accepted but undocumented '
        '(-epsilon, argparse abbreviations), --no-original-fields (listed in '
        'the help epilog but not accepted)',
        'a library exception on the loaded frame is compared as "the command '
        'must fail too"; the defect behind it belongs to C01/C06',
        'an exception escaping main_with_argv counts as exit status 1 (what '
        'the interpreter does); bound to real subprocesses in layer subproc',
        'a documented, valid invocation must end with status 0 (clause '
        'valid-invocation-succeeds): read from the second sentence of the '
        'statement, which reserves non-zero status for erroneous invocations',
        'histories: console.main_with_argv is the documented in-process '
        'entry point (tdda\'s own command-line tests call it repeatedly in '
        'one process); the statement gives an invocation one meaning '
        'whatever ran before it, so the observed command after a history is '
        'compared with the same reference as alone (library on a frame '
        'loaded before any command ran). The results of the earlier '
        'commands are not looked at there (they are observed as single '
        'commands in the other layers)',
        'constraints that declare another type than the column has: the '
        'reference is the library with its documented default (repair=True '
        'for every input, the command line documents no way to change it); '
        'what repair then does to the verdicts belongs to C06',
        'file names: data.<ext> in the sandbox cwd (thorough: also a name '
        'with a space and a non-ASCII letter, and absolute paths)',
    ]

    def hashseeds(self, tier, verif_seed):
        return [verif_seed % 3] if tier == 'quick' else [0]

    # ------------------------------------------------------------- layers
    def layers(self, tier):
        L = [('base', 'no flags, default modes: every table x format x command'),
             ('discover', 'discover: flag sets x input x output'),
             ('verify1', 'verify: <=1 flag x constraints x explicit/implied x input'),
             ('detect1', 'detect: <=1 flag x output x constraints/input modes'),
             ('errors', 'error menu'),
             ('verify2', 'verify: 2 flags'),
             ('detect2', 'detect: 2 flags (core tables)'),
             ('types', 'verify/detect: constraints declaring another type '
                       'than the column has (6 kinds x 2 variants)'),
             ('outfields', 'detect --output-fields: every ordered list of '
                           '2 / 3 column names'),
             ('history2', 'one earlier command on the same file in the same '
                          'process, then the observed command'),
             ('history3', 'two earlier commands (core tables)'),
             ('subproc', 'real subprocess bound to the in-process route')]
        if tier == 'thorough':
            L += [('names', 'unicode/space file name, absolute paths, flags after positionals'),
                  ('stale', 'detect onto an output file that already exists'),
                  ('discover+', 'discover: every flag set from stdin'),
                  ('verify1+', 'verify: long flag forms in every mode'),
                  ('detect1+', 'detect: further single flags / values'),
                  ('verify2+', 'verify: 2 flags, implied constraints and own constraints from stdin'),
                  ('detect2+', 'detect: 2 flags to parquet and stdout (core tables)'),
                  ('verify3', 'verify: 3 flags'),
                  ('detect2all', 'detect: 2 flags on the remaining tables'),
                  ('detect3', 'detect: 3 flags (core tables)'),
                  ('subproc2', 'wider real-subprocess subset')]
        return L

    def cases(self, tier, layer):
        T, F = TIDS, FMTS
        if layer == 'base':
            for t in T:
                for fmt in F:
                    yield case('discover', t, fmt, out='file')
                    yield case('verify', t, fmt, cons='tight')
                    yield case('verify', t, fmt, cons='own')
                    yield case('detect', t, fmt, cons='tight', out='csv')
        elif layer in ('discover', 'discover+'):
            plus = layer.endswith('+')
            for t in T:
                for fmt in F:
                    for fl in DISCOVER_FLAGS:
                        for out in ('file', '-', None):
                            for inp in ('file', 'stdin'):
                                if inp == 'stdin' and fmt != 'csv':
                                    continue
                                if not fl and out == 'file' and inp == 'file':
                                    continue
                                wide = inp == 'stdin' and fl not in DISCOVER_FLAGS[:3]
                                if wide != plus:
                                    continue
                                yield case('discover', t, fmt, [fl] if fl else [],
                                           inp=inp, out=out)
        elif layer in ('verify1', 'verify1+', 'verify2', 'verify2+', 'verify3'):
            k = int(layer[6])
            plus = layer.endswith('+')
            if k == 1:
                sets = [[]] + [[g] for g in VERIFY_SHORT + VERIFY_LONG]
            elif k == 2:
                sets = list(subsets(VERIFY_SHORT, 2))
            else:
                sets = list(subsets(VERIFY_SHORT + VERIFY_LONG[:3], 3))
            for t in T:
                for fmt in F:
                    for fs in sets:
                        longform = k == 1 and fs and fs[0] in VERIFY_LONG
                        for cons in ('tight', 'own'):
                            for cmode in ('explicit', 'implied'):
                                if k == 1 and not fs and cmode == 'explicit':
                                    continue       # in layer base
                                wide = ((longform or k == 3) and
                                        (cons, cmode) != ('tight', 'explicit')) \
                                    or (k == 2 and cmode == 'implied')
                                if k != 3 and wide != plus:
                                    continue
                                if k == 3 and wide:
                                    continue
                                yield case('verify', t, fmt, fs, cons=cons,
                                           cmode=cmode)
                            if fmt == 'csv':
                                wide = longform or (k == 2 and cons == 'own')
                                if k == 3 or wide != plus:
                                    continue
                                yield case('verify', t, fmt, fs, inp='stdin',
                                           cons=cons)
        elif layer in ('detect1', 'detect1+'):
            if layer == 'detect1':
                singles = [[]] + [[g] for g in DETECT_OWN + DETECT_SHARED]
            else:
                singles = [[g] for g in DETECT_EXTRA]
            for t in T:
                for fmt in F:
                    for fs in singles:
                        for out in ('csv', 'parquet', '-', None):
                            if not fs and out == 'csv':
                                continue           # in layer base
                            yield case('detect', t, fmt, fs, out=out)
                        yield case('detect', t, fmt, fs, cmode='implied', out=None)
                        yield case('detect', t, fmt, fs, cons='own', out='csv')
                        if fmt == 'csv':
                            yield case('detect', t, fmt, fs, inp='stdin', out='csv')
                            yield case('detect', t, fmt, fs, inp='stdin', out='-')
        elif layer in ('detect2', 'detect2+', 'detect2all', 'detect3'):
            k = 3 if layer == 'detect3' else 2
            tabs = [t for t in T if t not in CORE] if layer == 'detect2all' else CORE
            outs = {'detect2': ('csv',), 'detect2+': ('parquet', '-'),
                    'detect2all': ('csv', '-'), 'detect3': ('csv', '-')}[layer]
            for t in tabs:
                for fmt in F:
                    for fs in subsets(DETECT_OWN + DETECT_SHARED, k):
                        for out in outs:
                            yield case('detect', t, fmt, fs, out=out)
        elif layer == 'errors':
            for c in self.error_cases(tier):
                yield c
        elif layer == 'types':
            for t in T:
                for fmt in F:
                    for kind in TYPE_KINDS:
                        for var in TYPE_VARIANTS:
                            cons = 'ty:%s:%s' % (kind, var)
                            for fs in ([], [['-t', 'sloppy']]):
                                yield case('verify', t, fmt, fs, cons=cons)
                                yield case('detect', t, fmt, fs, cons=cons,
                                           out='csv')
                            yield case('verify', t, fmt, [], cons=cons,
                                       cmode='implied')
                            yield case('detect', t, fmt, [], cons=cons,
                                       out='parquet')
                            yield case('detect', t, fmt, [['--write-all']],
                                       cons=cons, out='-')
                            if fmt == 'csv':
                                yield case('verify', t, fmt, [], inp='stdin',
                                           cons=cons)
                                yield case('detect', t, fmt, [], inp='stdin',
                                           cons=cons, out='csv')
        elif layer == 'outfields':
            for t in T:
                ncol = len(TABLE[t])
                if ncol < 2:
                    continue
                lists = [p for k in (2, 3) if k <= ncol
                         for p in itertools.permutations(range(ncol), k)]
                for fmt in F:
                    for p in lists:
                        of = ['--output-fields'] + ['@%d' % i for i in p]
                        for w in OUTFIELD_WITH:
                            for out in ('csv', 'parquet', '-'):
                                yield case('detect', t, fmt,
                                           [of] + ([w] if w else []), out=out)
        elif layer == 'history2':
            for t in T:
                for fmt in F:
                    for st in H_STEPS:
                        for fin in H_FINALS:
                            yield hcase(t, fmt, [st], fin)
        elif layer == 'history3':
            for t in CORE:
                for fmt in F:
                    for s1 in H_STEPS2:
                        for s2 in H_STEPS2:
                            for fin in H_FINALS2:
                                yield hcase(t, fmt, [s1, s2], fin)
        elif layer == 'stale':
            for t in T:
                for fmt in F:
                    for cons in ('tight', 'own'):
                        for out in ('csv', 'parquet'):
                            for fs in ([], [['--write-all']]):
                                yield dict(case('detect', t, fmt, fs, cons=cons,
                                                out=out), stale=True)
        elif layer == 'names':
            for t in CORE:
                for fmt in F:
                    for name in ('dä t', 'ABS'):
                        for c in self.name_cases(t, fmt, name):
                            yield c
        elif layer in ('subproc', 'subproc2'):
            for c in self.subproc_cases(layer):
                yield c

    def error_cases(self, tier):
        extra = [[], ['-7']]
        for t in TIDS:
            for fmt in FMTS:
                for ex in extra:
                    exd = [ex] if ex else []
                    # missing input
                    for out in ('file', '-', None):
                        yield case('discover', t, fmt, exd, inp='missing', out=out)
                    yield case('verify', t, fmt, exd, inp='missing')
                    yield case('verify', t, fmt, exd, inp='missing', cmode='implied')
                    for out in ('csv', 'parquet'):
                        yield case('detect', t, fmt, exd, inp='missing', out=out)
                    # missing constraints file (explicit name / implied / stdin)
                    for cmode in ('explicit', 'implied'):
                        yield case('verify', t, fmt, exd, cons='absent', cmode=cmode)
                        for out in (('csv', 'parquet') if cmode == 'explicit'
                                    else (None,)):
                            yield case('detect', t, fmt, exd, cons='absent',
                                       cmode=cmode, out=out)
                    if fmt == 'csv':
                        yield case('verify', t, fmt, exd, inp='stdin',
                                   cons='absent', cmode='implied')
                        yield case('detect', t, fmt, exd, inp='stdin',
                                   cons='absent', cmode='implied', out=None)
                        yield case('detect', t, fmt, exd, inp='stdin',
                                   cons='absent', cmode='explicit', out='csv')
                    # unknown flags, before and after the positionals
                    for u in UNKNOWN_FLAGS:
                        for pos in ('before', 'after'):
                            if len(u) > 1 and pos == 'before':
                                continue   # its value would become a positional
                            yield case('discover', t, fmt, exd + [u], out='file', pos=pos)
                            yield case('verify', t, fmt, exd + [u], pos=pos)
                            yield case('detect', t, fmt, exd + [u], out='csv', pos=pos)
                    # contradictory pairs
                    for pair in ([['--per-constraint'], ['--no-per-constraint']],
                                 [['--no-per-constraint'], ['--per-constraint']],
                                 [['--no-output-fields'], ['--output-fields', '@0']]):
                        for out in ('csv', 'parquet', '-'):
                            yield case('detect', t, fmt, exd + pair, out=out)
                    # detect-only flags given to verify / discover are unknown there
                if fmt == 'csv':
                    yield case('verify', t, fmt, [['--write-all']])
                    yield case('verify', t, fmt, [['--index']])
                    yield case('discover', t, fmt, [['--epsilon', '0.01']],
                               out='file', pos='after')
                    yield case('discover', t, fmt, [['-a']], out='file')

    def name_cases(self, t, fmt, name):
        yield case('discover', t, fmt, [['-r']], out='file', name=name)
        yield case('discover', t, fmt, [], out='-', name=name)
        for cons in ('tight', 'own'):
            for cmode in ('explicit', 'implied'):
                yield case('verify', t, fmt, [['--epsilon', '0.01']], cons=cons,
                           cmode=cmode, name=name)
        for out in ('csv', 'parquet'):
            yield case('detect', t, fmt, [['--index']], out=out, name=name)
            yield case('detect', t, fmt, [['--output-fields', '@0']], out=out,
                       name=name)
        yield case('detect', t, fmt, [], inp='missing', out='csv', name=name)
        yield case('verify', t, fmt, [], cons='absent', cmode='implied', name=name)
        # flags after the positionals
        yield case('discover', t, fmt, [['-r']], out='file', pos='after')
        for fs in ([['-f']], [['--epsilon', '0.01'], ['-t', 'strict']]):
            yield case('verify', t, fmt, fs, pos='after')
        for fs in ([['--no-per-constraint']], [['--write-all'], ['--int']],
                   [['--no-output-fields'], ['--interleave']]):
            yield case('detect', t, fmt, fs, out='csv', pos='after')

    def subproc_cases(self, layer):
        if layer == 'subproc':
            tabs = [('T06', 'csv'), ('T16', 'parquet')]
        else:
            tabs = [(t, f) for t in CORE for f in FMTS
                    if (t, f) not in (('T06', 'csv'), ('T16', 'parquet'))]
        for t, fmt in tabs:
            S = dict(route='sub')
            yield case('discover', t, fmt, [], out='file', **S)
            yield case('discover', t, fmt, [['-r']], out='-', **S)
            yield case('verify', t, fmt, [], cons='tight', **S)
            yield case('verify', t, fmt, [['--epsilon', '0.01'], ['-7']],
                       cons='tight', cmode='implied', **S)
            yield case('verify', t, fmt, [['-t', 'strict'], ['-f']], cons='own', **S)
            yield case('detect', t, fmt, [], out='csv', **S)
            yield case('detect', t, fmt, [['--no-per-constraint'], ['--index']],
                       out='parquet', **S)
            yield case('detect', t, fmt, [['--write-all'], ['--int']], out='-', **S)
            yield case('detect', t, fmt, [['--output-fields', '@0']], out='csv', **S)
            yield case('detect', t, fmt, [['--output-fields', '@1', '@0']],
                       out='csv', **S)
            yield case('verify', t, fmt, [], cons='ty:string:limits', **S)
            yield case('detect', t, fmt, [], cons='ty:string:plain', out='csv', **S)
            if fmt == 'csv':
                yield case('verify', t, fmt, [], inp='stdin', cons='tight', **S)
                yield case('detect', t, fmt, [['--no-output-fields']],
                           inp='stdin', out='csv', **S)
                yield case('discover', t, fmt, [], inp='stdin', out=None, **S)
            # error menu
            yield case('discover', t, fmt, [], inp='missing', out='file', **S)
            yield case('verify', t, fmt, [], cons='absent', **S)
            yield case('detect', t, fmt, [], cons='absent', cmode='implied',
                       out=None, **S)
            yield case('detect', t, fmt, [['--bogus']], out='csv', **S)
            yield case('detect', t, fmt, [['--per-constraint'],
                                          ['--no-per-constraint']], out='csv', **S)

    # ------------------------------------------------------------- worker
    def setup_worker(self, tier):
        import warnings
        warnings.filterwarnings('ignore')
        import pandas as pd
        import tdda.constraints.console as console
        from tdda.constraints.pd import constraints as pdc
        self.pd = pd
        self.console = console
        self.pdc = pdc
        self.root = tempfile.mkdtemp(prefix='tdda_mc_c17_', dir='/var/tmp')
        self.home = os.getcwd()
        self.filecache = {}
        self.framecache = {}
        self.owncache = {}
        self.memo = {}
        self.tier = tier

    def teardown_worker(self):
        try:
            os.chdir(self.home)
        except Exception:
            pass
        shutil.rmtree(getattr(self, 'root', ''), ignore_errors=True)

    # -- sandbox ---------------------------------------------------------
    def fresh_dir(self):
        d = os.path.join(self.root, 'w')
        os.chdir(self.root)
        shutil.rmtree(d, ignore_errors=True)
        os.mkdir(d)
        os.chdir(d)
        return d

    def data_bytes(self, tid, fmt):
        k = (tid, fmt)
        if k not in self.filecache:
            df = build_frame(tid)
            p = os.path.join(self.root, 'tmp.' + fmt)
            if fmt == 'csv':
                df.to_csv(p, index=False)
            else:
                df.to_parquet(p, index=False)
            with open(p, 'rb') as f:
                self.filecache[k] = f.read()
            os.unlink(p)
        return self.filecache[k]

    @staticmethod
    def listing():
        out = []
        for base, dirs, files in os.walk('.'):
            for fn in files:
                out.append(os.path.normpath(os.path.join(base, fn)))
        return sorted(out)

    # -- the two routes ----------------------------------------------------
    def cli(self, argv, stdin_text, route):
        if route == 'sub':
            from mc import engine
            env = dict(os.environ)
            env['PYTHONPATH'] = engine.TDDA_SRC
            env['PYTHONDONTWRITEBYTECODE'] = '1'
            env['PYTHONIOENCODING'] = 'utf-8'
            env['PYTHONWARNINGS'] = 'ignore'
            keep = set(os.listdir('.'))
            for k in ('OMP_NUM_THREADS', 'OPENBLAS_NUM_THREADS',
                      'MKL_NUM_THREADS'):
                env[k] = '1'
            p = None
            for attempt in range(3):
                try:
                    p = subprocess.run([sys.executable, '-m',
                                        'tdda.constraints.console'] + argv,
                                       input=(stdin_text or '').encode('utf-8'),
                                       capture_output=True, env=env,
                                       timeout=120)
                except subprocess.TimeoutExpired:
                    p = None
                if p is not None and p.returncode >= 0:
                    break
                # killed by a signal (seen once as SIGABRT on a machine with
                # load average > 100): an accident of the environment, not
                # an exit status tdda chose; start again in a clean directory
                for fn in os.listdir('.'):
                    if fn not in keep:
                        os.unlink(fn)
            if p is None:
                return {'code': -1, 'exc': None, 'stdout': '', 'stderr': '',
                        'killed': True}
            err = p.stderr.decode('utf-8', 'replace')
            exc = None
            if 'Traceback (most recent call last)' in err:
                last = [l for l in err.strip().splitlines() if l.strip()][-1]
                exc = last.split(':')[0].split('.')[-1]
            return {'code': p.returncode, 'exc': exc,
                    'stdout': p.stdout.decode('utf-8', 'replace'),
                    'stderr': err[-400:], 'killed': p.returncode < 0}
        out, err = io.StringIO(), io.StringIO()
        old_stdin, old_argv = sys.stdin, sys.argv
        sys.stdin = io.StringIO(stdin_text or '')
        sys.argv = ['tdda'] + list(argv)
        code, exc = 0, None
        try:
            with contextlib.redirect_stdout(out), contextlib.redirect_stderr(err):
                try:
                    self.console.main_with_argv(['tdda'] + list(argv))
                except SystemExit as e:
                    code = _exit_code(e)
                except Exception as e:
                    code, exc = 1, type(e).__name__
        finally:
            sys.stdin, sys.argv = old_stdin, old_argv
        return {'code': code, 'exc': exc, 'stdout': out.getvalue(),
                'stderr': err.getvalue()[-400:]}

    def lib(self, fn):
        """run a library call; -> (value, exception name, stdout)"""
        out, err = io.StringIO(), io.StringIO()
        try:
            with contextlib.redirect_stdout(out), contextlib.redirect_stderr(err):
                v = fn()
            return v, None, out.getvalue()
        except Exception as e:
            return None, type(e).__name__, out.getvalue()

    def reference_frame(self, key, path, stdin_text, notes):
        """the DataFrame 'loaded from that file' as documented.  The bytes of
        a (table, format) never change, so the loaded frame is cached per
        worker and handed out as a copy (verify_df repairs in place)."""
        pd, pdc = self.pd, self.pdc
        if key in self.framecache:
            df, exc, same = self.framecache[key]
        else:
            src = (lambda: io.StringIO(stdin_text)) if stdin_text is not None \
                else (lambda: path)
            df, exc, _ = self.lib(lambda: pdc.load_df(src()))
            same = False
            if exc is None:
                try:
                    if stdin_text is None and path.lower().endswith('.parquet'):
                        own = pd.read_parquet(path)
                    else:
                        own = pd.read_csv(src(), index_col=None, quotechar='"',
                                          quoting=csv.QUOTE_MINIMAL,
                                          escapechar='\\',
                                          na_values=['', 'NaN', 'NULL'],
                                          keep_default_na=False)
                    same = (list(own.columns) == list(df.columns)
                            and [str(x) for x in own.dtypes]
                            == [str(x) for x in df.dtypes]
                            and own.equals(df))
                    if same:
                        df = own
                except Exception:
                    same = False
            if df is not None and not same:
                # a private copy: nothing the command line does later may
                # reach the reference through a shared object
                df = df.copy(deep=True)
            self.framecache[key] = (df, exc, same)
        if exc:
            return None, exc
        if not same:
            notes.append('loader-differs')
        return df.copy(deep=True), None

    # -- argv ---------------------------------------------------------------
    def build_argv(self, c, names):
        cols = [col[0] for col in TABLE[c['t']]]
        plain, variadic = [], []
        for g in c['flags']:
            g = [(cols[int(x[1:])] if int(x[1:]) < len(cols) else 'nosuchcol')
                 if (x.startswith('@') and x[1:].isdigit()) else x for x in g]
            if g and g[0] == '--output-fields':
                variadic.append(g)
            else:
                plain.append(g)
        posn = [names['input']]
        if c['cmd'] == 'discover':
            if c['out'] is not None:
                posn.append(names['output'])
        else:
            if c['cmode'] == 'explicit':
                posn.append(names['constraints'])
            if c['cmd'] == 'detect' and c['out'] is not None:
                # an output can only be named after a constraints file
                assert c['cmode'] == 'explicit', c
                posn.append(names['output'])
        flat = [x for g in plain for x in g]
        var = [x for g in variadic for x in g]
        if c['pos'] == 'after':
            return [c['cmd']] + posn + flat + var
        return [c['cmd']] + flat + posn + var

    # -- constraints files ------------------------------------------------
    def write_constraints(self, cpath, t, fmt, cons, datafile, O):
        """-> True, or the exception name that made `own` unavailable"""
        if cons != 'own':
            with open(cpath, 'w', encoding='utf-8') as f:
                json.dump(constraints_doc(t, cons), f, ensure_ascii=False,
                          indent=1)
            return True
        ok = (t, fmt)
        if ok not in self.owncache:
            r0 = self.cli(['discover', '-r', datafile, cpath], None, 'in')
            O['evals'] += 1
            txt = None
            if r0['code'] == 0 and os.path.exists(cpath):
                with open(cpath, encoding='utf-8') as f:
                    txt = f.read()
            self.owncache[ok] = (txt, r0['exc'])
        txt, r0exc = self.owncache[ok]
        if txt is None:
            return r0exc
        with open(cpath, 'w', encoding='utf-8') as f:
            f.write(txt)
        return True

    # -- history ------------------------------------------------------------
    def run_prefix(self, c, datafile, prefix, raw, O):
        """the commands that ran earlier in this process on the same file;
        their own results are observed elsewhere (as single commands) and are
        ignored here.  Files they write are named h<i>.*"""
        fmt = c['fmt']
        plan = []
        for i, st in enumerate(c['pre']):
            argv = [st['cmd']] + [x for g in st['flags'] for x in g]
            if st['cmd'] == 'discover':
                argv.append(datafile)
                if st.get('out') is not None:
                    argv.append('-' if st['out'] == '-'
                                else prefix + 'h%d.tdda' % i)
            else:
                cp = prefix + 'h%d.tdda' % i
                # written before the first step runs, so that deriving `own`
                # is never a command in the middle of the history
                if self.write_constraints(cp, c['t'], fmt, st['cons'],
                                          datafile, O) is not True:
                    continue
                argv += [datafile, cp]
                if st['cmd'] == 'detect':
                    argv.append(prefix + 'h%d.%s' % (i, st['out']))
            plan.append((st, argv))
        swapped = False
        for st, argv in plan:
            want = st.get('data') == 'other'
            if want != swapped:
                other = TIDS[(TIDS.index(c['t']) + 1) % len(TIDS)]
                with open(datafile, 'wb') as f:
                    f.write(self.data_bytes(other, fmt) if want else raw)
                swapped = want
            self.cli(argv, None, 'in')
            O['evals'] += 1
        if swapped:
            with open(datafile, 'wb') as f:
                f.write(raw)

    # -- one observation -------------------------------------------------
    def observe(self, c):
        """-> dict(mism=[(clause, detail)], tag, unspec, evals, nontrivial)"""
        pd, pdc = self.pd, self.pdc
        O = {'mism': [], 'tag': '', 'unspec': 0, 'evals': 0, 'nontrivial': False}
        d = self.fresh_dir()
        cmd, fmt = c['cmd'], c['fmt']
        stem = 'data' if c['name'] == 'ABS' else c['name']
        prefix = d + os.sep if c['name'] == 'ABS' else ''
        datafile = prefix + stem + '.' + fmt
        raw = self.data_bytes(c['t'], fmt)
        with open(datafile, 'wb') as f:
            f.write(raw)
        stdin_text = None
        names = {'input': datafile}
        if c['inp'] == 'stdin':
            stdin_text = raw.decode('utf-8')
            names['input'] = '-'
        elif c['inp'] == 'missing':
            names['input'] = prefix + 'nope.' + fmt
        # constraints
        cpath = None
        names['constraints'] = None
        if cmd in ('verify', 'detect'):
            if c['cmode'] == 'explicit':
                cpath = names['constraints'] = prefix + 'c.tdda'
            elif c['inp'] == 'file':
                cpath = prefix + stem + '.tdda'     # where it will be implied
            if cpath and c['cons'] != 'absent':
                r0exc = self.write_constraints(cpath, c['t'], fmt, c['cons'],
                                               datafile, O)
                if r0exc is not True:
                    # discovery itself fails on this frame (library defect
                    # outside C17, see both-raise in the discover cases)
                    O['tag'] = '%s:own-constraints-unavailable:%s' % (cmd, r0exc)
                    O['unspec'] += 1
                    return O
        # output
        outname = None
        if cmd == 'discover':
            outname = {'file': prefix + stem + '.tdda', '-': '-', None: None}[c['out']]
        elif cmd == 'detect':
            outname = {'csv': prefix + 'o.csv', 'parquet': prefix + 'o.parquet',
                       '-': '-', None: None}[c['out']]
        names['output'] = outname
        argv = self.build_argv(c, names)
        stale = bool(c.get('stale'))
        if stale:
            # "if the output file already exists, it is deleted" when nothing
            # fails: both routes start from an existing (junk) output file
            for pth in (outname, prefix + ('L.parquet' if c['out'] == 'parquet'
                                           else 'L.csv')):
                with open(pth, 'w') as f:
                    f.write('stale,junk\n1,2\n')
        spec = cli_spec.interpret(argv, os.path.exists)
        if spec['verdict'] == cli_spec.OK:
            # the reference is "the DataFrame loaded from that file": taken
            # before any command has run on it, never after
            self.reference_frame((c['t'], fmt, c['name'], stdin_text is not None),
                                 datafile, stdin_text, [])
        if c.get('pre'):
            self.run_prefix(c, datafile, prefix, raw, O)
        before = self.listing()
        r = self.cli(argv, stdin_text, c['route'])
        O['evals'] += 1
        if r.get('killed'):
            O['unspec'] += 1
            O['tag'] = '%s:subprocess-killed-by-signal' % cmd
            return O
        after = self.listing()
        new_files = [p for p in after if p not in before]
        base = {'argv': argv, 'table': c['t'], 'format': fmt,
                'exit': r['code'], 'exception': r['exc']}
        if fmt == 'csv':
            base['csv'] = raw.decode('utf-8')[:400]

        def mism(clause, **kw):
            dd = dict(base)
            dd.update(kw)
            O['mism'].append((clause, dd))
        self.cur_df = None

        if spec['verdict'] == cli_spec.UNSPEC:
            O['unspec'] += 1
            O['tag'] = '%s:unspecified:%s' % (cmd, spec['why'])
            return O
        if spec['verdict'] == cli_spec.ERROR:
            O['nontrivial'] = True
            O['tag'] = '%s:error:%s:exit=%s:%s' % (cmd, spec['why'].split(':')[0],
                                                   r['code'], r['exc'] or '-')
            if r['code'] == 0:
                mism('error-exit-nonzero', why=spec['why'],
                     stdout=r['stdout'][:300], stderr=r['stderr'][-300:])
            if new_files:
                mism('error-leaves-no-file', why=spec['why'], left=new_files)
            return O

        # ---- the invocation is valid: reference = the library ----------
        kw = dict(spec['kwargs'])
        notes = []
        df, lexc = self.reference_frame((c['t'], fmt, c['name'], stdin_text is not None),
                                        datafile, stdin_text, notes)
        self.cur_df = None if df is None else dict(
            (str(k), str(v)) for k, v in df.dtypes.items())
        if notes:
            O['unspec'] += 1
        if lexc is None:
            if cmd == 'discover':
                res, lexc, lout = self.lib(lambda: _discover_fields(pdc, df, kw))
            elif cmd == 'verify':
                res, lexc, lout = self.lib(
                    lambda: pdc.verify_df(df, spec['constraints'], **kw))
                if lexc is None:
                    ltext, lexc, _ = self.lib(lambda: str(res))
            else:
                libout = prefix + ('L.parquet' if c['out'] == 'parquet' else 'L.csv')
                res, lexc, lout = self.lib(
                    lambda: pdc.detect_df(df, spec['constraints'],
                                          outpath=libout, **kw))
                if lexc is None:
                    ltext, lexc, _ = self.lib(lambda: str(res))
        O['evals'] += 1
        if lexc is not None:
            O['tag'] = '%s:both-raise:%s' % (cmd, lexc) if r['code'] != 0 \
                else '%s:library-raises:%s' % (cmd, lexc)
            if r['code'] == 0:
                mism('agrees-with-library:library-raises', library_exception=lexc,
                     stdout=r['stdout'][:300])
            return O
        if r['code'] != 0:
            O['tag'] = '%s:cli-fails:%s' % (cmd, r['exc'] or 'exit%s' % r['code'])
            O['nontrivial'] = True
            if r['exc']:
                # only an escaping exception (a traceback on a documented,
                # valid invocation) is alarmed on; a deliberate non-zero
                # status is a convention the statement does not exclude
                mism('valid-invocation-succeeds', stderr=r['stderr'][-300:],
                     stdout=r['stdout'][:300], root=r['exc'])
            # the output produced before the failure is still compared below

        if cmd == 'discover':
            self.cmp_discover(c, O, r, res, outname, datafile, mism, notes)
        elif cmd == 'verify':
            self.cmp_verify(c, O, r, res, lout + ltext, spec, mism)
        else:
            self.cmp_detect(c, O, r, res, lout, ltext, spec, outname, libout, mism)
        if notes:
            O['tag'] += ':' + ','.join(notes)
        return O

    # -- comparisons -----------------------------------------------------
    def cmp_discover(self, c, O, r, res, outname, datafile, mism, notes):
        lib_fields = res
        text = None
        if outname not in (None, '-'):
            if os.path.exists(outname):
                with open(outname, encoding='utf-8') as f:
                    text = f.read()
            elif res is not None and r['code'] == 0:
                mism('discover-writes-constraints-file', expected=outname)
        else:
            text = r['stdout']
        cli_fields = None
        if text is not None and text.strip():
            try:
                cli_fields = json.loads(text)['fields']
            except Exception as e:
                if r['code'] == 0:
                    mism('discover-output-is-tdda-json', text=text[:300],
                         error=repr(e)[:100])
                return
        nf = len(lib_fields or {})
        nk = sum(len(v) for v in (lib_fields or {}).values())
        nrex = sum(1 for v in (lib_fields or {}).values() if 'rex' in v)
        O['tag'] = 'discover:fields=%d:constraints=%d:rex=%d' % (nf, nk, nrex)
        O['nontrivial'] = O['nontrivial'] or nk > 0
        if r['code'] != 0:
            return
        if cli_fields != lib_fields:
            diff = {}
            for f in sorted(set(cli_fields or {}) | set(lib_fields or {})):
                a = (cli_fields or {}).get(f)
                b = (lib_fields or {}).get(f)
                if a != b:
                    diff[f] = {'cli': a, 'library': b}
            mism('discover-same-constraints', diff=diff)
            return
        if cli_fields is None:
            return
        # closure: verify the same file against what was just discovered
        if outname in (None, '-'):
            cp = 'disc.tdda'
            with open(cp, 'w', encoding='utf-8') as f:
                f.write(text)
            argv2 = ['verify', datafile, cp]
        else:
            argv2 = ['verify', datafile]          # implied <stem>.tdda
        r2 = self.cli(argv2, None, 'in')
        O['evals'] += 1
        m = RE_TOTALS.search(r2['stdout'])
        if r2['code'] != 0 or not m:
            mism('discover-then-verify-no-failures', verify_argv=argv2,
                 root='verify-fails:%s' % (r2['exc'] or r2['code']),
                 verify_exit=r2['code'], verify_exception=r2['exc'],
                 stdout=r2['stdout'][-300:])
        elif int(m.group(2)) != 0:
            mism('discover-then-verify-no-failures', verify_argv=argv2,
                 root=closure_root(r2['stdout'], self.cur_df),
                 stdout=r2['stdout'][-600:])
        O['tag'] += ':closure=%s' % (m.group(2) if m else 'x')

    def cmp_verify(self, c, O, r, res, expected_text, spec, mism):
        O['tag'] = 'verify:pass=%d:fail=%d' % (res.passes, res.failures)
        O['nontrivial'] = O['nontrivial'] or (res.passes + res.failures) > 0
        if r['code'] != 0:
            return
        m = RE_TOTALS.search(r['stdout'])
        if not m:
            mism('verify-prints-totals', stdout=r['stdout'][-300:])
            return
        got = (int(m.group(1)), int(m.group(2)))
        if got != (res.passes, res.failures):
            mism('verify-same-pass-fail-counts', cli=list(got),
                 library=[res.passes, res.failures],
                 kwargs=_jsonable(spec['kwargs']))
        elif not spec['text_unspecified'] and \
                r['stdout'].strip() != expected_text.strip():
            mism('verify-same-report', cli=r['stdout'][:700],
                 library=expected_text[:700], kwargs=_jsonable(spec['kwargs']))
        if spec['text_unspecified']:
            O['unspec'] += 1
        if c['cons'] == 'own' and got[1] != 0:
            mism('discover-then-verify-no-failures',
                 root=closure_root(r['stdout'], self.cur_df),
                 stdout=r['stdout'][-600:])

    def cmp_detect(self, c, O, r, res, lout, ltext, spec, outname, libout, mism):
        pd = self.pd
        det = res.detection
        nfail = det.n_failing_records if det else 0
        lib_exists = os.path.exists(libout)
        O['tag'] = 'detect:cfail=%d:rfail=%s:file=%d' % (
            res.failures, nfail if det else '-', int(lib_exists))
        O['nontrivial'] = O['nontrivial'] or (res.passes + res.failures) > 0
        kwj = _jsonable(spec['kwargs'])
        if outname == '-':
            expected = ''
            if lib_exists:
                with open(libout, encoding='utf-8') as f:
                    expected = f.read()
                O['tag'] += ':%s' % _shape_csv(expected)
            if _norm(r['stdout']) != _norm(lout + expected):
                mism('detect-same-output', where='stdout',
                     cli=r['stdout'][:700], library=expected[:700], kwargs=kwj)
            return
        cli_exists = os.path.exists(outname)
        if cli_exists != lib_exists:
            if r['code'] == 0:
                mism('detect-same-output', where='file-existence',
                     cli_file=cli_exists, library_file=lib_exists, kwargs=kwj)
        elif lib_exists:
            if outname.endswith('.csv'):
                with open(outname, encoding='utf-8') as f:
                    a = f.read()
                with open(libout, encoding='utf-8') as f:
                    b = f.read()
                O['tag'] += ':%s' % _shape_csv(b)
                if a != b:
                    mism('detect-same-output', where='csv-file', cli=a[:700],
                         library=b[:700], kwargs=kwj)
            else:
                a = _canon_frame(pd.read_parquet(outname))
                b = _canon_frame(pd.read_parquet(libout))
                O['tag'] += ':%dx%d' % (len(b['rows']), len(b['columns']))
                if a != b:
                    mism('detect-same-output', where='parquet-file', cli=a,
                         library=b, kwargs=kwj)
        if r['code'] != 0:
            return
        # the printed report
        exp = (lout + ltext).strip()
        got = r['stdout'].strip()
        if spec['text_unspecified']:
            O['unspec'] += 1
            ma, mb = RE_RECORDS.search(got), RE_RECORDS.search(exp)
            ca, cb = RE_TOTALS.search(got), RE_TOTALS.search(exp)
            if (ma and ma.groups()) != (mb and mb.groups()) or \
                    (ca and ca.groups()) != (cb and cb.groups()):
                mism('detect-same-record-counts', cli=got[-300:],
                     library=exp[-300:], kwargs=kwj)
        elif got != exp:
            ma, mb = RE_RECORDS.search(got), RE_RECORDS.search(exp)
            clause = 'detect-same-report'
            if (ma and ma.groups()) != (mb and mb.groups()):
                clause = 'detect-same-record-counts'
            mism(clause, cli=got[:700], library=exp[:700], kwargs=kwj)

    # -- run_case -----------------------------------------------------------
    def run_case(self, c):
        R = Res()
        O = self.observe(c)
        R.ev(O['evals'])
        R.unspec += O['unspec']
        R.nontrivial = O['nontrivial']
        R.out(O['tag'])
        if not O['mism']:
            return R
        for clause, detail in O['mism']:
            small, extra = self.minimise(c, clause)
            R.ev(extra)
            detail = dict(detail)
            detail['minimal_configuration'] = small
            R.viol(self.sig(small, clause, detail.get('root')), clause, detail)
        return R

    def still(self, cand, clause):
        k = (json.dumps(cand, sort_keys=True), clause)
        if k in self.memo:
            return 0, self.memo[k]
        O = self.observe(cand)
        bad = any(cl == clause for cl, _ in O['mism'])
        self.memo[k] = bad
        return O['evals'], bad

    def minimise(self, c, clause):
        """Reset every configuration dimension to its default where the same
        oracle clause keeps failing, so that the signature names only what is
        needed to trigger it (one root cause -> one signature).  observe() is
        a pure function of the case, so answers are memoised per worker."""
        cur = json.loads(json.dumps(c))
        evals = 0

        def attempt(cand):
            nonlocal cur, evals
            n, bad = self.still(cand, clause)
            evals += n
            if bad:
                cur = cand
            return bad
        if cur['route'] == 'sub':
            attempt(dict(cur, route='in'))
        if cur.get('stale'):
            attempt(dict((k, v) for k, v in cur.items() if k != 'stale'))
        if cur.get('pre'):
            # first the whole history, then one earlier command at a time
            if attempt(dict((k, v) for k, v in cur.items() if k != 'pre')):
                pass
            else:
                i = 0
                while len(cur['pre']) > 1 and i < len(cur['pre']):
                    cand = dict(cur, pre=cur['pre'][:i] + cur['pre'][i + 1:])
                    if not attempt(cand):
                        i += 1
                # each remaining earlier command in its plainest form
                for i in range(len(cur['pre'])):
                    st = cur['pre'][i]
                    for k, v in (('flags', []), ('out', 'csv'),
                                 ('cons', (st.get('cons') or '').rsplit(':', 1)[0]
                                  + ':plain')):
                        if k not in st or st[k] == v or \
                                (k == 'cons' and not st[k].startswith('ty:')) or \
                                (k == 'out' and st['cmd'] != 'detect'):
                            continue
                        attempt(dict(cur, pre=cur['pre'][:i] + [dict(st, **{k: v})]
                                     + cur['pre'][i + 1:]))
                        st = cur['pre'][i]
        if cur['flags'] and not attempt(dict(cur, flags=[])):
            changed = len(cur['flags']) > 1
            while changed and cur['flags']:
                changed = False
                for i in range(len(cur['flags'])):
                    cand = dict(cur, flags=cur['flags'][:i] + cur['flags'][i + 1:])
                    if attempt(cand):
                        changed = True
                        break
        for k, v in (('pos', 'before'), ('name', 'data'), ('inp', 'file'),
                     ('cmode', 'explicit'), ('cons', 'tight'),
                     ('out', DEFAULT_OUT[cur['cmd']])):
            if cur[k] == v or (k == 'cons' and cur['cmd'] == 'discover'):
                continue
            if k == 'cmode' and cur['cmd'] == 'detect' and cur['out'] is None:
                # an output can only be named together with the constraints
                attempt(dict(cur, cmode='explicit', out='csv'))
                continue
            attempt(dict(cur, **{k: v}))
        if cur['cons'].startswith('ty:') and not cur['cons'].endswith(':plain'):
            attempt(dict(cur, cons=cur['cons'].rsplit(':', 1)[0] + ':plain'))
        return cur, evals

    @staticmethod
    def sig(c, clause, root=None):
        if c.get('pre'):
            # the (minimised) history is needed to see the disagreement: the
            # root cause is what the earlier command(s) left behind for this
            # command, whichever clause then notices it
            return 'history:%s:after=%s' % (
                c['cmd'], '>'.join(step_label(s) for s in c['pre']))
        parts = [c['cmd'], clause]
        if clause == 'discover-then-verify-no-failures':
            # same root cause whether reached from discover or from verify
            c = dict(c, cons='tight', out=DEFAULT_OUT[c['cmd']])
            parts = ['closure', root or '?']
        if clause == 'valid-invocation-succeeds':
            # the escaping exception names the root cause; the flags that
            # happen to be needed to reach it differ from table to table
            c = dict(c, flags=[])
            parts.append(root or '?')
        fl = []
        for g in c['flags']:
            s = g[0]
            if s in ('-t', '--type_checking'):
                s += '=' + g[1]
            if s == '--output-fields':
                s += '[%d]' % (len(g) - 1)
            fl.append(s)
        if fl or clause != 'valid-invocation-succeeds':
            parts.append('+'.join(fl) or 'noflags')
        mods = []
        if c['route'] != 'in':
            mods.append('subprocess')
        if c['inp'] != 'file':
            mods.append('input=' + c['inp'])
        if c['cmd'] != 'discover':
            if c['cmode'] != 'explicit':
                mods.append('constraints=implied')
            if c['cons'] != 'tight':
                mods.append('cons=' + c['cons'])
        if c['out'] != DEFAULT_OUT[c['cmd']]:
            mods.append('output=%s' % ('omitted' if c['out'] is None else c['out']))
        if c['pos'] != 'before':
            mods.append('flags-after')
        if c['name'] != 'data':
            mods.append('name=' + ('absolute' if c['name'] == 'ABS' else 'unicode-space'))
        if c.get('stale'):
            mods.append('stale-output')
        if mods:
            parts.append(','.join(mods))
        return ':'.join(parts)


# ----------------------------------------------------------------- helpers

def _discover_fields(pdc, df, kw):
    c = pdc.discover_df(df, **kw)
    if c is None:
        return None
    return json.loads(c.to_json())['fields']


RE_FIELD = re.compile(r'^(.*): (\d+) failures?  (\d+) pass(?:es)?  (.*)$')


def closure_root(report, df):
    """root cause discriminator for a failed discover->verify closure:
    dtype of each failing column as loaded + the constraint kinds failing"""
    roots = set()
    for line in report.splitlines():
        m = RE_FIELD.match(line)
        if not m or int(m.group(2)) == 0:
            continue
        toks = m.group(4).split()
        kinds = [toks[i] for i in range(0, len(toks) - 1, 2)
                 if toks[i + 1] in ('\u2717', 'X')]
        dt = (df or {}).get(m.group(1), '?')
        roots.add('%s:%s' % (dt, '+'.join(kinds)))
    return ','.join(sorted(roots)) or 'no-field-line'


def _norm(s):
    return '\n'.join(l.rstrip() for l in s.strip().splitlines())


def _shape_csv(text):
    lines = text.splitlines()
    if not lines:
        return '0x0'
    return '%dx%d' % (len(lines) - 1, len(lines[0].split(',')))


def _jsonable(d):
    return json.loads(json.dumps(d, default=str))


def _canon_frame(df):
    import pandas as pd
    rows = []
    for rec in df.itertuples(index=False, name=None):
        row = []
        for v in rec:
            try:
                isnull = bool(pd.isnull(v))
            except (TypeError, ValueError):
                isnull = False
            if isnull:
                row.append(None)
            elif hasattr(v, 'item'):
                row.append(repr(v.item()))
            else:
                row.append(repr(v))
        rows.append(row)
    return {'columns': [str(x) for x in df.columns],
            'dtypes': [str(x) for x in df.dtypes], 'rows': rows}


CHECK = C17()
