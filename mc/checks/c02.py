"""
C02 - verification verdicts equal the documented meaning of each constraint.

E1 over (column, constraint set) pairs.  Columns come from the families of
DESIGN 3.1 (mc/verify_alphabet.py), constraint values are derived from the
data so that every boundary is hit (on / just inside / just outside, zero,
negated, fuzzy pre-images, null).  Every case runs the REAL verify_df and
compares each verdict with the independent three-valued semantics in
mc/models/verify_spec.py; then the aggregation identities (totals, per-field
counts, to_frame, str under every report mode: printed totals, the fields
listed, and per field its printed counts and one mark per constraint).  The
result object itself is an E3 subject (layer 'observe'): looking at it in any
order, any number of times, must not change what it says.
"""
import contextlib
import io
import json
import math
import os
import re
import shutil
import tempfile
from collections import OrderedDict

from mc.engine import Check, Res
from mc import verify_alphabet as A
from mc.models import verify_spec as M

UNSPEC = M.UNSPEC
PRESENT = 'a'
ABSENT = 'zz'


# ---------------------------------------------------------------- helpers

def spec_entry(kind, enc, prec=None, form='scalar'):
    return {'kind': kind, 'val': enc, 'prec': prec, 'form': form}


def model_value(kind, enc):
    if kind in ('min', 'max'):
        return A.py_bound(enc)
    if kind == 'allowed_values' and enc is not None:
        return [A.py_bound(x)[1] for x in enc]
    return enc


def build_field_dict(entries):
    """entries: list of spec_entry -> ordered constraints dict of one field,
    plus the list of kinds the harness had to add (type: date)."""
    d = OrderedDict()
    need_date = False
    for e in entries:
        kind = e['kind']
        val = A.decode_constraint_value(kind, e['val'])
        if kind in ('min', 'max'):
            if A.bound_needs_type_date(e['val']):
                need_date = True
            if e.get('prec') is not None or e.get('form') == 'dict':
                dd = OrderedDict([('value', val)])
                if e.get('prec') is not None:
                    dd['precision'] = e['prec']
                val = dd
        d[kind] = val
    added = []
    if need_date and 'type' not in d:
        d2 = OrderedDict([('type', 'date')])
        d2.update(d)
        d = d2
        added.append('type')
    return d, added


def fam_class(fam):
    if fam in A.INTLIKE:
        return 'int'
    if fam in A.REAL:
        return 'real'
    if fam in A.BOOLS:
        return 'bool'
    if fam in A.STRINGS:
        return 'string'
    return 'date'


def bound_class(enc):
    if enc is None:
        return 'null'
    if isinstance(enc, list):
        return enc[0]
    return type(enc).__name__


def may_raise(fam, pycol, entries, tc):
    """The two documented-nowhere corners where even an exception is left
    unjudged (DESIGN 3.2): a naive date bound against a tz-aware column, and
    non-finite reals against sloppy int."""
    objs = any(e['kind'] in ('min', 'max') and isinstance(e['val'], list)
               and e['val'][0] in ('dto', 'dta') for e in entries)
    if objs and any(e['kind'] == 'type' and e['val'] == 'date'
                    for e in entries):
        return True      # objects are not .tdda content; tdda parses text
    for e in entries:
        if e['kind'] in ('min', 'max') and fam in A.TZAWARE:
            if isinstance(e['val'], list) and e['val'][0] in ('ds', 'dto'):
                return True
        if e['kind'] == 'type' and fam == 'f64inf' and e['val'] is not None:
            allowed = e['val'] if isinstance(e['val'], list) else [e['val']]
            if (tc or 'sloppy') == 'sloppy' and 'real' not in allowed and \
                    ('int' in allowed or 'bool' in allowed):
                if any(isinstance(v, float) and math.isinf(v) for v in pycol):
                    return True
    return False


def repair_may_fire(fam, pycol, entries):
    """repair is documented as rewriting column types from the constraints:
    whenever a type constraint does not already name the field's type the
    harness switches repair off, so that the data judged is the data given."""
    for e in entries:
        if e['kind'] == 'type' and e['val'] is not None:
            allowed = e['val'] if isinstance(e['val'], list) else [e['val']]
            if not (M.field_types(fam, pycol) <= set(allowed)):
                return True
    return False


def _verdict_cell(s):
    """One entry of a per-field result / one cell of to_frame() as a
    comparable value: True / False / 'None' / 'nan' / repr."""
    if s is None:
        return 'None'
    try:
        if isinstance(s, float) and s != s:
            return 'nan'
        if s != s:                       # numpy nan / NaT / NA-likes
            return 'nan'
    except Exception:
        pass
    if type(s).__name__ in ('bool', 'bool_', 'bool'):
        return bool(s)
    if type(s).__name__ in ('NAType', 'NaTType'):
        return 'nan'
    return repr(s)


def _cell(v):
    """Value with its null flavour kept apart (None / nan / NaT / <NA>)."""
    return '%s:%r' % (type(v).__name__, v)


def frame_state(df):
    """Deep snapshot of everything a caller can see of a frame: values (null
    flavours and Python types included), dtypes, column labels, their order
    and the column index name(s) and type, row index values, name(s), dtype
    and type (RangeIndex start/stop/step), attrs, and for categorical columns
    the categories, their dtype and identity, and orderedness."""
    import copy
    idx = df.index
    st = OrderedDict()
    st['columns'] = [repr(c) for c in df.columns]
    st['column-index-names'] = [repr(n) for n in df.columns.names]
    st['column-index-type'] = type(df.columns).__name__
    st['dtypes'] = [str(t) for t in df.dtypes.tolist()]
    st['index-type'] = type(idx).__name__ + (
        '(%r,%r,%r)' % (idx.start, idx.stop, idx.step)
        if hasattr(idx, 'step') else '')
    st['index-names'] = [repr(n) for n in idx.names]
    st['index-dtype'] = str(idx.dtype)
    st['index-values'] = [_cell(x) for x in idx]
    st['attrs'] = repr(copy.deepcopy(df.attrs))
    cats = OrderedDict()
    dts = df.dtypes.tolist()
    for c, dt in zip(st['columns'], dts):
        if hasattr(dt, 'categories'):
            cats[c] = [[repr(x) for x in dt.categories], bool(dt.ordered),
                       str(dt.categories.dtype), id(dt.categories)]
    rows = df.to_numpy(dtype=object).tolist() if len(dts) else []
    st['categoricals'] = cats
    st['values'] = OrderedDict(
        (c, [_cell(r[i]) for r in rows]) for i, c in enumerate(st['columns']))
    st['shape'] = list(df.shape)
    return st


def state_changes(before, after, in_place=False):
    """Names of the aspects of the caller's frame that differ.  With
    in_place, columns may be appended: the original ones are compared."""
    out = []
    n = len(before['columns'])
    for k in before:
        a, b = before[k], after[k]
        if in_place:
            if k == 'shape':
                a, b = a[0], b[0]
            elif k in ('columns', 'dtypes'):
                b = b[:n]
            elif k in ('values', 'categoricals'):
                b = OrderedDict((c, b[c]) for c in b if c in a)
        if a != b:
            out.append(k)
    return out


class Driver(object):
    """Runs the real verify_df and checks one call against the model."""

    def __init__(self):
        from tdda.constraints import verify_df
        import pandas as pd
        import numpy as np
        self.verify_df = verify_df
        self.pd = pd
        self.np = np

    def call(self, df, cdict, eps, tc, report, repair, path=None, agg=True,
             ascii=None):
        kw = {}
        if ascii is not None:
            kw['ascii'] = ascii
        if eps != 'none':
            kw['epsilon'] = eps
        if tc is not None:
            kw['type_checking'] = tc
        if report is not None:
            kw['report'] = report
        if repair is False:
            kw['repair'] = False
        out, err = io.StringIO(), io.StringIO()
        try:
            with contextlib.redirect_stdout(out), \
                    contextlib.redirect_stderr(err):
                v = self.verify_df(df, path if path else cdict, **kw)
                text = str(v) if agg else None
                frame = v.to_frame() if agg else None
            return ('ok', v, text, frame)
        except Exception as e:            # classified by the caller
            return ('exc', e, None, None)


def run_and_judge(D, R, cols, names, fields, eps, tc, report, sub,
                  path=None, judge=True, agg=True, series=None,
                  on_exc='record', ascii=None, path_form=None, hook=None):
    """cols/names: the frame; fields: OrderedDict fieldname -> entries.
    Returns {field: {kind: observed bool}} or None if tdda raised.
    path_form: the FORM in which the constraints path is handed over
    (A.PATH_FORMS); hook: a dict that receives 'fresh', a callable making a
    new, never looked-at result object of exactly this call."""
    pycols = dict((n, A.py_column(c)) for c, n in zip(cols, names))
    fams = dict((n, c['fam']) for c, n in zip(cols, names))
    if series is not None:
        df = D.pd.DataFrame(OrderedDict((n, series[i].copy())
                                        for i, n in enumerate(names)))
    else:
        df = A.build_frame(cols, names)
    df.attrs['origin'] = {'k': [1, 2]}
    cdict = OrderedDict()
    added = {}
    unjudged_exc = False
    repair = None
    for f, entries in fields.items():
        cdict[f], added[f] = build_field_dict(entries)
        if f in fams:
            if may_raise(fams[f], pycols[f], entries, tc):
                unjudged_exc = True
            if repair_may_fire(fams[f], pycols[f], entries):
                repair = False
    full = {'fields': cdict}
    if path:
        with open(path, 'w') as fh:
            json.dump(full, fh)
    state0 = frame_state(df) if agg else None
    path_arg = A.path_in_form(path, path_form) if path else None
    status, v, text, frame = D.call(df, full, eps, tc, report, repair,
                                    path=path_arg, agg=agg, ascii=ascii)
    if hook is not None:
        def fresh():
            if series is not None:
                df2 = D.pd.DataFrame(OrderedDict(
                    (n, series[i].copy()) for i, n in enumerate(names)))
            else:
                df2 = A.build_frame(cols, names)
            return D.call(df2, full, eps, tc, report, repair, path=path_arg,
                          agg=False, ascii=ascii)[:2]
        hook['fresh'] = fresh
    R.ev()
    if agg:
        # the harness passes repair=False whenever repair could rewrite a
        # column, so verification must leave the caller's frame as it was
        changed = state_changes(state0, frame_state(df))
        R.checked += 1
        if changed:
            R.viol('input-changed-by-verify:%s' % '+'.join(changed),
                   'verification-leaves-input-frame-unchanged',
                   {'frame': dict((n, c) for c, n in zip(cols, names)),
                    'constraints': json.loads(json.dumps(cdict, default=str)),
                    'changed': changed,
                    'before': dict((k, state0[k]) for k in changed
                                   if k in state0)}, sub)
    kinds_sig = '+'.join(sorted(set(e['kind'] for es in fields.values()
                                    for e in es)))
    famsig = '+'.join(sorted(set(fams.values())))
    if status == 'exc':
        e = v
        if on_exc == 'return':
            return 'EXC'
        R.out('raise:%s' % type(e).__name__)
        if unjudged_exc:
            R.unspec += 1
            return None
        nullk = sorted(set(x['kind'] for es in fields.values() for x in es
                           if x['val'] is None))
        bcls = sorted(set(bound_class(x['val']) for es in fields.values()
                          for x in es if x['kind'] in ('min', 'max')))
        sig = 'raises:%s:%s' % (type(e).__name__,
                                exc_discriminator(e, fams, fields, tc))
        R.viol(sig, 'verdict-reported-not-raised',
               {'frame': dict((n, c) for c, n in zip(cols, names)),
                'constraints': json.loads(json.dumps(cdict, default=str)),
                'epsilon': eps, 'type_checking': tc, 'report': report,
                'exception': repr(e)[:300], 'null_valued': nullk,
                'bound_classes': bcls}, sub)
        return None

    # ------------------------------------------------ verdict by verdict
    observed = OrderedDict()
    epsm = None if eps == 'none' else eps
    for f, entries in fields.items():
        obs_f = OrderedDict()
        got = v.fields.get(f)
        if got is None:
            R.viol('field-not-reported:%s' % kinds_sig, 'every-field-reported',
                   {'field': f, 'constraints': json.loads(
                       json.dumps(cdict, default=str))}, sub)
            continue
        judged = list(entries)
        for k in added[f]:
            judged = [spec_entry('type', 'date')] + judged
        for e in judged:
            kind = e['kind']
            o = got.get(kind, 'absent')
            if o == 'absent' or o is None:
                R.viol('verdict-missing:%s' % kind, 'every-constraint-reported',
                       {'field': f, 'kind': kind, 'got': str(dict(got))}, sub)
                continue
            o = bool(o)
            obs_f[kind] = o
            if not judge:
                continue
            present = f in fams
            fam = fams.get(f)
            col = pycols.get(f, [])
            mv = model_value(kind, e['val'])
            if kind in ('min', 'max') and A.bound_needs_type_date(e['val']) \
                    and cdict[f].get('type') != 'date':
                # tdda reads text bounds as dates only next to "type": "date";
                # how a date bound is recognised otherwise is not documented
                mv = ('unknown', None)
            want = M.sat(kind, mv, col, fam,
                         type_checking=tc, epsilon=epsm,
                         precision=e.get('prec'), present=present)
            if want == UNSPEC:
                R.unspec += 1
                continue
            R.checked += 1
            if want is not o:
                R.viol(verdict_sig(kind, e, fam, present, tc, epsm, want, o,
                                   col),
                       'verdict-equals-documented-meaning',
                       {'frame': dict((n, c) for c, n in zip(cols, names)),
                        'constraints': json.loads(
                            json.dumps(cdict, default=str)),
                        'field': f, 'kind': kind, 'epsilon': eps,
                        'type_checking': tc, 'expected': want, 'observed': o},
                       sub)
        observed[f] = obs_f
        # a verdict is reported for the constraints given and for nothing else
        asked = set(e['kind'] for e in judged)
        extra = [k for k in got.keys() if k not in asked]
        R.checked += 1
        if extra:
            R.viol('verdict-for-absent-constraint:%s'
                   % ('nan' if all(_verdict_cell(got[k]) == 'nan'
                                   for k in extra) else 'value'),
                   'verdicts-only-for-the-constraints-given',
                   {'field': f, 'constraints': json.loads(
                       json.dumps(cdict, default=str)),
                    'extra': dict((k, _verdict_cell(got[k])) for k in extra),
                    'got': str(dict(got))}, sub)
    extra_f = [f for f in v.fields.keys() if f not in fields]
    if extra_f:
        R.viol('field-reported-without-constraints',
               'verdicts-only-for-the-constraints-given',
               {'fields': [str(f) for f in extra_f],
                'constraints': json.loads(json.dumps(cdict, default=str))},
               sub)
    R.out('%s|%s' % (kinds_sig if len(kinds_sig) < 40 else 'many',
                     ''.join('T' if x else 'F' for of in observed.values()
                             for x in of.values())[:24]))

    # ------------------------------------------------ aggregation identities
    P = sum(1 for of in observed.values() for x in of.values() if x)
    F = sum(1 for of in observed.values() for x in of.values() if not x)
    detail = {'constraints': json.loads(json.dumps(cdict, default=str)),
              'verdicts': observed, 'report': report}
    if (v.passes, v.failures) != (P, F):
        R.viol('totals', 'totals-equal-verdict-counts',
               dict(detail, passes=v.passes, failures=v.failures), sub)
    for f, of in observed.items():
        p = sum(1 for x in of.values() if x)
        q = len(of) - p
        fr = v.fields[f]
        if (fr.passes, fr.failures) != (p, q):
            R.viol('field-counts',
                   'per-field-counts-equal-verdict-counts',
                   dict(detail, field=f, passes=fr.passes,
                        failures=fr.failures), sub)
    if agg:
        check_frame(D, R, frame, observed, detail, kinds_sig, sub)
        check_text(R, text, observed, report, detail, kinds_sig, sub,
                   ascii=ascii)
    return observed


def exc_discriminator(e, fams, fields, tc):
    """Narrow root-cause discriminator for an exception out of verify_df."""
    msg = str(e)
    famc = '+'.join(sorted(set(fam_class(f) for f in fams.values())))
    if 'iteritems' in msg:
        return 'iteritems:bool-allowed-for-object-string-column'
    nullk = sorted(set(x['kind'] for es in fields.values() for x in es
                       if x['val'] is None))
    if isinstance(e, TypeError) and 'NoneType' in msg and 'rex' in nullk:
        return 'null-valued-rex'
    kinds = sorted(set(x['kind'] for es in fields.values() for x in es
                       if x['val'] is not None))
    mm = [k for k in kinds if k in ('min', 'max')]
    if 'Categorical is not ordered' in msg:
        return 'minmax-on-unordered-categorical'
    if 'Can only use .str accessor' in msg:
        return 'length-on-categorical-without-string-categories'
    if isinstance(e, TypeError) and 'expected string or bytes-like' in msg \
            and any(x['kind'] in ('min', 'max') and x['val'] is None
                    for es in fields.values() for x in es):
        return 'null-valued-date-bound'
    if isinstance(e, TypeError) and "not supported between instances of 'str'" \
            in msg and mm:
        return 'fuzzy-minmax-string-bound-violated'
    fset = '+'.join(sorted(set(fams.values())))
    if kinds == ['rex']:
        return 'rex-list:%s' % msg[:40]
    return '%s:%s:%s' % ('+'.join(kinds)[:40], fset, (msg[:40]))


def verdict_sig(kind, e, fam, present, tc, eps, want, got, col):
    if not present:
        return 'verdict:missing-field:%s:%s' % (kind, got)
    if e['val'] is None:
        return 'verdict:null-valued:%s:%s' % (kind, fam_class(fam))
    base = 'verdict:%s:%s' % (kind, fam_class(fam))
    if kind in ('min', 'max') and bound_class(e['val']) == 'dsa':
        return 'verdict:minmax:tz-aware-text-bound:want%s' % (
            'T' if want else 'F')
    if kind == 'allowed_values' and any(v is None for v in col) and want:
        return 'verdict:allowed_values:null-counted-as-value'
    if kind in ('min', 'max'):
        bc = bound_class(e['val'])
        bc = {'int': 'number', 'float': 'number', 'bool': 'number',
              'f': 'number', 'str': 'string'}.get(bc, bc)
        base += ':%s:%s:eps%s' % (e.get('prec') or 'default', bc,
                                  'none' if eps is None else
                                  ('0' if eps == 0 else '+'))
    elif kind == 'type':
        base += ':%s:%s' % (tc or 'default',
                            json.dumps(e['val']).replace('"', ''))
    elif kind == 'allowed_values':
        base += ':%s' % ('withnull' if any(v is None for v in col)
                         else 'nonull')
    elif kind == 'sign':
        base += ':%s' % e['val']
    return '%s:want%s' % (base, 'T' if want else 'F')


def check_frame(D, R, frame, observed, detail, kinds_sig, sub):
    """to_frame(): one row per field; field/failures/passes; one column per
    kind used: True / False / NaN for "no constraint of this kind"."""
    pd = D.pd
    problems = []
    try:
        cols = list(frame.columns)
        for c in ('field', 'failures', 'passes'):
            if c not in cols:
                problems.append('column %s missing' % c)
        if not problems:
            if sorted(frame['field']) != sorted(observed.keys()):
                problems.append('field column %r' % (list(frame['field']),))
        if not problems:
            rowof = dict((f, i) for i, f in enumerate(frame['field']))
            for f, of in observed.items():
                i = rowof[f]
                p = sum(1 for x in of.values() if x)
                if int(frame['passes'].iloc[i]) != p or \
                        int(frame['failures'].iloc[i]) != len(of) - p:
                    problems.append('counts of %s' % f)
                for kind, o in of.items():
                    if kind not in cols:
                        problems.append('column %s missing' % kind)
                        continue
                    cell = frame[kind].iloc[i]
                    if pd.isnull(cell) or bool(cell) is not o:
                        problems.append('cell %s/%s=%r' % (f, kind, cell))
            used = set(k for of in observed.values() for k in of)
            for kind in used:
                if kind in cols:
                    for f, of in observed.items():
                        i = rowof[f]
                        if kind not in of and not pd.isnull(
                                frame[kind].iloc[i]):
                            problems.append('cell %s/%s not null' % (f, kind))
    except Exception as e:                              # malformed frame
        problems.append('unreadable: %r' % e)
    if problems:
        R.viol('to_frame', 'tabular-form-equals-verdicts',
               dict(detail, problems=problems[:5],
                    frame=frame.to_dict('list') if hasattr(frame, 'to_dict')
                    else str(frame)), sub)


RE_PASS = re.compile(r'^Constraints passing: (\d+)$', re.M)
RE_FAIL = re.compile(r'^Constraints failing: (\d+)$', re.M)


MARKS = {None: ('\u2713', '\u2717'), False: ('\u2713', '\u2717'),
         True: ('OK', 'X')}


def field_line(text, f):
    """The line of str(result) about field f -> (failures, passes,
    [(kind, mark)]) or None when there is none / it cannot be read.  The
    documented shape (tdda's own examples): "<field>: <n> failure(s)  <m>
    pass(es)  <kind> <mark>  <kind> <mark> ..."."""
    m = re.search(r'^%s: (\d+) failures?  (\d+) pass(?:es)?(?:  (.*))?$'
                  % re.escape(f), text, re.M)
    if not m:
        return None
    items = [x for x in (m.group(3) or '').split('  ') if x.strip()]
    marks = []
    for it in items:
        parts = it.strip().split(' ')
        marks.append((parts[0], ' '.join(parts[1:])))
    return (int(m.group(1)), int(m.group(2)), marks)


def check_text(R, text, observed, report, detail, kinds_sig, sub, ascii=None):
    P = sum(1 for of in observed.values() for x in of.values() if x)
    F = sum(1 for of in observed.values() for x in of.values() if not x)
    mp, mf = RE_PASS.search(text), RE_FAIL.search(text)
    if not mp or not mf or int(mp.group(1)) != P or int(mf.group(1)) != F:
        R.viol('str-totals:%s' % report,
               'printed-totals-equal-verdict-counts',
               dict(detail, text=text[-300:]), sub)
        return
    # which fields are listed (documented for report = all / fields)
    if report in (None, 'all', 'fields'):
        for f, of in observed.items():
            failing = any(not x for x in of.values())
            want = True if report in (None, 'all') else failing
            shown = re.search(r'^%s:' % re.escape(f), text, re.M) is not None
            if shown != want:
                R.viol('str-fields:%s' % report,
                       'report-mode-lists-documented-fields',
                       dict(detail, field=f, shown=shown, text=text[:300]),
                       sub)
                continue
            if not shown:
                continue
            # the field's line: its two counts and one mark per constraint
            # equal the verdicts - and there is a mark for nothing else
            fl = field_line(text, f)
            p = sum(1 for x in of.values() if x)
            tick, cross = MARKS[ascii]
            want_marks = sorted((k, tick if x else cross)
                                for k, x in of.items())
            R.checked += 1
            if fl is None:
                R.viol('str-field-line-unreadable:%s' % report,
                       'printed-field-line-equals-verdicts',
                       dict(detail, field=f, text=text[:400]), sub)
            elif (fl[0], fl[1]) != (len(of) - p, p):
                R.viol('str-field-counts:%s' % report,
                       'printed-field-line-equals-verdicts',
                       dict(detail, field=f, printed=[fl[0], fl[1]],
                            expected=[len(of) - p, p], text=text[:400]), sub)
            elif sorted(fl[2]) != want_marks:
                kinds_shown = sorted(k for k, _ in fl[2])
                what = ('marks' if kinds_shown == sorted(of) else
                        'mark-for-absent-constraint'
                        if set(of) < set(kinds_shown) else 'kinds')
                R.viol('str-field-%s:%s%s' % (what, report,
                                              ':ascii' if ascii else ''),
                       'printed-field-line-equals-verdicts',
                       dict(detail, field=f, printed=fl[2],
                            expected=want_marks, text=text[:400]), sub)


def pick_values(col, kind, tier, want_n=2):
    """Representative values of one kind for the wider layers: the first
    value the model calls satisfied and the first it calls violated (default
    precision, epsilon 0), in the alphabet's order."""
    pycol = A.py_column(col)
    sat_v = viol_v = None
    for enc in A.constraint_values(col, kind, tier):
        if enc is None:
            continue
        r = M.sat(kind, model_value(kind, enc), pycol, col['fam'],
                  type_checking='sloppy', epsilon=0, precision=None)
        if r is True and sat_v is None:
            sat_v = enc
        elif r is False and viol_v is None:
            viol_v = enc
    out = []
    if sat_v is not None:
        out.append(sat_v)
    if viol_v is not None:
        out.append(viol_v)
    return out


CORE = ('i64', 'f64', 'strobj', 'Int64', 'boolobj', 'dt_ns')


def in_single(col, tier):
    """Columns whose grid is run one constraint per call (the others are
    run batched in the 'grid' layer)."""
    if col['fam'] == 'manycat':
        return True
    n = len(col['vals'])
    if tier == 'quick':
        return n <= 1 or (n == 2 and col['fam'] in CORE)
    return n <= 2 or (n == 3 and col['fam'] in CORE)


REPORT_COLS = [
    {'fam': 'i64', 'vals': [-2, 3]}, {'fam': 'f64', 'vals': [None, 2.5]},
    {'fam': 'strobj', 'vals': ['a', 'B1']}, {'fam': 'strobj', 'vals': [None, None]},
    {'fam': 'boolobj', 'vals': [None, True]}, {'fam': 'Int64', 'vals': [None, 2]},
    {'fam': 'dt_ns', 'vals': [None, ['t', 946684800 * 10 ** 9]]},
    {'fam': 'cat', 'vals': ['a', 'a']}, {'fam': 'bool', 'vals': [True, False]},
    {'fam': 'u8', 'vals': [0, 255]},
]
# 'observe' (quick): pairs of report columns whose sets of applicable kinds
# are disjoint-ish, overlapping and identical
OBSERVE_PAIRS = [(0, 2), (1, 6), (4, 5), (0, 0)]
NAME_PAIRS = [('a', 'b c'), ('é', 'a'), ('min', '#x'), ('a_min_ok', 'a'),
              ('b c', 'min'), ('#x', 'é')]


class C02(Check):
    pid = 'C02'
    title = 'Verification verdicts equal the documented meaning of each constraint'
    technique = ('bounded exhaustive enumeration of (column, boundary-derived '
                 'constraint set) on the real verify_df; oracle = independent '
                 'three-valued constraint semantics + aggregation identities')
    rule = ('cases = every column of every family (18 families + manycat, '
            '<=3 rows quick / <=4 thorough) x every kind x every '
            'boundary-derived value (on, +-1, +-step, 0, negated, exact fuzzy '
            'pre-images, 3% band, null, foreign type), each run under every '
            'precision x epsilon {0,.01,.25,.5,unset} (min/max) or strict/'
            'sloppy/default (type); then missing fields, null-valued '
            'additions, all pairs of kinds, report modes on two-field frames, '
            'every order of the five observations of one result object '
            '(totals, per-field counts, .fields, to_frame/to_dataframe, str; '
            'each twice; ascii on/off), and the .tdda-file route with the '
            'path in every form (str, relative, pathlib, os.PathLike).  '
            'Everywhere: a verdict, a to_frame cell and a printed mark only '
            'for the constraints given.  non-trivial = at least one verdict '
            'was compared with a definite model answer on a non-empty column')
    assumptions = [
        'pandas 3.0.6 / numpy 2.5 as pinned; text columns are object or '
        'categorical (the str dtype is outside the property)',
        'gray zones answered unspecified: null-valued constraint on a missing '
        'field; sloppy bool asked of a real column; non-finite reals against '
        'sloppy int (even an exception); bound of another coarse type than '
        'the column (must still not raise); naive date bound against a '
        'tz-aware column (even an exception); epsilon arithmetic within 1e-9 '
        'relative of the fuzzy threshold or exactly on it unless epsilon is '
        '0.25/0.5 and the product is exact; epsilon not passed when 0 and '
        '0.01 disagree (the two documents name different defaults); date and '
        'string bounds with precision open exactly on the bound, and fuzzy '
        'with epsilon>0 outside it; sub-microsecond differences; sign, '
        'lengths and rex on fields of a type they are not documented for '
        '(must not raise); no_duplicates: false; strict/sloppy type of an '
        'all-null object column unless every candidate type agrees; unanchored '
        'regular expressions that match a part but not the whole value',
        'repair is switched off whenever a type constraint does not name the '
        'column type (repair is documented to rewrite such columns)',
    ]

    def hashseeds(self, tier, verif_seed):
        return [verif_seed % 3]

    def layers(self, tier):
        return [
            ('single', 'one constraint, one field, one call: every boundary '
                       'value x every precision x epsilon / type checking '
                       '(columns of <=2 rows quick, <=3 thorough)'),
            ('grid', 'the same grid on every column up to the row bound, '
                     'batched: one frame of identical fields, one constraint '
                     'per field, one call per epsilon / type checking'),
            ('missing', 'constraints on a field the data lacks (+ one on a '
                        'present field)'),
            ('nulladd', 'a constraint + null-valued constraints of the other '
                        'kinds: verdict unchanged, additions satisfied'),
            ('pairs', 'all pairs of kinds on one field (satisfied/violated '
                      'representatives), strict and sloppy'),
            ('rex', 'lists of 1-3 expressions from a regex feature alphabet '
                    '(groups, back-references, inline flags, alternation, '
                    'anchors, dot/dollar vs newline, unicode classes) in '
                    'EVERY order: verdict per model, order-independent, no '
                    'exception'),
            ('report', 'two-field frames + missing field, all kinds at once, '
                       'every report mode'),
            ('observe', 'E3 on ONE result object: every order of the five '
                        'observations (totals, per-field counts, .fields, '
                        'to_frame()/to_dataframe(), str()), each made twice: '
                        'every observation equals the one made first on a '
                        'fresh result (looking at a result never changes it)'),
            ('file', 'the same constraints through a .tdda file, the path '
                     'given in every form (str, relative str, pathlib.Path, '
                     'pure path, os.PathLike)'),
        ]

    # ------------------------------------------------------------ cases
    def cases(self, tier, layer):
        if layer == 'single':
            for col in A.columns(tier):
                if not in_single(col, tier):
                    continue
                for kind in A.KINDS:
                    if 'cats' in col and kind in ('sign', 'max_nulls'):
                        continue      # nothing categorical about them
                    vals = A.constraint_values(col, kind, tier)
                    if kind == 'type' and tier == 'quick':
                        # the full list of type lists is run for every
                        # column in the batched 'grid' layer
                        vals = A.TYPE_VALUES_BASIC + [[t] for t in A.TYPES]
                    for enc in vals:
                        yield {'L': 'single', 'col': col, 'kind': kind,
                               'val': enc}
        elif layer == 'grid':
            for col in A.columns(tier):
                if in_single(col, tier):
                    # already done one by one (except, in quick, the full
                    # list of type lists)
                    if tier == 'quick':
                        yield {'L': 'grid', 'col': col, 'kind': 'type'}
                    continue
                for kind in A.KINDS:
                    if 'cats' in col and kind in ('sign', 'max_nulls'):
                        continue
                    yield {'L': 'grid', 'col': col, 'kind': kind}
        elif layer == 'missing':
            for col in A.small_columns(tier):
                if (len(col['vals']) > 1 or 'cats' in col) \
                        and tier != 'thorough':
                    continue
                yield {'L': 'missing', 'col': col}
        elif layer == 'nulladd':
            R = 2 if tier == 'quick' else 3
            for col in A.columns(tier):
                if col['fam'] != 'manycat' and len(col['vals']) > R:
                    continue
                if tier == 'quick' and 'cats' in col:
                    continue       # categorical variants: single / grid
                for kind in A.KINDS:
                    yield {'L': 'nulladd', 'col': col, 'kind': kind}
        elif layer == 'pairs':
            for col in A.columns(tier):
                n = len(col['vals'])
                if col['fam'] != 'manycat' and n > 2 and not (
                        tier == 'thorough' and n == 3 and col['fam'] in
                        ('i64', 'f64', 'Int64', 'boolobj', 'dt_ns')):
                    continue
                if tier == 'quick' and 'cats' in col:
                    continue
                for i, k1 in enumerate(A.KINDS):
                    yield {'L': 'pairs', 'col': col, 'k1': k1}
        elif layer == 'rex':
            for sub in A.rex_subsets(3):
                for data in ('witnesses', 'witnesses+other', 'all+null'):
                    for fam in (('strobj', 'cat') if data == 'witnesses'
                                or tier == 'thorough' else ('strobj',)):
                        yield {'L': 'rex', 'exprs': sub, 'data': data,
                               'fam': fam}
        elif layer == 'report':
            for i, c1 in enumerate(REPORT_COLS):
                for j, c2 in enumerate(REPORT_COLS):
                    for (n1, n2) in NAME_PAIRS:
                        yield {'L': 'report', 'c1': c1, 'c2': c2, 'n1': n1, 'n2': n2}
        elif layer == 'observe':
            pairs = OBSERVE_PAIRS if tier == 'quick' else [
                (i, j) for i in range(len(REPORT_COLS))
                for j in range(i, len(REPORT_COLS))]
            for (i, j) in pairs:
                for mode in (('sat', 'mixed', 'nulls') if tier == 'quick'
                             else ('sat', 'viol', 'mixed', 'nulls')):
                    for (report, ascii) in (
                            [('all', None), ('all', True), ('fields', None),
                             ('records', True)] if tier == 'quick' else
                            [(r, a) for r in ('all', 'fields', 'records')
                             for a in (None, True)]):
                        for first in A.OBSERVATIONS:
                            yield {'L': 'observe', 'c1': REPORT_COLS[i],
                                   'c2': REPORT_COLS[j], 'mode': mode,
                                   'report': report, 'ascii': ascii,
                                   'first': first}
        elif layer == 'file':
            for col in A.small_columns(tier):
                if (len(col['vals']) > 1 or 'cats' in col) \
                        and tier != 'thorough':
                    continue
                for kind in A.KINDS:
                    yield {'L': 'file', 'col': col, 'kind': kind}

    # ------------------------------------------------------------ workers
    def setup_worker(self, tier):
        self.tier = tier
        self.D = Driver()
        self.sandbox = tempfile.mkdtemp(prefix='mc_c02_', dir='/var/tmp')

    def teardown_worker(self):
        sb = getattr(self, 'sandbox', None)
        if sb and os.path.isdir(sb):
            shutil.rmtree(sb, ignore_errors=True)

    # ----------------------------------------------------------- run_case
    def run_case(self, case):
        R = Res()
        D = self.D
        tier = self.tier
        before = R.checked
        L = case['L']
        if L == 'single':
            col, kind, enc = case['col'], case['kind'], case['val']
            ser = [A.build_series(col)]
            first = True
            for var in A.variants(kind, enc):
                entries = [spec_entry(kind, enc, var['prec'])]
                run_and_judge(D, R, [col], [PRESENT],
                              OrderedDict([(PRESENT, entries)]),
                              var['eps'], var['tc'], None, var, agg=first,
                              series=ser)
                first = False
            if kind in ('min', 'max') and enc is not None:
                # dict form without precision
                entries = [spec_entry(kind, enc, None, 'dict')]
                run_and_judge(D, R, [col], [PRESENT],
                              OrderedDict([(PRESENT, entries)]),
                              0.25, None, None, {'form': 'dict'}, agg=False,
                              series=ser)
            nonempty = len(col['vals']) > 0
        elif L == 'grid':
            self.run_grid(R, case)
            nonempty = len(case['col']['vals']) > 0
        elif L == 'pairs':
            col, k1 = case['col'], case['k1']
            v1s = pick_values(col, k1, tier)
            for k2 in A.KINDS[A.KINDS.index(k1) + 1:]:
                v2s = pick_values(col, k2, tier)
                for e1 in v1s:
                    for e2 in v2s:
                        tcs = ['strict', 'sloppy'] if 'type' in (k1, k2) \
                            else [None]
                        for tc in tcs:
                            for order in (0, 1):
                                es = [spec_entry(k1, e1), spec_entry(k2, e2)]
                                if order:
                                    es.reverse()
                                    if tier != 'thorough':
                                        continue
                                run_and_judge(
                                    D, R, [col], [PRESENT],
                                    OrderedDict([(PRESENT, es)]), 0, tc, None,
                                    {'k2': k2, 'v1': e1, 'v2': e2, 'tc': tc,
                                     'order': order})
            nonempty = len(col['vals']) > 0
        elif L == 'rex':
            self.run_rex(R, case)
            nonempty = True
        elif L == 'report':
            self.run_report(R, case)
            nonempty = True
        elif L == 'observe':
            self.run_observe(R, case)
            nonempty = True
        elif L == 'file':
            self.run_file(R, case)
            nonempty = len(case['col']['vals']) > 0
        elif L == 'nulladd':
            self.run_nulladd(R, case)
            nonempty = len(case['col']['vals']) > 0
        else:                                                    # missing
            self.run_missing(R, case)
            nonempty = True
        R.nontrivial = nonempty and R.checked > before
        return R

    def run_grid(self, R, case):
        col, kind = case['col'], case['kind']
        vals = A.constraint_values(col, kind, self.tier)
        ser = A.build_series(col)
        if kind in ('min', 'max'):
            for eps in A.EPSILONS + ['none']:
                fields = OrderedDict()
                for i, enc in enumerate(vals):
                    for j, prec in enumerate(A.PRECISIONS):
                        if prec in ('open', 'closed') and eps not in (0, 0.5):
                            continue
                        fields['f%02d_%d' % (i, j)] = [
                            spec_entry(kind, enc, prec)]
                self.batch(R, col, ser, fields, eps, None, {'eps': eps},
                           agg=(eps == 0))
        elif kind == 'type':
            for tc in ('strict', 'sloppy', None):
                fields = OrderedDict(('f%02d' % i, [spec_entry(kind, enc)])
                                     for i, enc in enumerate(vals))
                self.batch(R, col, ser, fields, 0, tc, {'tc': tc})
        else:
            fields = OrderedDict(('f%02d' % i, [spec_entry(kind, enc)])
                                 for i, enc in enumerate(vals))
            self.batch(R, col, ser, fields, 0, None, {})

    def batch(self, R, col, ser, fields, eps, tc, sub, agg=True):
        names = list(fields)
        got = run_and_judge(self.D, R, [col] * len(names), names, fields, eps,
                            tc, None, dict(sub, batch=True),
                            series=[ser] * len(names), on_exc='return',
                            agg=agg)
        if got == 'EXC':
            # some field made the whole call raise: judge them one by one
            for n in names:
                run_and_judge(self.D, R, [col], [n],
                              OrderedDict([(n, fields[n])]), eps, tc, None,
                              dict(sub, field=n), series=[ser], agg=False)

    def run_rex(self, R, case):
        import itertools
        sub, data, fam = case['exprs'], case['data'], case['fam']
        exprs = [A.REX_ALPHABET[i][0] for i in sub]
        vals = [A.REX_ALPHABET[i][1] for i in sub]
        if data == 'witnesses+other':
            vals = vals + [A.REX_NOMATCH]
        elif data == 'all+null':
            vals = [w for (_, w, _) in A.REX_ALPHABET] + [None]
        col = {'fam': fam, 'vals': vals}
        ser = [A.build_series(col)]
        seen = {}
        first = True
        for perm in itertools.permutations(exprs):
            got = run_and_judge(self.D, R, [col], [PRESENT],
                                OrderedDict([(PRESENT, [spec_entry(
                                    'rex', list(perm))])]),
                                0, None, None, {'order': list(perm)},
                                agg=first, series=ser)
            first = False
            seen[perm] = None if got is None else got.get(PRESENT, {}).get(
                'rex')
        # "The order is not significant": same verdict (and no exception
        # in one order only) for every order of the same expressions
        R.checked += 1
        if len(set(seen.values())) > 1:
            R.viol('rex-order-dependent:%d-expressions' % len(sub),
                   'rex-list-order-not-significant',
                   {'column': col, 'verdict_by_order': [
                       [list(k), ('raised' if v is None else v)]
                       for k, v in seen.items()]}, {'exprs': exprs})

    def run_nulladd(self, R, case):
        D = self.D
        col, kind = case['col'], case['kind']
        others = [k for k in A.KINDS if k != kind]
        ser = [A.build_series(col)]
        n = len(col['vals'])
        thorough = self.tier == 'thorough'
        if thorough and n <= 1:
            values = [e for e in A.constraint_values(col, kind, self.tier)
                      if e is not None]
        else:
            values = pick_values(col, kind, self.tier)
        for enc in values:
            base = [spec_entry(kind, enc)]
            alone = run_and_judge(D, R, [col], [PRESENT],
                                  OrderedDict([(PRESENT, base)]), 0.25, None,
                                  None, {'val': enc, 'add': []}, series=ser)
            textdate = A.bound_needs_type_date(enc) if kind in ('min', 'max') \
                else False
            # "type": null next to a text date bound would stop tdda parsing
            # the text as a date (the harness adds "type": "date" for it)
            oth = [k for k in others if not (textdate and k == 'type')]
            adds = [[k for k in oth if k != 'rex']]
            if kind != 'rex':
                adds.append(['rex'])
            if n <= 1 or (thorough and n <= 2):
                adds += [[k] for k in oth if k != 'rex']
            for add in adds:
                for pos in (0, 1):
                    extra = [spec_entry(k, None) for k in add]
                    es = (base + extra) if pos == 0 else (extra + base)
                    if pos == 1 and (len(add) > 1 or not thorough or n > 1):
                        continue
                    got = run_and_judge(D, R, [col], [PRESENT],
                                        OrderedDict([(PRESENT, es)]), 0.25,
                                        None, None,
                                        {'val': enc, 'add': add, 'pos': pos},
                                        series=ser, agg=(len(add) > 1))
                    if alone is None or got is None:
                        continue
                    a = alone.get(PRESENT, {}).get(kind)
                    b = got.get(PRESENT, {}).get(kind)
                    R.checked += 1
                    if a is not None and b is not None and a != b:
                        R.viol('null-addition-changes-verdict:%s:+%s'
                               % (kind, '+'.join(add)[:30]),
                               'null-valued-constraint-non-interference',
                               {'column': col, 'kind': kind, 'value': enc,
                                'added_null_kinds': add, 'alone': a,
                                'with_nulls': b},
                               {'val': enc, 'add': add, 'pos': pos})

    def run_missing(self, R, case):
        D = self.D
        col = case['col']
        for kind in A.KINDS:
            vals = A.constraint_values(col, kind, self.tier)
            nonnull = [e for e in vals if e is not None][:3]
            for enc in nonnull + [None]:
                # (a) only the missing field
                run_and_judge(D, R, [col], [PRESENT],
                              OrderedDict([(ABSENT, [spec_entry(kind, enc)])]),
                              0, None, None, {'kind': kind, 'val': enc,
                                              'with_present': False})
                # (b) missing field + a constraint on the present field
                pres = pick_values(col, 'max_nulls', self.tier)
                if pres:
                    for order in (0, 1):
                        items = [(ABSENT, [spec_entry(kind, enc)]),
                                 (PRESENT, [spec_entry('max_nulls', pres[0])])]
                        if order:
                            items.reverse()
                        run_and_judge(D, R, [col], [PRESENT],
                                      OrderedDict(items), 0, None, None,
                                      {'kind': kind, 'val': enc,
                                       'with_present': True, 'order': order})

    def report_fields(self, c1, n1, c2, n2, mode):
        """All kinds at once on two fields: every constraint satisfied
        ('sat'), every one violated ('viol'), the first field satisfied, the
        second violated and a field the data lacks ('mixed'), or ('nulls')
        the first field satisfied with every other kind null-valued, the
        second with ONE constraint only and a missing field with another -
        three fields whose sets of kinds all differ."""
        fields = OrderedDict()
        for idx, (c, n) in enumerate(((c1, n1), (c2, n2))):
            es = []
            for kind in A.KINDS:
                pv = pick_values(c, kind, self.tier)
                pycol = A.py_column(c)
                svals = [e for e in pv if M.sat(
                    kind, model_value(kind, e), pycol, c['fam'],
                    epsilon=0) is True]
                fvals = [e for e in pv if e not in svals]
                if mode == 'nulls':
                    if idx == 0:
                        if svals:
                            es.append(spec_entry(kind, svals[0]))
                        elif not (kind == 'type' and any(
                                A.bound_needs_type_date(e['val'])
                                for e in es)) and kind != 'rex':
                            es.append(spec_entry(kind, None))
                    elif fvals and not es and kind != 'type':
                        es.append(spec_entry(kind, fvals[0]))
                    continue
                if mode == 'sat' or (mode == 'mixed' and idx == 0):
                    pickv = svals
                else:
                    pickv = fvals
                if pickv:
                    es.append(spec_entry(kind, pickv[0]))
            if es:
                fields[n] = es
        if mode == 'mixed':
            fields[ABSENT] = [spec_entry('max_nulls', 0),
                              spec_entry('type', 'int')]
        elif mode == 'nulls':
            fields[ABSENT] = [spec_entry('no_duplicates', True)]
        return fields

    def run_observe(self, R, case):
        """Histories of observations on one result object.  ops = the five
        ways of looking at a result; a history = a permutation of them, each
        made twice in a row (to_frame() the first time, its documented alias
        to_dataframe() the second).  Oracle: the verdicts are first judged
        against the model in the usual way; then every observation in every
        history equals the same observation made FIRST on a fresh result."""
        import itertools
        D = self.D
        c1, c2 = case['c1'], case['c2']
        n1, n2 = 'a', 'b c'
        fields = self.report_fields(c1, n1, c2, n2, case['mode'])
        if not fields:
            return
        report, ascii = case['report'], case['ascii']
        sub = {'mode': case['mode'], 'report': report, 'ascii': ascii}
        hook = {}
        observed = run_and_judge(D, R, [c1, c2], [n1, n2], fields, 0,
                                 'strict', report, sub, ascii=ascii,
                                 hook=hook)
        if observed is None:
            return
        fresh = hook['fresh']

        def look(v, what, nth=0):
            if what == 'totals':
                return [v.passes, v.failures]
            if what == 'counts':
                return dict((f, [r.passes, r.failures])
                            for f, r in v.fields.items())
            if what == 'fields':
                return dict((f, dict((k, _verdict_cell(x))
                                     for k, x in r.items()))
                            for f, r in v.fields.items())
            if what == 'str':
                return str(v)
            fr = v.to_dataframe() if nth else v.to_frame()
            # keyed by field and column: the statement fixes no order
            names = [str(x) for x in fr['field']]
            return dict((f, dict(
                (str(c), (int(fr[c].iloc[i]) if c in ('passes', 'failures')
                          else _verdict_cell(fr[c].iloc[i])))
                for c in fr.columns if c != 'field'))
                for i, f in enumerate(names))

        def new():
            status, v = fresh()
            R.ev(1, 0)
            return v if status == 'ok' else None

        # reference: each observation made first (and alone) on a fresh one
        ref = {}
        for what in A.OBSERVATIONS:
            v = new()
            if v is None:
                return
            ref[what] = look(v, what)
        # the references themselves against the verdicts judged above
        want_fields = dict((f, dict(of)) for f, of in observed.items())
        R.checked += 3
        if ref['fields'] != want_fields or ref['totals'] != [
                sum(1 for of in observed.values() for x in of.values() if x),
                sum(1 for of in observed.values() for x in of.values()
                    if not x)]:
            R.viol('fresh-result-differs-between-calls',
                   'same-call-same-result',
                   dict(sub, first=want_fields, again=ref['fields'],
                        totals=ref['totals']), sub)
            return
        used = set(k for of in observed.values() for k in of)
        want_frame = dict(
            (f, dict([('passes', sum(1 for x in of.values() if x)),
                      ('failures', sum(1 for x in of.values() if not x))]
                     + [(k, of.get(k, 'nan')) for k in used]))
            for f, of in observed.items())
        if ref['frame'] != want_frame:
            R.viol('to_frame:exact-columns-and-cells',
                   'tabular-form-equals-verdicts',
                   dict(sub, frame=ref['frame'], expected=want_frame), sub)
            return

        seen_sigs = set()
        for perm in itertools.permutations(A.OBSERVATIONS):
            if perm[0] != case['first']:
                continue
            v = new()
            if v is None:
                return
            done = []
            for what in perm:
                for nth in (0, 1):
                    got = look(v, what, nth)
                    R.checked += 1
                    R.transitions += 1
                    if got == ref[what]:
                        done.append(what)
                        continue
                    # which single earlier observation is enough?
                    culprit = 'sequence'
                    for y in dict.fromkeys(done):
                        v2 = new()
                        if v2 is None:
                            break
                        look(v2, y)
                        if look(v2, what) != ref[what]:
                            culprit = y
                            break
                    sig = 'observation-changes-result:%s-then-%s' % (
                        culprit, what)
                    if sig not in seen_sigs:
                        seen_sigs.add(sig)
                        R.viol(sig, 'observing-a-result-does-not-change-it',
                               {'frame': {n1: c1, n2: c2},
                                'constraints': json.loads(json.dumps(
                                    OrderedDict((f, build_field_dict(es)[0])
                                                for f, es in fields.items()),
                                    default=str)),
                                'report': report, 'ascii': ascii,
                                'history': done + [what],
                                'observation': what,
                                'on_a_fresh_result': ref[what],
                                'after_the_history': got},
                               dict(sub, perm=list(perm)))
                    break
                else:
                    continue
                break
        R.out('observe|%s|%s' % (case['mode'], ''.join(
            'T' if x else 'F' for of in observed.values()
            for x in of.values())[:24]))

    def run_report(self, R, case):
        D = self.D
        c1, c2, n1, n2 = case['c1'], case['c2'], case['n1'], case['n2']
        for mode in ('sat', 'viol', 'mixed'):
            fields = self.report_fields(c1, n1, c2, n2, mode)
            if not fields:
                continue
            for report in ('all', 'fields', 'records'):
                run_and_judge(D, R, [c1, c2], [n1, n2], fields, 0, 'strict',
                              report, {'mode': mode, 'report': report})

    def run_file(self, R, case):
        D = self.D
        col, kind = case['col'], case['kind']
        path = os.path.join(self.sandbox, 'c.tdda')
        full = self.tier == 'thorough' and len(col['vals']) <= 1
        if full:
            values = A.constraint_values(col, kind, self.tier)
        else:
            values = pick_values(col, kind, self.tier) + [None]
        for enc in values:
            if isinstance(enc, list) and enc and enc[0] in ('dto', 'dta'):
                continue                  # objects cannot be in a file
            vs = A.variants(kind, enc)
            vs = vs[:6] if full else ([vs[0], vs[-1]] if len(vs) > 1 else vs)
            for var in vs:
                entries = [spec_entry(kind, enc, var['prec'])]
                fields = OrderedDict([(PRESENT, entries)])
                via_dict = run_and_judge(D, R, [col], [PRESENT], fields,
                                         var['eps'], var['tc'], None,
                                         dict(var, val=enc, route='dict'),
                                         judge=False)
                via_file = run_and_judge(D, R, [col], [PRESENT], fields,
                                         var['eps'], var['tc'], None,
                                         dict(var, val=enc, route='file'),
                                         path=path)
                # the same file named in every other FORM of a path argument:
                # same verdicts (or the same refusal) as for the plain str
                for form in A.PATH_FORMS:
                    if form == 'str' or not os.path.exists(path):
                        continue
                    via_form = run_and_judge(
                        D, R, [col], [PRESENT], fields, var['eps'], var['tc'],
                        None, dict(var, val=enc, route='file', form=form),
                        path=path, path_form=form, judge=False, agg=False,
                        on_exc='return')
                    R.checked += 1
                    if via_form != ('EXC' if via_file is None else via_file):
                        R.viol('constraints-path-form:%s:%s' % (
                            form, 'raises' if via_form == 'EXC' else
                            'verdicts-differ'),
                            'every-form-of-a-path-names-the-same-file',
                            {'column': col, 'kind': kind, 'value': enc,
                             'form': form, 'as_str': via_file,
                             'in_this_form': via_form},
                            dict(var, val=enc, form=form))
                if os.path.exists(path):
                    os.remove(path)
                R.checked += 1
                if via_dict is not None and via_file is not None and \
                        via_dict != via_file:
                    R.viol('file-route-differs:%s:%s' % (kind, col['fam']),
                           'file-and-dictionary-routes-agree',
                           {'column': col, 'kind': kind, 'value': enc,
                            'dict': via_dict, 'file': via_file},
                           dict(var, val=enc))


CHECK = C02()
