# -*- coding: utf-8 -*-
"""
C13 - every expression rexpy returns compiles, is anchored, matches at least
one example, is returned once, and there are never more expressions than
distinct examples (none for an empty input); capture-group tagging changes
only the grouping.

Same enumeration machinery as C03 (mc.checks.c03.RexDriver: example sets over
the class-covering alphabets x option lattice x input forms on the real
tdda.rexpy.extract / pdextract; E2 over every random.sample answer for small
Size settings), extended with max_patterns in {None,1,2} and
min_strings_per_pattern in {1,2}, and with every option point evaluated twice
- tag=False and tag=True - to compare the two results.

Oracle (mc.models.rex_spec, independent of tdda) for the returned list R and
the kept examples K (supplied, not discarded by None / remove_empties):
  valid      every r compiles under UNICODE|DOTALL
  anchored   every r starts with '^' and ends with an unescaped '$'
  useful     every r matches in full at least one element of K
  unique     no r occurs twice
  count      len(R) <= number of distinct elements of K   (so R == [] when K
             is empty: clause `none-for-empty-input`)
  tag        R(tag=True) and R(tag=False) have the same length, together
             match exactly the same supplied strings (also under pruning), and
             expression by expression - in some order, no position demanded -
             match the same supplied strings (equal multisets of match
             vectors: "changes only the grouping")
A frequency-mapping entry with count 0 was supplied zero times: it is not an
example (an all-zero mapping is an empty input).
Round 3 added the layers `uclasses`, `meta-roles`, `zero-counts`,
`sampled-counts`, `real-random` (see mc.checks.c03); on the real random
module the tagged call follows the untagged one WITHOUT resetting the global
generator when an integer seed is given (the seed is what makes the two
reproducible), and from the same pre-state when seed is None.
Nothing is demanded about WHICH examples survive pruning, nor that
len(R) <= max_patterns (not part of the statement).

Violation signatures: `<clause-kind>:<root cause>` where the root cause is
established by the counterfactual substitution of C03 (bracket:{^,-},
nonascii-digit:U+XXXX, zero-count-entry) or, failing that, the character
classes involved; `real-random:<tag-kind>:seed=<zero|nonzero|None>` for a
tagged/untagged difference on the real random module.
"""
from mc.engine import Res, Chooser, Diverged, explore_choices
from mc import rex_alphabet as A
from mc import rex_seams as S
from mc.models import rex_spec as M
from mc.checks.c03 import (RexDriver, ASCII_SINGLES,
                           regex_kinds)

PRUNE_POINTS = [{'max_patterns': 1}, {'max_patterns': 2},
                {'min_strings_per_pattern': 2}]


class C13(RexDriver):
    pid = 'C13'
    title = ('every expression rexpy returns compiles, is anchored, matches '
             'at least one example, is unique; never more expressions than '
             'distinct examples; tagging changes only grouping')
    technique = ('bounded exhaustive enumeration of example collections x '
                 'option lattice (with pruning options) x input forms on the '
                 'real rexpy, every point evaluated with tag=False and '
                 'tag=True (E1); every random.sample answer for small Size '
                 'settings, the tagged run replaying the untagged run\'s '
                 'answers (E2); invariants checked with python re')
    rule = ('cases = example sets as in C03 (size<=1: every non-tag option '
            'combination (120) plus pruning options within 2 deviations; '
            'size 2 over the 157 strings: options within 1 deviation; size 2 '
            'over the 40-string sub-alphabet and the structured list: within '
            '2 deviations; thorough adds Sigma_t, triples, the full 720-point '
            'lattice; structured families from the grammar of '
            'rex_alphabet.family_sets x vlf off/on x extra letters; '
            'two-shape sets with frequency ties x pruning options x vlf) '
            'each run with tag off and on, and for the sampled path '
            '(set of 3-5 strings, Size in {1,2}^3, pruning point) with every '
            'sample answer explored (also frequency mappings with counts '
            'over {1,2,3}); Unicode general-category representatives, regex '
            'metacharacter roles x full_escape, zero-count mapping entries, '
            'and the real random module x seeds {0,1,None} (round 3, as '
            'C03); an evaluation is one extract/pdextract call; a case is non-trivial when at least one evaluation '
            'returned at least one expression')
    assumptions = [
        'alphabets, set sizes and deviation bounds as listed in the rule; '
        'java / posix dialects and lone surrogates excluded',
        '"distinct examples" is read as distinct supplied, non-discarded '
        'strings (the weaker bound when stripping merges examples)',
        'tag equivalence: equal number of expressions, equal set of '
        'supplied strings matched, and equal multisets of per-expression '
        'match vectors over the supplied strings (not position by position)',
        'zero-count mapping entries are not examples; negative counts are '
        'outside (documented as non-negative); real-random layer: global '
        'generator pre-states random.Random(11|12).getstate(), restored '
        'afterwards; full_escape enumerated in the meta-roles layer only',
        'pdextract accepts no options (no tag): pandas forms are checked '
        'for the per-expression clauses only, at default options',
        'the tagged sampled run is given the same random.sample answers as '
        'the untagged run; a different sequence of sample calls is reported',
        'thorough repeats only the quick layers under hash seeds 1 and 2',
        'every case and history starts from the pristine module state '
        '(introspected, incl. mutable default arguments); histories check '
        'the per-list clauses on the last call, a result merely different '
        'from the fresh-state one is counted as unspecified (C14)',
        'nothing is demanded about max_patterns / min_strings_per_pattern '
        'being honoured: the statement only quantifies over those settings',
        'trusted base: python re as the meaning of an expression',
    ]
    prune_axes = True

    # ------------------------------------------------------------- layers
    def layers(self, tier):
        self._tier = tier
        L = [('n01-full', 'sets of size <=1 and hand-picked larger sets x '
              'all 120 non-tag option combinations + pruning options within '
              '2 deviations, tag off/on; ASCII singles within 1 deviation'),
             ('n2-dev1', 'all pairs of the 157 strings over Sigma_q (L<=2) x '
              'options (incl. pruning) within 1 deviation, tag off/on; dict '
              'and pandas object-Series forms at the default (categorical '
              'and two-Series forms: n01-full, wide)'),
             ('n2-dev2-sub', 'all pairs of the 40-string sub-alphabet x '
              'options within 2 deviations, tag off/on'),
             ('n2-structured', 'all pairs of structured examples x options '
              'within 2 deviations, tag off/on'),
             ('sampled', 'E2: sets of 3-5 from the 8-string pool x 8 Size '
              'settings x pruning points, every random.sample answer, tagged '
              'run replaying the same answers'),
             ('families', 'structured families: 2-4 strings of one shape '
              '(1-3 fragments over 7 character classes) whose run lengths '
              '{0,1,2,3,4,6} differ in one fragment or in all x {default, '
              'variableLengthFrags, variableLengthFrags + extra letters '
              '_-.}, tag off/on'),
             ('ties', 'two-shape quadruples and pairs of equal frequency '
              '(both orders) and two-shape sets differing in one fragment '
              'class x {default, max_patterns 1, 2, min_strings_per_pattern '
              '2} x variableLengthFrags off/on, tag off/on'),
             ('wide', 'K same-shape examples, K in 10..13, one fragment '
              'constant except at input position q (every q); 4-7 '
              'punctuation characters in every rotation; 98-101 fragments; '
              'x {default, perl, vlf, max_patterns=1}, tag off/on, dict and '
              'pandas forms'),
             ('history', 'E3: every sequence of 1-2 (3) extract() calls in '
              'one process over menus of 3 example sets sharing coarse '
              'signature and group count, x extra_letters x tag x dialect; '
              'per-list clauses on the last call'),
             ('refine', 'E2: sets of 4-5 from the class-refinement pools x 8 '
              'Size settings x {default, max_patterns=1}, tagged run '
              'replaying the same answers')]
        L += self.round3_layers()
        if tier == 'thorough':
            L += [('t-n1-wide', 'singles over Sigma_t (L<=2) and Sigma_q '
                   '(L=3) x 152 points [hash seed 0 only]'),
                  ('t-ascii2', 'all pairs of single ASCII characters x '
                   'options within 1 deviation [hash seed 0 only]'),
                  ('t-n3-dev1', 'all triples of the 40-string sub-alphabet '
                   'x options within 1 deviation [hash seed 0 only]'),
                  ('t-n3-dev2-sub', 'all triples of the 20-string '
                   'sub-alphabet x options within 2 deviations '
                   '[hash seed 0 only]'),
                  ('t-sampled', 'E2: sets of 3-5 from the 10-string pool x '
                   '27 Size settings x pruning points [hash seed 0 only]'),
                  ('t-n2-dev2', 'all pairs over Sigma_q (L<=2) x options '
                   'within 2 deviations (the part beyond 1) '
                   '[hash seed 0 only]'),
                  ('t-n2-sub-rest', 'all pairs of the 40-string sub-alphabet '
                   'and of the structured list x the rest of the full '
                   '720-point lattice [hash seed 0 only]'),
                  ('t-n2-wide', 'all pairs of the 703 strings over Sigma_t '
                   '(L<=2) x default and each pruning option '
                   '[hash seed 0 only]')]
        return L

    def cases(self, tier, layer):
        import os
        if layer.startswith('t-') and \
                os.environ.get('PYTHONHASHSEED', '0') not in ('0', ''):
            return
        if layer == 'n01-full':
            yield {'ex': [], 'pts': 'full', 'forms': 'all-maps'}
            yield {'ex': [None], 'pts': 'full', 'forms': 'all-maps'}
            seen = set()
            for s in self.pool_q() + A.STRUCTURED + A.LONG_STRUCTURED:
                if s not in seen:
                    seen.add(s)
                    yield {'ex': [s], 'pts': 'full', 'forms': 'all-maps'}
            for s in ASCII_SINGLES:
                if s not in seen:
                    seen.add(s)
                    yield {'ex': [s], 'pts': 'dev1', 'forms': 'list'}
            for xs in A.STRUCTURED_SETS:
                yield {'ex': list(xs), 'pts': 'full', 'forms': 'all-maps'}
        elif layer == 'n2-dev1':
            for xs in A.example_sets(self.pool_q(), 2):
                yield {'ex': xs, 'pts': 'dev1', 'forms': 'lite'}
        elif layer == 'n2-dev2-sub':
            for xs in A.example_sets(A.sub_alphabet(40), 2):
                yield {'ex': xs, 'pts': 'dev2', 'forms': 'list'}
        elif layer == 'n2-structured':
            for xs in A.example_sets(A.STRUCTURED, 2):
                yield {'ex': xs, 'pts': 'dev2', 'forms': 'list'}
        elif layer == 'sampled':
            for c in self.sampled13(A.SAMPLED_POOL_Q, (3, 4), (5,),
                                    A.SIZE_SETTINGS('quick')):
                yield c
        elif layer == 'families':
            for xs in A.family_sets(tier):
                yield {'ex': xs, 'pts': 'family', 'forms': 'list'}
        elif layer == 'ties':
            for xs in A.tie_sets(tier):
                yield {'ex': xs, 'pts': 'prune-vlf', 'forms': 'list'}
            for xs in A.two_shape_sets(tier):
                yield {'ex': xs, 'pts': 'prune-vlf', 'forms': 'list'}
            for xs in A.boundary_sets():
                yield {'ex': xs, 'pts': 'prune-vlf', 'forms': 'list'}
        elif layer == 'wide':
            for xs in A.wide_sets():
                yield {'ex': xs, 'pts': 'wide', 'forms': 'all'}
            for xs in A.fragment_limit_sets():
                yield {'ex': xs, 'pts': 'dev0', 'forms': 'list'}
        elif layer == 'history':
            for c in self.history_cases():
                yield c
        elif layer == 'refine':
            for (name, pool, sizes, kw) in A.REFINE_POOLS:
                for n in sizes:
                    if n > 5:
                        continue
                    for xs in A.example_sets(pool, n):
                        for st in A.SIZE_SETTINGS('quick'):
                            for p in ({}, {'max_patterns': 1}):
                                yield {'ex': xs, 'size': st, 'seed': None,
                                       'prune': dict(p, **kw)}
        elif layer in ('uclasses', 'meta-roles', 'zero-counts',
                       'sampled-counts', 'real-random'):
            for c in self.round3_cases(layer):
                yield c
        elif layer == 't-n1-wide':
            seen = set(self.pool_q())
            for s in (A.strings_upto(A.SIGMA_T, 2)
                      + A.strings_upto(A.SIGMA_Q, 3)):
                if s not in seen:
                    seen.add(s)
                    yield {'ex': [s], 'pts': 'full', 'forms': 'list'}
        elif layer == 't-ascii2':
            for xs in A.example_sets(ASCII_SINGLES, 2):
                yield {'ex': xs, 'pts': 'dev1', 'forms': 'list'}
        elif layer == 't-n3-dev1':
            for xs in A.example_sets(A.sub_alphabet(40), 3):
                yield {'ex': xs, 'pts': 'dev1', 'forms': 'all'}
        elif layer == 't-n3-dev2-sub':
            for xs in A.example_sets(A.sub_alphabet(20), 3):
                yield {'ex': xs, 'pts': 'only2', 'forms': 'list'}
        elif layer == 't-sampled':
            from mc.checks.c03 import T_SAMPLED_POOL
            for c in self.sampled13(T_SAMPLED_POOL, (3, 4), (5,),
                                    A.SIZE_SETTINGS('thorough')):
                yield c
        elif layer == 't-n2-dev2':
            for xs in A.example_sets(self.pool_q(), 2):
                yield {'ex': xs, 'pts': 'only2', 'forms': 'list'}
        elif layer == 't-n2-sub-rest':
            for xs in A.example_sets(A.sub_alphabet(40), 2):
                yield {'ex': xs, 'pts': 'rest', 'forms': 'list'}
            for xs in A.example_sets(A.STRUCTURED, 2):
                yield {'ex': xs, 'pts': 'rest', 'forms': 'list'}
        elif layer == 't-n2-wide':
            for xs in A.example_sets(A.strings_upto(A.SIGMA_T, 2), 2):
                yield {'ex': xs, 'pts': 'prune', 'forms': 'list'}
        else:
            raise ValueError(layer)

    def round3_layers(self):
        """The shared round-3 layers (mc.checks.c03.RexDriver.round3_cases),
        every point run with tag off and on."""
        d = dict(RexDriver.round3_layers(self))
        d['uclasses'] = d['uclasses'].replace(
            'x 12 option points', 'x {default, variableLengthFrags, + extra '
            'letters _-.}, tag off/on')
        d['meta-roles'] = d['meta-roles'].replace(
            'x 8 option points', 'x {portable, perl, grep, extra letters '
            '-, _-.; variableLengthFrags with the default and _-.}, tag '
            'off/on,')
        d['zero-counts'] += ('; incl. pruning options; an all-zero '
                             'dictionary is an empty input')
        d['sampled-counts'] = (
            'E2: frequency dictionaries with counts over {1,2,3} on the '
            'sampled path: all 27 count vectors for triples of a 6-string '
            'pool (uniform and cyclic ones also with '
            'min_strings_per_pattern=2), uniform and cyclic vectors for its '
            'sets of 4 x the 4 Size settings with one sampled attempt, every '
            'sample answer, tagged run replaying the same answers; dict / '
            'Counter / OrderedDict')
        d['real-random'] += ('; tag off then on: for an integer seed on '
                             'whatever state the first call left, for seed '
                             'None from the same pre-state')
        return [(k, d[k]) for (k, _) in RexDriver.round3_layers(self)]

    def sampled_count_cases(self, prune=None, settings=None, sizes=(4,)):
        settings = [st for st in A.SIZE_SETTINGS('quick')
                    if st['max_sampled_attempts'] == 1]
        for c in RexDriver.sampled_count_cases(self, {}, settings, sizes):
            yield c
            if c['form'] == 'dict' and len(c['ex']) == 3 and \
                    c['counts'] in A.count_vectors(3):
                yield dict(c, prune={'min_strings_per_pattern': 2})

    def sampled13(self, pool, sizes_all, sizes_default_only, settings):
        for n in tuple(sizes_all) + tuple(sizes_default_only):
            for xs in A.example_sets(pool, n):
                for st in settings:
                    yield {'ex': xs, 'size': st, 'seed': None, 'prune': {}}
                    # pruning happens after the sampled loop has ended: the
                    # pruning points run with one sampled attempt only
                    if n in sizes_all and st['max_sampled_attempts'] == 1:
                        for p in PRUNE_POINTS:
                            yield {'ex': xs, 'size': st, 'seed': None,
                                   'prune': p}

    # ------------------------------------------------------ option points
    def axes_notag(self):
        ax = type(A.OPTION_AXES)((k, v) for (k, v) in A.OPTION_AXES.items()
                                 if k != 'tag')
        ax.update(A.PRUNE_AXES)
        return ax

    def points(self, name):
        cache = self.__dict__.setdefault('_pts13', {})
        if name in cache:
            return cache[name]
        ax = self.axes_notag()

        def prune_dev(o):
            return A.n_deviations(o, A.PRUNE_AXES)
        allpts = A.option_lattice(None, ax)
        if name == 'full':
            # every non-tag option combination at the default pruning, plus
            # the pruning points within 2 deviations
            opts = [o for o in allpts if prune_dev(o) == 0
                    or A.n_deviations(o, ax) <= 2]
        elif name == 'rest':
            opts = [o for o in allpts if A.n_deviations(o, ax) > 2]
        elif name == 'only2':
            opts = [o for o in allpts if A.n_deviations(o, ax) == 2]
        elif name == 'wide':
            d = dict((k, v[0]) for (k, v) in ax.items())
            opts = [dict(d, **x) for x in
                    ({}, {'dialect': 'perl'}, {'variableLengthFrags': True},
                     {'max_patterns': 1})]
        elif name == 'family':
            opts = [o for o in allpts if prune_dev(o) == 0
                    and not o['strip'] and not o['remove_empties']
                    and o['dialect'] == 'portable'
                    and o['extra_letters'] in (None, '_-.')
                    and (o['variableLengthFrags']
                         or o['extra_letters'] is None)]
        elif name == 'meta':
            d = dict((k, v[0]) for (k, v) in ax.items())
            opts = []
            for o in A.META_OPTION_POINTS:
                if not o['tag']:
                    o2 = dict(d, **o)
                    del o2['tag']
                    opts.append(o2)
        elif name == 'prune-vlf':
            opts = [o for o in allpts if prune_dev(o) <= 1
                    and not o['strip'] and not o['remove_empties']
                    and o['dialect'] == 'portable'
                    and o['extra_letters'] is None]
        elif name == 'prune':
            opts = [o for o in allpts if A.n_deviations(o, ax) <= 1
                    and (prune_dev(o) == 1 or A.n_deviations(o, ax) == 0)]
        else:
            opts = A.option_lattice(int(name[3:]), ax)
        cache[name] = opts
        return opts

    def form_points(self, pts, forms):
        d = dict((k, v[0]) for (k, v) in self.axes_notag().items())
        if forms == 'dicts':
            # the examples ARE a mapping
            return ([('dict', o) for o in self.points(pts)]
                    + [(f, d) for f in A.DICT_FORMS[1:]])
        out = [('list', o) for o in self.points(pts)]
        if forms in ('all', 'all-maps'):
            out += [(f, d) for f in (A.DICT_FORMS if forms == 'all-maps'
                                     else A.DICT_FORMS[:1])]
            out += [('pd:%s' % k, d) for k in A.PANDAS_KINDS]
        elif forms == 'lite':
            out.append(('dict', d))
            out.append(('pd:object', d))
        return out

    # ----------------------------------------------------------- oracle
    def clauses(self, rex, supplied, opts):
        """Failed per-list clauses as [(kind, clause, info)]."""
        strip = bool(opts.get('strip'))
        rem = bool(opts.get('remove_empties'))
        kept = M.kept_examples(supplied, strip, rem)
        bad = []
        if not isinstance(rex, list) or \
                not all(isinstance(r, str) for r in rex):
            return [('not-strings', 'valid', {'returned': repr(rex)[:200]})]
        for (i, r) in enumerate(rex):
            err = M.compile_error(r)
            if err:
                bad.append(('invalid', 'valid', {'rex': r, 'error': err}))
                continue
            if not M.is_anchored(r):
                bad.append(('unanchored', 'anchored', {'rex': r}))
            if not any(M.fullmatch(r, s) for s in kept):
                bad.append(('useless', 'useful', {'rex': r}))
        if len(set(rex)) != len(rex):
            bad.append(('duplicate', 'unique', {}))
        if len(rex) > len(kept):
            if kept:
                bad.append(('too-many', 'count',
                            {'n_rex': len(rex), 'n_distinct': len(kept)}))
            else:
                bad.append(('nonempty-for-empty', 'none-for-empty-input',
                            {'n_rex': len(rex)}))
        return bad

    def tag_clause(self, rexF, rexT, supplied):
        """Tagging changes only the grouping: the same number of expressions
        and exactly the same supplied strings matched (by any expression) -
        the statement does not demand a position-by-position correspondence."""
        probes = [s for s in supplied if s is not None]
        if len(rexF) != len(rexT):
            return [('tag-length', 'tag-only-grouping',
                     {'untagged': rexF, 'tagged': rexT})]
        mF = [s for s in probes if any(M.fullmatch(r, s) for r in rexF)]
        mT = [s for s in probes if any(M.fullmatch(r, s) for r in rexT)]
        if mF != mT:
            return [('tag-matches', 'tag-only-grouping',
                     {'untagged': rexF, 'tagged': rexT,
                      'matched_untagged': mF, 'matched_tagged': mT})]
        # "changes only the grouping": expression by expression (in some
        # order - no position is demanded) the same supplied strings match
        vF = sorted(M.match_vector(r, probes) for r in rexF)
        vT = sorted(M.match_vector(r, probes) for r in rexT)
        if vF != vT:
            return [('tag-vectors', 'tag-only-grouping',
                     {'untagged': rexF, 'tagged': rexT, 'probes': probes,
                      'vectors_untagged': [list(v) for v in vF],
                      'vectors_tagged': [list(v) for v in vT]})]
        return []

    def evaluate(self, R, supplied, form, opts):
        """Run tag off and on (list/dict forms) or once (pandas); return the
        failed clauses [(kind, clause, info)] and the untagged list."""
        failed = []
        results = {}
        tags = (False,) if form.startswith('pd:') else (False, True)
        for tag in tags:
            o = dict(opts)
            o['tag'] = tag
            rex, _, exc = self.call(supplied, form, o)
            R.ev()
            if exc is not None:
                failed.append(('raises:%s' % type(exc).__name__,
                               'extract-returns',
                               {'tag': tag, 'exception': repr(exc)[:300]}))
                continue
            results[tag] = rex
            sup = self.supplied(supplied, form)
            for (k, c, info) in self.clauses(rex, sup, opts):
                info = dict(info)
                info['tag'] = tag
                info['returned'] = rex
                failed.append((k, c, info))
        if len(results) == 2:
            failed += self.tag_clause(results[False], results[True],
                                      self.supplied(supplied, form))
        return failed, results.get(False)

    def check_point(self, R, examples, form, opts, sub):
        supplied = self.supplied(examples, form)
        failed, rex = self.evaluate(R, examples, form, opts)
        if rex:
            R.nontrivial = True
        kept = M.kept_examples(supplied, bool(opts.get('strip')),
                               bool(opts.get('remove_empties')))
        if not failed:
            R.out('%d/%d:%s' % (len(rex or []), len(kept),
                                regex_kinds(rex or [])))
            return
        R.out('V:%s' % '+'.join(sorted(set(f[0] for f in failed))))
        seen = set()
        for (kind, clause, info) in failed:
            if (kind, clause) in seen:
                continue
            seen.add((kind, clause))

            def fails(s2, o2, _kind=kind):
                f2, _ = self.evaluate(Res(), s2, form, o2)
                R.ev(2, checked=0)
                return any(f[0] == _kind for f in f2)
            cause = self.diagnose(supplied, opts, fails)
            detail = {'examples': supplied, 'form': form,
                      'options': A.opt_key(opts)}
            detail.update(info)
            R.viol('%s:%s' % (kind, cause), clause, detail, sub)

    def judge_history(self, R, case, seq, examples, opts, res, fresh):
        (rex, _, exc) = res
        (rex0, _, exc0) = fresh
        sub = {'sequence': [list(x) for x in seq]}
        detail = {'history': self.describe_history(case, seq),
                  'fresh_state_result': rex0}
        if exc is not None:
            R.nontrivial = True
            R.out('hist-raises:%s' % type(exc).__name__)
            R.viol('%sraises:%s:el=%s'
                   % ('history-dependent:' if exc0 is None else '',
                      type(exc).__name__, opts.get('extra_letters')),
                   'extract-returns',
                   dict(detail, exception=repr(exc)[:300]), sub)
            return
        if rex:
            R.nontrivial = True
        failed = self.clauses(rex, examples, opts)
        if failed:
            R.out('hist%d:V:%s' % (len(seq), '+'.join(sorted(set(
                f[0] for f in failed)))))
            fresh_bad = set(f[0] for f in self.clauses(rex0, examples, opts)) \
                if exc0 is None else set(['raises'])
            done = set()
            for (kind, clause, info) in failed:
                if kind in done:
                    continue
                done.add(kind)
                if kind not in fresh_bad:
                    sig = 'history-dependent:%s:el=%s' % (
                        kind, opts.get('extra_letters'))
                else:
                    def fails(s2, o2, _kind=kind):
                        self.fresh_state()
                        o3 = dict(o2)
                        r2, _, e2 = self.call(s2, 'list', o3)
                        R.ev(1, checked=0)
                        return e2 is not None or any(
                            f[0] == _kind for f in self.clauses(r2, s2, o3))
                    sig = '%s:%s' % (kind, self.diagnose(examples, opts,
                                                         fails))
                R.viol(sig, clause, dict(detail, returned=rex, **info), sub)
        elif exc0 is None and rex != rex0:
            R.unspec += 1
            R.out('hist%d:differs-from-fresh' % len(seq))
        else:
            R.out('hist%d:%d/%d' % (len(seq), len(rex), len(examples)))

    def run_unsampled(self, R, case):
        ex = case['ex']
        for (form, opts) in self.form_points(case['pts'], case['forms']):
            self.check_point(R, ex, form, opts,
                             {'form': form, 'options': A.opt_key(opts)})

    # --------------------------------------------------------------- E2
    def run_sampled(self, R, case):
        ex, size, seed = self.case_examples(case), case['size'], case['seed']
        form = case.get('form', 'list')
        opts = dict((k, v[0]) for (k, v) in self.axes_notag().items())
        opts.update(case['prune'])
        supplied = self.supplied(ex, form)
        kept = M.kept_examples(supplied)

        def run(ch):
            fake = S.FakeRandom(ch)
            o = dict(opts)
            o['tag'] = False
            rex, _, exc = self.call(ex, form, o, size=size, seed=seed,
                                    fake=fake)
            return rex, exc, fake.n_samples

        nexec = 0
        for (choices, (rexF, excF, nsamp)) in explore_choices(run):
            nexec += 1
            R.ev()
            sub = {'choices': choices}
            base = {'examples': supplied, 'form': form, 'size': size,
                    'seed': seed, 'options': A.opt_key(opts),
                    'sample_choices': choices}
            # tagged run with the same answers
            ch2 = Chooser(choices)
            fake2 = S.FakeRandom(ch2)
            o = dict(opts)
            o['tag'] = True
            diverged = None
            try:
                rexT, _, excT = self.call(ex, form, o, size=size,
                                          seed=seed, fake=fake2)
            except Diverged as e:
                rexT, excT, diverged = None, None, str(e)
            R.ev()
            if diverged is None and excT is None and \
                    [c for (c, _) in ch2.trace] != list(choices):
                diverged = 'different sequence of sample calls'
            failed = []
            for (tag, rex, exc) in ((False, rexF, excF), (True, rexT, excT)):
                if exc is not None:
                    failed.append(('sampled-raises:%s' % type(exc).__name__,
                                   'extract-returns',
                                   {'tag': tag, 'exception': repr(exc)[:300]}))
                elif rex is not None:
                    for (k, c, info) in self.clauses(rex, supplied, opts):
                        info = dict(info)
                        info['tag'] = tag
                        info['returned'] = rex
                        failed.append(('sampled-' + k, c, info))
            if diverged is not None:
                failed.append(('tag-changes-sampling', 'tag-only-grouping',
                               {'how': diverged}))
            elif rexF is not None and rexT is not None:
                failed += [('sampled-' + k, c, i) for (k, c, i)
                           in self.tag_clause(rexF, rexT, supplied)]
            if rexF:
                R.nontrivial = True
            if not failed:
                R.out('sampled%d:%d/%d' % (nsamp, len(rexF or []),
                                           len(kept)))
                continue
            R.out('V:%s' % '+'.join(sorted(set(f[0] for f in failed))))
            seen = set()
            for (kind, clause, info) in failed:
                if (kind, clause) in seen:
                    continue
                seen.add((kind, clause))
                detail = dict(base)
                detail.update(info)
                R.viol(self.sampled_sig(R, kind, supplied, opts, form),
                       clause, detail, sub)
        R.states = nexec

    # ------------------------------------------------- real random module
    def run_real(self, R, case):
        """The sampled path on the REAL random module: tag off, then tag on.
        With an integer seed the extraction is reproducible whatever the
        process-wide generator holds, so the second call runs on whatever
        state the first one left; with seed None the caller fixes the
        generator: both calls start from the same pre-state."""
        ex, size, seed = self.case_examples(case), case['size'], case['seed']
        form = case['form']
        opts = dict((k, v[0]) for (k, v) in self.axes_notag().items())
        opts.update(case.get('opts') or {})
        supplied = self.supplied(ex, form)
        kept = M.kept_examples(supplied)
        results = {}
        failed = []
        with S.real_random(case['real']):
            for tag in (False, True):
                if seed is None:
                    S.set_real_state(case['real'])
                o = dict(opts)
                o['tag'] = tag
                rex, _, exc = self.call(ex, form, o, size=size, seed=seed,
                                        real=True)
                R.ev()
                if exc is not None:
                    failed.append(('raises:%s' % type(exc).__name__,
                                   'extract-returns',
                                   {'tag': tag, 'exception': repr(exc)[:300]}))
                    continue
                results[tag] = rex
                for (k, c, info) in self.clauses(rex, supplied, opts):
                    failed.append((k, c, dict(info, tag=tag, returned=rex)))
        if len(results) == 2:
            failed += self.tag_clause(results[False], results[True], supplied)
        if results.get(False):
            R.nontrivial = True
        if not failed:
            R.out('real:%d/%d' % (len(results[False]), len(kept)))
            return
        R.out('V:real:%s' % '+'.join(sorted(set(f[0] for f in failed))))
        seen = set()
        for (kind, clause, info) in failed:
            if (kind, clause) in seen:
                continue
            seen.add((kind, clause))
            detail = {'examples': supplied, 'form': form, 'size': size,
                      'seed': seed, 'global_prestate': case['real'],
                      'options': A.opt_key(opts)}
            detail.update(info)
            if kind.startswith('tag-'):
                # does the difference need the real generator?  (with the
                # seam, both runs get the same answers)
                sig = 'real-random:%s:seed=%s' % (
                    kind, 'None' if seed is None else
                    'zero' if seed == 0 else 'nonzero')
            else:
                sig = self.sampled_sig(R, 'sampled-' + kind, supplied, opts,
                                       form)
            R.viol(sig, clause, detail)

    def sampled_sig(self, R, kind, supplied, opts, form='list'):
        """Signature of a clause failing on the sampled path: if the same
        clause also fails without sampling, the signature of that (same root
        cause as on the unsampled path); otherwise `<kind>:sampling-only`."""
        if not kind.startswith('sampled-'):
            return kind
        base_kind = kind[len('sampled-'):]

        def fails(s2, o2):
            f2, _ = self.evaluate(Res(), s2, form, o2)
            R.ev(2, checked=0)
            return any(f[0] == base_kind for f in f2)
        if not fails(supplied, opts):
            return '%s:sampling-only' % kind
        return '%s:%s' % (base_kind, self.diagnose(supplied, opts, fails))


CHECK = C13()
