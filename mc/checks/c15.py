# -*- coding: utf-8 -*-
"""
C15 - failed text / binary assertions leave faithful artefacts in tmp_dir and
name a comparison command whose files exist; passing assertions write nothing;
nothing is ever written outside tmp_dir.

E1.  A text case is one (actual, reference) pair of line sequences; run_case
drives assertStringCorrect and assertTextFileCorrect over an option product.
A binary case is one pair of byte strings through assertBinaryFileCorrect.
Every single assertion runs under the audit-hook log (mc.fs_seams) with an
empty tmp_dir before it; ref/ and act/ are snapshotted around every case.

Oracle (artefact model on top of mc.models.text_spec):
  pass  -> no write/remove/rename event at all, tmp_dir still empty
  fail  -> the message names >= 1 command;  every `diff A B` names two
           existing files, every `cp A B` (reference missing) an existing A;
           the first command's reference side is the reference file; its
           actual side is the caller's file (untouched) or, for a string, a
           file in tmp_dir holding exactly the string (clauses kept apart:
           same lines / byte exact);
           when an exclusion took effect a post-processed pair in tmp_dir is
           named, and where the model's verdict is a definite failure with a
           defined line alignment the two files differ exactly on the model's
           unexcused pairs, in order, after stripping;
           every event path lies inside tmp_dir, ref/ and act/ are unchanged
  binary fail -> reported offset = first differing index (or the shorter
           length), reported lengths exact.
Third round: the actual of the string entry point also as list / tuple of
lines (text.split('\n'): the raw actual file must hold the same bytes as for
the string); the post-processed pair is compared byte-wise (a line with the
same text on both sides may not differ in its terminator - asserted where
tdda's own comparison, probed per worker, does not count a final newline as a
difference); layer "config": class-level configuration calls between instance
creations (set_defaults(tmp_dir=), set_default_data_location, instance
set_data_location), every assertion judged against the directory configured
for ITS instance.
Pairs the text model leaves unspecified (or holds to be passes that tdda
fails - C04's business) are checked for everything except the content of the
post-processed pair.
"""
import itertools
import os
import re

from mc.engine import Check, Res
from mc import text_alphabet as TA
from mc.fs_seams import FSLOG, inside, snapshot, snapshot_diff
from mc.models import text_spec as TS

# quick: 32-point product (no permutation allowance) + two points with it
POINTS_Q = TA.option_points(strips=[(False, False), (True, True)],
                            patterns=[None, [r'\d+']], mpcs=[0]) + [
    TA.option_point(max_permutation_cases=2),
    TA.option_point(lstrip=True, rstrip=True, max_permutation_cases=2)]
# thorough: 144 points
POINTS_T = TA.option_points(
    strips=[(False, False), (False, True), (True, True)],
    patterns=[None, [r'\d+'], [r'^a\d+$']], mpcs=[0, 2])

# index-mapping slice: remove_lines always set
POINTS_SLICE = TA.option_points(
    strips=[(False, False), (True, True)],
    substrings=[None, ['X']], patterns=[None, [r'\d+']], removes=[['b']],
    mpcs=[0])
# long texts: default, each exclusion alone, permutation allowance
POINTS_LONG = [TA.option_point(),
               TA.option_point(lstrip=True, rstrip=True),
               TA.option_point(ignore_substrings=['X']),
               TA.option_point(ignore_patterns=[r'\d+']),
               TA.option_point(remove_lines=['row 1']),
               TA.option_point(preprocess='drop_eacute'),
               TA.option_point(max_permutation_cases=2)]
FORMS_ALPHA2 = ['a', 'b', 'a1']
SLICE_Q = ['b', 'a', 'X a', 'a1']
SLICE_T = ['b', 'a', 'X a', 'a1', 'a ']

# --- E3 history layer: operations against ONE tmp_dir, never cleaned ---------
# contents (actual lines, reference lines): long/medium/short, failing/passing
HIST_CONTENTS = {
    'long-fail': (['a', 'b', 'a1', 'a', 'a', 'b', 'a', 'a'],
                  ['a', 'b', 'a22', 'a', 'z', 'b', 'a', 'y']),
    'mid-fail': (['a', 'z', 'a1'], ['a', 'y', 'a22']),
    'short-fail': (['a'], ['b']),
    'short-pass': (['a'], ['a']),
    'long-pass': (['a', 'b', 'a1', 'a', 'a', 'b', 'a', 'a'],
                  ['a', 'b', 'a1', 'a', 'a', 'b', 'a', 'a']),
}
HIST_OPTIONS = {
    'plain': TA.option_point(),
    'pattern': TA.option_point(ignore_patterns=[r'\d+']),
    'remove': TA.option_point(remove_lines=['b']),
}
HIST_JUNK = {'stale-long': 'stale line\n' * 60, 'stale-short': 'x'}


def hist_ops(tier):
    ops = []
    for route in ('string', 'file'):
        for refname in ('ref.txt', 'other.txt'):
            for c in sorted(HIST_CONTENTS):
                for o in sorted(HIST_OPTIONS):
                    if o == 'remove' and tier != 'thorough':
                        continue
                    ops.append({'route': route, 'ref': refname,
                                'content': c, 'options': o})
    for c in ('long-fail', 'short-fail', 'short-pass'):
        ops.append({'route': 'binary', 'ref': 'ref.txt', 'content': c,
                    'options': 'plain'})
    # files of the same names put there by someone else beforehand
    for j in sorted(HIST_JUNK):
        ops.append({'route': 'stale', 'ref': 'ref.txt', 'content': j,
                    'options': 'plain'})
    return ops



# --- E3 configuration layer: class-level configuration calls between instance
# creations, assertions through the instance created last -------------------
CONF_OPS = ['new', 'tmp:A', 'tmp:B', 'loc:R1', 'loc:R2', 'iloc:R2',
            'use:string-fail', 'use:file-fail', 'use:string-pass',
            'use:binary-fail']
CONF_USES = [o for o in CONF_OPS if o.startswith('use:')]
CONF_FAIL = (['a', 'z', 'a1'], ['a', 'y', 'a22'])
CONF_POINT = TA.option_point(ignore_patterns=[r'\d+'])


CMD = re.compile(r'^(?P<head>[^\n]*)\n {4}(?P<cmd>diff|fc|cp|copy) '
                 r'(?P<a>\S+) (?P<b>\S+)[ ]*$', re.M)
BININFO = re.compile(r'First difference at byte offset (\d+), '
                     r'(?:both files have length (\d+)|'
                     r'actual length (\d+), expected length (\d+))\.')


def model_opts(point):
    return TS.Options(**TA.kwargs_of(point))


def parse_commands(msg):
    out = []
    for m in CMD.finditer(msg or ''):
        head = m.group('head')
        out.append({'head': head, 'cmd': m.group('cmd'),
                    'a': m.group('a'), 'b': m.group('b'),
                    'post': 'post-processed' in head})
    return out


def split_lines(text):
    xs = text.split('\n')
    if xs and xs[-1] == '':
        xs = xs[:-1]
    return xs


def split_keepends(text):
    """Lines with their '\\n' kept; a last line without one stays bare."""
    xs = text.split('\n')
    out = [x + '\n' for x in xs[:-1]]
    if xs[-1] != '':
        out.append(xs[-1])
    return out


def clip(x, n=300):
    """Shorten long strings inside violation details."""
    if isinstance(x, str):
        return x if len(x) <= n else x[:n // 2] + '...[%d chars]...' \
            % len(x) + x[-n // 2:]
    if isinstance(x, (list, tuple)):
        return [clip(y, n) for y in x]
    return x


def first_difference(a, e):
    """Index of the first differing byte, or the shorter length."""
    n = min(len(a), len(e))
    lo = 0
    while lo < n and a[lo:lo + 1024] == e[lo:lo + 1024]:
        lo += 1024
    for k in range(lo, n):
        if a[k] != e[k]:
            return k
    return n


def is_subsequence(small, big):
    it = iter(big)
    return all(any(x == y for y in it) for x in small)


def dropped(small, big):
    """Elements of big left over when small is matched greedily as a
    subsequence (small must be a subsequence of big)."""
    out, j = [], 0
    for y in big:
        if j < len(small) and small[j] == y:
            j += 1
        else:
            out.append(y)
    return out


class C15(Check):
    pid = 'C15'
    title = ('failed text assertions leave faithful artefacts; passing ones '
             'leave none')
    technique = ('bounded exhaustive enumeration of (actual, reference) line '
                 'sequences x exclusion options through assertStringCorrect '
                 'and assertTextFileCorrect, and of all small byte-string '
                 'pairs through assertBinaryFileCorrect, each single assertion '
                 'observed with an audit-hook file-mutation log, directory '
                 'listings and snapshots, against an artefact model')
    rule = ('text case = one pair of line sequences over the 9-line alphabet '
            '(both of length <= 2; thorough also length 3 on one side; plus '
            'length 3 against 2..3 over a 4/5-line alphabet under the 16 '
            'points that set remove_lines) run through both entry points '
            'under 34 (quick) / 144 (thorough) option points, also with the '
            'actual lacking a final newline, having a doubled one, or CRLF; '
            'binary case = one pair of byte strings of length <= 3 over '
            '{a, b, 00, ff, 0a}, or a common patterned prefix of P bytes (P '
            'in 0, 1, 4095..4097, 8191..8193, 65536) followed by every pair '
            'of tails of length <= 2, or one byte changed inside the prefix '
            '(first, middle, last); long-text cases = 200/1000/5000 lines or '
            '3 lines of 5000/100000 characters with one of 9 named '
            'deviations under 7 option points; operation histories of length 2 (thorough 3) over 45 (thorough 65) '
            'operations against one never-cleaned tmp_dir; '
            'configuration histories = every sequence of 3 (thorough 4) '
            'of 10 operations (new instance, tmp_dir A/B, class data location '
            'R1/R2, instance data location, 4 assertions) + a final '
            'assertion, on ReferenceTest and on a fresh subclass; the actual '
            'of the string entry point also as list / tuple of lines '
            '(everywhere in identical / missing, under the <= 1-option '
            'points elsewhere); forms = final newline absent / present / '
            'doubled / CRLF on the actual x present / absent on the '
            'reference; '
            'missing-reference cases per entry '
            'point.  Non-trivial = the case contains a failing assertion '
            '(artefact clauses exercised); for text cases additionally a '
            'passing one.')
    assumptions = [
        'Python-level file mutations are all visible to sys.addaudithook '
        '(tdda text/binary comparison uses no native writers); ref/ and act/ '
        'are additionally snapshotted (size, sha1, mtime_ns, inode) per case',
        'a post-processed pair is demanded only when an exclusion took '
        'effect (a line removed, a differing pair excused, preprocess changed '
        'a side); its content is checked only where the text model gives a '
        'definite failure and both sides keep the same number of lines',
        'paths contain no blanks (commands are parsed as "diff A B")',
        'an instance made before the latest set_defaults(tmp_dir=) / '
        'set_default_data_location may use the older or the newer setting '
        '(statement silent); one made after it must use the newer one; an '
        'instance-level set_data_location wins over class defaults',
        'whether a final newline is a difference is a gray zone of the text '
        'model: the byte-wise clause on the post-processed pair is asserted '
        'only where tdda itself passes "a" against "a" with these endings '
        'and both sides end in a non-empty line',
        'gray zones of the text model (see C04) are inherited',
    ]

    def hashseeds(self, tier, verif_seed):
        # nothing here depends on hash order; run under the requested seed
        return [verif_seed % 3]

    # ------------------------------------------------------------- layers
    def layers(self, tier):
        L = [('identical', 'identical content: passing assertions write '
                           'nothing'),
             ('binary', 'all pairs of byte strings of length <= 3'),
             ('binary-long', 'common patterned prefix of 0..65536 bytes '
                             '(around the 4096/8192 block edges) + every '
                             'pair of tails of length <= 2; one byte changed '
                             'inside the prefix'),
             ('missing', 'reference file missing'),
             ('seq2', 'all pairs of sequences of length <= 2')]
        L.append(('forms', 'actual string/file without a final newline, '
                           'with a doubled one, with CRLF'))
        L.append(('long', 'many lines (200..5000) / long lines with one '
                          'named deviation'))
        L.append(('history', 'E3: every sequence of 2 (thorough 3) '
                             'operations against one never-cleaned tmp_dir '
                             '(string / file / binary assertions over two '
                             'reference basenames, long/short failing and '
                             'passing contents, stale files), oracle on the '
                             'last assertion + comparison with a fresh '
                             'tmp_dir'))
        L.append(('config', 'E3: every sequence of 3 (thorough 4) operations '
                            'out of {new instance, set_defaults(tmp_dir=A|B), '
                            'set_default_data_location(R1|R2), '
                            'set_data_location(R2), string / file / binary '
                            'assertion through the newest instance} followed '
                            'by one assertion, on ReferenceTest itself and '
                            'on a fresh subclass: artefacts go to the '
                            'directory configured for that instance, the '
                            'other directory stays untouched'))
        L.append(('seq3-slice', 'length 3 against length 2..3 over a 4-line '
                                '(thorough 5-line) alphabet, remove_lines '
                                'set (index mapping needs >= 3 lines)'))
        if tier == 'thorough':
            L.append(('seq3', 'length 3 on one side, <= 2 on the other'))
        return L

    def cases(self, tier, layer):
        pts = 't' if tier == 'thorough' else 'q'
        if layer == 'identical':
            for s in TA.sequences(TA.LAMBDA, 3 if tier == 'thorough' else 2):
                yield {'k': 'text', 'a': s, 'e': s, 'pts': pts, 'lf': 'all'}
        elif layer == 'binary':
            bs = list(TA.byte_strings(3))
            for a in bs:
                for e in bs:
                    yield {'k': 'bin', 'a': a.hex(), 'e': e.hex()}
        elif layer == 'binary-long':
            tails = list(TA.byte_strings(2))
            for P in TA.BYTE_PREFIX_LENGTHS:
                for a in tails:
                    for e in tails:
                        yield {'k': 'bin', 'P': P, 'a': a.hex(),
                               'e': e.hex()}
                if P:
                    for k in sorted(set([0, P // 2, P - 1])):
                        for t in tails[:6] + tails[-1:]:
                            yield {'k': 'bin', 'P': P, 'flip': k,
                                   'a': t.hex(), 'e': t.hex()}
        elif layer == 'long':
            for n in TA.LONG_SIZES:
                for dev in TA.LONG_DEVIATIONS:
                    yield {'k': 'text', 'gen': [n, dev, 0], 'pts': 'long',
                           'lf': 'few'}
            for width in (5000, 100000):
                for dev in TA.LONG_DEVIATIONS:
                    yield {'k': 'text', 'gen': [3, dev, width],
                           'pts': 'long-nopattern', 'lf': 'few'}
        elif layer == 'history':
            depth = 3 if tier == 'thorough' else 2
            every = hist_ops(tier)
            for last in every:
                if last['route'] == 'stale':
                    continue
                for prefix in itertools.product(every, repeat=depth - 1):
                    yield {'k': 'hist', 'ops': list(prefix) + [last]}
        elif layer == 'config':
            depth = 4 if tier == 'thorough' else 3
            for target in ('sub', 'base'):
                for prefix in itertools.product(CONF_OPS, repeat=depth):
                    for last in CONF_USES:
                        yield {'k': 'conf', 'target': target,
                               'ops': list(prefix) + [last]}
        elif layer == 'missing':
            for s in TA.sequences(TA.LAMBDA, 2):
                yield {'k': 'missing', 'a': s}
        elif layer == 'seq2':
            for a in TA.sequences(TA.LAMBDA, 2):
                for e in TA.sequences(TA.LAMBDA, 2):
                    if a != e:
                        yield {'k': 'text', 'a': a, 'e': e, 'pts': pts,
                               'lf': 'all' if tier == 'thorough' else 'list'}
        elif layer == 'forms':
            alpha = ['a', 'é', '', 'b'] if tier == 'thorough' \
                else ['a', 'é', '']
            for a in TA.sequences(alpha, 2):
                for e in TA.sequences(alpha, 2):
                    for fa in (['\n', 0], ['\n', 2], ['\r\n', 1],
                               ['\n', 1]):
                        for fe in (['\n', 1], ['\n', 0]):
                            if fa == ['\n', 1] and fe == ['\n', 1]:
                                continue        # layers identical / seq2
                            yield {'k': 'text', 'a': a, 'e': e, 'pts': 'q',
                                   'fa': fa, 'fe': fe,
                                   'lf': 'all' if tier == 'thorough'
                                   else 'few'}
            # final newline present on one side only / on neither / doubled,
            # over lines the removal and pattern options act on
            for a in TA.sequences(FORMS_ALPHA2, 2):
                for e in TA.sequences(FORMS_ALPHA2, 2):
                    for (fa, fe) in ((0, 1), (1, 0), (2, 0), (0, 0)):
                        yield {'k': 'text', 'a': a, 'e': e, 'pts': 'q',
                               'fa': ['\n', fa], 'fe': ['\n', fe],
                               'lf': 'few'}
        elif layer == 'seq3-slice':
            alpha = SLICE_T if tier == 'thorough' else SLICE_Q
            for a in TA.sequences(alpha, 3, 2):
                for e in TA.sequences(alpha, 3, 2):
                    if a != e and max(len(a), len(e)) == 3:
                        yield {'k': 'text', 'a': a, 'e': e, 'pts': 'slice',
                               'lf': 'few'}
        elif layer == 'seq3':
            pts = 'q'
            for a in TA.sequences(TA.LAMBDA, 3, 3):
                for e in TA.sequences(TA.LAMBDA, 2):
                    yield {'k': 'text', 'a': a, 'e': e, 'pts': pts}
                    yield {'k': 'text', 'a': e, 'e': a, 'pts': pts}

    # ------------------------------------------------------------- worker
    def setup_worker(self, tier):
        from tdda.referencetest.checkfiles import FilesComparison
        self.box = TA.TextSandbox('c15_')
        self.fc = FilesComparison(verbose=False, tmp_dir=self.box.tmp)
        self.probe_cache = {}
        self.newline_probe = self.probe_final_newline()
        FSLOG.install()
        self.sets = {'q': POINTS_Q, 't': POINTS_T, 'slice': POINTS_SLICE,
                     'long': POINTS_LONG,
                     'long-nopattern': [p for p in POINTS_LONG
                                        if not p['ignore_patterns']]}

    def teardown_worker(self):
        box = getattr(self, 'box', None)
        if box is not None:
            box.close()
            self.box = None

    # -------------------------------------------------------------- helpers
    def observed_call(self, method, *args, **kw):
        box = self.box
        with FSLOG.record() as events:
            rk, info = box.call(method, *args, **kw)
        left = sorted(os.listdir(box.tmp))
        return rk, info, list(events), left

    def common_clauses(self, rk, msg, events, left, add):
        """Clauses that hold for every assertion kind.  add(what, detail)."""
        box = self.box
        if rk == 'pass':
            if events or left:
                add('passing-assertion-writes',
                    {'events': events[:6], 'tmp_dir': left})
            return []
        outside = [e for e in events if not inside(e[1], box.tmp)]
        if outside:
            add('write-outside-tmp_dir', {'events': outside[:6]})
        cmds = parse_commands(msg)
        if not cmds:
            add('no-comparison-command', {'message': (msg or '')[:400]})
        for c in cmds:
            if c['cmd'] in ('diff', 'fc'):
                gone = [p for p in (c['a'], c['b']) if not os.path.isfile(p)]
                if gone:
                    add('command-names-missing-file',
                        {'command': c, 'missing': gone})
            else:
                if not os.path.isfile(c['a']):
                    add('copy-command-source-missing', {'command': c})
        return cmds

    def flush(self, R, bad, points, extra):
        """bad: {(what, route): {point index: detail}}.  One violation per
        `what` and minimal option point; routes showing the same thing at the
        same point are merged into one signature."""
        merged = {}
        for (what, route), byp in bad.items():
            for i, d in byp.items():
                m = merged.setdefault(what, {}).setdefault(
                    i, {'routes': [], 'detail': d})
                m['routes'].append(route)
        for what in sorted(merged):
            byp = merged[what]
            for i in sorted(byp):
                if points is not None and any(
                        j != i and points[j] != points[i]
                        and TA.is_subpoint(points[j], points[i])
                        for j in byp):
                    continue
                routes = '+'.join(sorted(byp[i]['routes']))
                d = dict(extra)
                d.update(byp[i]['detail'])
                d['entry'] = routes
                if points is not None:
                    d['options'] = dict(
                        (k, v) for k, v in points[i].items()
                        if v != TA.DEFAULT_POINT[k])
                d['other_option_points_in_this_case'] = len(byp) - 1
                if points is None or what.startswith(
                        ('raw-actual', 'postproc:same-line-differs')):
                    # the cause is in the name; the options are incidental
                    sig = '%s:%s' % (what, routes)
                else:
                    sig = '%s:%s:%s' % (what, TA.option_label(points[i]),
                                        routes)
                R.viol(sig, what.split(':')[0], d,
                       sub={'point': i, 'entry': routes})

    # ------------------------------------------------------------- run_case
    def run_case(self, case):
        if case['k'] == 'text':
            return self.run_text(case)
        if case['k'] == 'bin':
            return self.run_binary(case)
        if case['k'] == 'hist':
            return self.run_history(case)
        if case['k'] == 'conf':
            return self.run_config(case)
        return self.run_missing(case)

    # ----------------------------------------------------------------- text
    def run_text(self, case):
        R = Res()
        box = self.box
        if 'gen' in case:
            a, e = TA.long_text(*case['gen'])
            shown = {'generated': {'lines': case['gen'][0],
                                   'deviation': case['gen'][1],
                                   'line_width': case['gen'][2]}}
        else:
            a, e = case['a'], case['e']
            shown = {'actual': a, 'reference': e}
        points = self.sets[case['pts']]
        ta = TA.content(a, *case.get('fa', ['\n', 1]))
        te = TA.content(e, *case.get('fe', ['\n', 1]))
        box.clean(box.ref, box.act, box.tmp)
        ref = os.path.join(box.ref, 'ref.txt')
        act = os.path.join(box.act, 'out.txt')
        box.write(ref, te)
        box.write(act, ta)
        before = (snapshot(box.ref), snapshot(box.act))
        bad = {}
        seen = set()

        lf = case.get('lf')
        if '\r' in ta:
            lf = None       # a list of lines has no line terminators
        for i, p in enumerate(points):
            kw = TA.kwargs_of(p)
            m = TS.evaluate_texts(ta, te, model_opts(p))
            if m.verdict == TS.UNSPEC:
                R.unspec += 1
            routes = [('string', 'assertStringCorrect', ta, m),
                      ('file', 'assertTextFileCorrect', act, m)]
            if lf == 'all' or (lf and '+' not in TA.option_label(p)):
                # the FORM of the actual: the same text as the list / tuple
                # text.split('\n') (a new object for every call)
                ml = TS.evaluate_lines_text(ta.split('\n'), te,
                                            model_opts(p))
                routes.append(('list', 'assertStringCorrect',
                               ta.split('\n'), ml))
                if lf != 'list':
                    routes.append(('tuple', 'assertStringCorrect',
                                   tuple(ta.split('\n')), ml))
            for route, method, arg0, m in routes:
                rk, info, events, left = self.observed_call(
                    method, arg0, ref, **kw)
                R.ev()
                seen.add(rk)

                def add(what, detail, _r=route, _i=i):
                    bad.setdefault((what, _r), {})[_i] = detail

                if rk == 'error':
                    R.out('%s:error:%s' % (route, type(info).__name__))
                    add('internal-error:%s' % type(info).__name__,
                        {'exception': repr(info)[:300]})
                    box.clean(box.tmp)
                    continue
                cmds = self.common_clauses(rk, info, events, left, add)
                R.out('%s:%s:%dcmd:%dfiles:%s' % (route, rk, len(cmds),
                                                  len(left), m.verdict))
                if rk == 'fail':
                    self.text_failure_clauses(route, ta, act, ref, cmds, m,
                                              p, add)
                    box.clean(box.tmp)
        after = (snapshot(box.ref), snapshot(box.act))
        for name, b, af in (('ref', before[0], after[0]),
                            ('act', before[1], after[1])):
            d = snapshot_diff(b, af)
            if d:
                R.viol('caller-files-changed:%s' % name,
                       'nothing-outside-tmp_dir',
                       dict(shown, changes=d[:6]))
        R.nontrivial = 'fail' in seen and 'pass' in seen
        if a == e and 'fa' not in case:
            R.nontrivial = True     # layer "identical": the pass clause
        if 'gen' not in case:
            shown = dict(shown, actual_text=ta, reference_text=te)
        self.flush(R, bad, points, shown)
        return R

    def text_failure_clauses(self, route, ta, act, ref, cmds, m, p, add):
        box = self.box
        raw = [c for c in cmds if not c['post']]
        post = [c for c in cmds if c['post']]
        # ---- the raw command: <actual> <reference>
        if raw:
            c = raw[0]
            if os.path.normpath(c['b']) != os.path.normpath(ref):
                add('command-reference-side-is-not-the-reference',
                    {'command': c})
            if route == 'file':
                if os.path.normpath(c['a']) != os.path.normpath(act):
                    add('command-actual-side-is-not-the-actual-file',
                        {'command': c})
            else:
                if not inside(c['a'], box.tmp):
                    add('actual-string-not-written-to-tmp_dir',
                        {'command': c})
                elif os.path.isfile(c['a']):
                    got = box.read(c['a'])
                    want = ta.encode('utf-8')
                    if got != want:
                        self.raw_actual_mismatch(got, want, p, add)
        # ---- the post-processed pair
        if m.verdict == TS.MUST_PASS:
            return      # tdda fails what the model passes: C04's business
        r = m.canonical
        effect = None
        optional = set()
        if r is not None:
            # a pair the model excuses but tdda's own comparison of just
            # that pair does not (an under-acceptance, reported by C04) may
            # legitimately show up as "a difference that was found"
            for k, c in enumerate(r.classes):
                if c == TS.EXCUSED and not self.tdda_excuses(
                        r.actual[k], r.expected[k], p):
                    optional.add((r.actual[k], r.expected[k]))
            effect = bool(
                r.removed_actual or r.removed_expected
                or r.preprocess_changed
                or any(c == TS.EXCUSED
                       and (r.actual[k], r.expected[k]) not in optional
                       for k, c in enumerate(r.classes)))
        if not post:
            if effect:
                add('postproc:pair-missing-though-exclusion-took-effect', {})
            return
        c = post[0]
        if not (inside(c['a'], box.tmp) and inside(c['b'], box.tmp)):
            add('postproc:pair-not-in-tmp_dir', {'command': c})
        if not (os.path.isfile(c['a']) and os.path.isfile(c['b'])):
            return
        try:
            ka = split_keepends(box.read(c['a']).decode('utf-8'))
            ke = split_keepends(box.read(c['b']).decode('utf-8'))
        except UnicodeDecodeError as ex:
            add('postproc:not-utf8', {'error': str(ex)})
            return
        pa = [x[:-1] if x.endswith('\n') else x for x in ka]
        pe = [x[:-1] if x.endswith('\n') else x for x in ke]
        # byte-wise view (what the suggested diff command sees): a pair of
        # lines with the same text may not differ in its line terminator.
        # Whether a final terminator counts as a difference is a gray zone
        # of the text model, so the clause is asserted only where tdda's own
        # comparison (probed once per worker through the same entry point)
        # does not count it, and only for sides that end in a non-empty
        # line followed by at most one terminator.
        if len(ka) == len(ke) and self.final_newline_is_no_difference(
                route, ta, box.read(ref).decode('utf-8'), p):
            ends = [(x, y) for x, y in zip(ka, ke)
                    if x != y and x.rstrip('\n') == y.rstrip('\n')]
            if ends:
                add('postproc:same-line-differs-in-its-terminator',
                    {'pairs': clip(ends[:4]),
                     'post_actual_tail': clip(ka[-3:]),
                     'post_expected_tail': clip(ke[-3:])})
        if m.verdict != TS.MUST_FAIL or r is None:
            return
        want = m.unexcused_pairs()
        if want is None:
            # different numbers of lines: the files must at least differ -
            # unless the sides differ only by trailing empty lines, whose
            # standing as "lines" is a gray zone of the text model
            ra, re_ = list(r.actual), list(r.expected)
            while ra and ra[-1] == '':
                ra.pop()
            while re_ and re_[-1] == '':
                re_.pop()
            if len(ra) == len(re_):
                return
            if pa == pe:
                add('postproc:identical-files-for-a-failure',
                    {'post_actual': clip(pa[-6:]), 'post_expected': clip(pe[-6:])})
            return
        shown = [(x, y) for x, y in zip(pa, pe) if x != y]
        got = [g for g in shown if g not in optional]
        if len(pa) != len(pe):
            add('postproc:files-have-different-line-counts',
                {'post_actual': clip(pa[-6:]), 'post_expected': clip(pe[-6:]),
                 'model_unexcused': clip(want[:8])})
        elif got != want:
            extra = [g for g in got if g not in want]
            missing = [w for w in want if w not in got]
            if extra and not missing:
                what = 'postproc:excused-or-equal-pair-shown-as-difference'
            elif missing and not extra:
                what = 'postproc:unexcused-difference-hidden'
            else:
                what = 'postproc:wrong-differences'
            add(what, {'files_differ_on': clip(shown[:8]),
                       'model_unexcused': clip(want[:8]),
                       'post_actual': clip(pa[-6:]), 'post_expected': clip(pe[-6:])})

    @staticmethod
    def plain_end(text, p):
        """The text ends in a non-empty (also when stripped) line followed
        by at most one '\\n' - also after the preprocess function of p."""
        if '\r' in text:
            return False
        s = text[:-1] if text.endswith('\n') else text
        lines = s.split('\n')
        if p['preprocess']:
            lines = TA.PREPROCESS_FUNCTIONS[p['preprocess']](lines)
        return bool(lines) and lines[-1].strip() != ''

    def final_newline_is_no_difference(self, route, ta, te, p):
        if not (self.plain_end(ta, p) and self.plain_end(te, p)):
            return False
        return self.newline_probe.get(
            (route, ta.endswith('\n'), te.endswith('\n')), False)

    def probe_final_newline(self):
        """{(route, actual ends in newline, reference does): tdda passes
        'a' against 'a' with these endings}."""
        box = self.box
        d = os.path.join(box.root, 'probe')
        os.mkdir(d)
        out = {}
        for a_nl in (False, True):
            for e_nl in (False, True):
                ta = 'a\n' if a_nl else 'a'
                ref = os.path.join(d, 'ref.txt')
                act = os.path.join(d, 'out.txt')
                box.write(ref, 'a\n' if e_nl else 'a')
                box.write(act, ta)
                for route, method, arg0 in (
                        ('string', 'assertStringCorrect', ta),
                        ('list', 'assertStringCorrect', ta.split('\n')),
                        ('tuple', 'assertStringCorrect',
                         tuple(ta.split('\n'))),
                        ('file', 'assertTextFileCorrect', act)):
                    rk, info = box.call(method, arg0, ref)
                    out[(route, a_nl, e_nl)] = rk == 'pass'
                    box.clean(box.tmp)
        return out

    def tdda_excuses(self, a, e, p):
        """Does tdda's own comparison of just this pair of (already
        stripped) lines, under the ignore options of p, pass?  Only used to
        keep C04's under-acceptances out of C15's signatures."""
        key = (a, e, tuple(p['ignore_substrings'] or ()),
               tuple(p['ignore_patterns'] or ()))
        hit = self.probe_cache.get(key)
        if hit is None:
            try:
                r = self.fc.check_strings(
                    [a], [e], ignore_substrings=p['ignore_substrings'],
                    ignore_patterns=p['ignore_patterns'],
                    create_temporaries=False)
                hit = r.failures == 0
            except Exception:
                hit = False
            self.probe_cache[key] = hit
        return hit

    def raw_actual_mismatch(self, got, want, p, add):
        try:
            gl = TS.lines_of_text(got.decode('utf-8'))[0]
        except UnicodeDecodeError:
            add('raw-actual:not-utf8', {'file': repr(got)[:200]})
            return
        wl = TS.lines_of_text(want.decode('utf-8'))[0]
        detail = {'file_content': clip(got.decode('utf-8')),
                  'actual_string': clip(want.decode('utf-8'))}
        if gl == wl:
            unix = want.replace(b'\r\n', b'\n').replace(b'\r', b'\n')
            if got + b'\n' == want:
                add('raw-actual-not-byte-exact:final-newline-dropped', detail)
            elif unix != want and got in (unix, unix[:-1]):
                add('raw-actual-not-byte-exact:line-terminators-rewritten',
                    detail)
            else:
                add('raw-actual-not-byte-exact:other', detail)
            return
        if is_subsequence(gl, wl):
            causes = set()
            lost = dropped(gl, wl)
            for k, s in enumerate(lost):
                if p['remove_lines'] and any(r in s
                                             for r in p['remove_lines']):
                    causes.add('removed-lines')
                elif p['preprocess'] and s.startswith('é'):
                    causes.add('preprocessed-away-lines')
                elif s == '':
                    causes.add('empty-line')
                else:
                    causes.add('other-lines')
            for cause in sorted(causes):
                add('raw-actual-lines-dropped:%s' % cause, detail)
        else:
            add('raw-actual-different-content', detail)

    # --------------------------------------------------------------- binary
    def run_binary(self, case):
        R = Res()
        box = self.box
        a, e = bytes.fromhex(case['a']), bytes.fromhex(case['e'])
        if 'P' in case:
            # common prefix of P patterned bytes, then the short tails; or
            # one byte inside the prefix changed in the actual
            prefix = TA.byte_prefix(case['P'])
            pa = prefix
            if case.get('flip') is not None:
                k = case['flip']
                pa = prefix[:k] + bytes([prefix[k] ^ 0x55]) + prefix[k + 1:]
            a, e = pa + a, prefix + e
        box.clean(box.ref, box.act, box.tmp)
        ref = os.path.join(box.ref, 'ref.bin')
        act = os.path.join(box.act, 'out.bin')
        box.write(ref, e)
        box.write(act, a)
        before = (snapshot(box.ref), snapshot(box.act))
        rk, info, events, left = self.observed_call(
            'assertBinaryFileCorrect', act, ref)
        R.ev()
        bad = {}

        def add(what, detail):
            bad.setdefault((what, 'binary'), {})[0] = detail

        R.nontrivial = a != e
        if rk == 'error':
            R.out('binary:error:%s' % type(info).__name__)
            add('internal-error:%s' % type(info).__name__,
                {'exception': repr(info)[:300]})
        else:
            cmds = self.common_clauses(rk, info, events, left, add)
            want = 'pass' if a == e else 'fail'
            if rk != want:
                add('binary-verdict:%s-for-%s-files'
                    % (rk, 'equal' if a == e else 'different'), {})
            if rk == 'fail':
                off = first_difference(a, e)
                mm = BININFO.search(info or '')
                R.out('binary:fail:prefix=%s:offset=%s:%s' % (
                    case.get('P', 0),
                    mm.group(1) if mm else '?',
                    'same-length' if len(a) == len(e) else
                    'longer' if len(a) > len(e) else 'shorter'))
                if not mm:
                    add('binary-offset-not-reported',
                        {'message': (info or '')[:300]})
                else:
                    if int(mm.group(1)) != off:
                        add('binary-offset-wrong:first-difference-at-%s'
                            % ('0' if off == 0 else '1..4095' if off < 4096
                               else '4096-or-later'),
                            {'reported': int(mm.group(1)), 'expected': off})
                    if mm.group(2) is not None:
                        la = le = int(mm.group(2))
                    else:
                        la, le = int(mm.group(3)), int(mm.group(4))
                    if (la, le) != (len(a), len(e)):
                        add('binary-lengths-wrong',
                            {'reported': [la, le],
                             'expected': [len(a), len(e)]})
                for c in cmds[:1]:
                    if os.path.normpath(c['a']) != act or \
                            os.path.normpath(c['b']) != ref:
                        add('binary-command-names-other-files',
                            {'command': c})
            else:
                R.out('binary:pass')
        after = (snapshot(box.ref), snapshot(box.act))
        if before != after:
            R.viol('caller-files-changed:binary', 'nothing-outside-tmp_dir',
                   {'changes': snapshot_diff(before[0], after[0]) +
                    snapshot_diff(before[1], after[1])})
        box.clean(box.tmp)
        extra = {'actual_hex': case['a'], 'reference_hex': case['e']}
        if 'P' in case:
            extra = {'common_prefix_length': case['P'],
                     'byte_changed_in_prefix_at': case.get('flip'),
                     'actual_tail_hex': case['a'],
                     'reference_tail_hex': case['e']}
        self.flush(R, bad, None, extra)
        return R

    # -------------------------------------------------------------- history
    def hist_step(self, op):
        """Prepare the caller's files for one operation and run it under
        observation.  -> (rk, info, events, ta, act, ref, point)"""
        box = self.box
        if op['route'] == 'stale':
            for name in ('actual-raw-ref.txt', 'actual-ref.txt',
                         'expected-ref.txt'):
                box.write(os.path.join(box.tmp, name),
                          HIST_JUNK[op['content']])
            return None
        a, e = HIST_CONTENTS[op['content']]
        ta, te = TA.content(a), TA.content(e)
        p = HIST_OPTIONS[op['options']]
        ref = os.path.join(box.ref, op['ref'])
        # the actual file carries the reference's basename, so that string
        # and file assertions compete for the same temporary names
        act = os.path.join(box.act, op['ref'])
        for path, text in ((ref, te), (act, ta)):
            if os.path.exists(path):
                os.remove(path)
            box.write(path, text)
        callers = (snapshot(box.ref), snapshot(box.act))
        if op['route'] == 'binary':
            rk, info, events, left = self.observed_call(
                'assertBinaryFileCorrect', act, ref)
        elif op['route'] == 'string':
            rk, info, events, left = self.observed_call(
                'assertStringCorrect', ta, ref, **TA.kwargs_of(p))
        else:
            rk, info, events, left = self.observed_call(
                'assertTextFileCorrect', act, ref, **TA.kwargs_of(p))
        self.callers_changed = callers != (snapshot(box.ref),
                                           snapshot(box.act))
        return rk, info, events, ta, te, act, ref, p

    def artefacts(self, msg):
        """{basename: bytes} of the files inside tmp_dir that msg names."""
        box = self.box
        out = {}
        for c in parse_commands(msg):
            for path in (c['a'], c['b']):
                if inside(path, box.tmp):
                    out[os.path.basename(path)] = box.read(path) \
                        if os.path.isfile(path) else None
        return out

    def run_history(self, case):
        R = Res()
        box = self.box
        ops = case['ops']
        box.clean(box.ref, box.act, box.tmp)
        trace = []
        for op in ops[:-1]:
            r = self.hist_step(op)
            R.transitions += 1
            trace.append('%s/%s/%s/%s:%s' % (
                op['route'], op['ref'], op['content'], op['options'],
                r[0] if r else 'placed'))
        last = ops[-1]
        before_tmp = snapshot(box.tmp)
        sizes_before = dict((k, v[0]) for k, v in before_tmp.items())
        rk, info, events, ta, te, act, ref, p = self.hist_step(last)
        R.ev()
        R.states = len(ops)
        after_tmp = snapshot(box.tmp)
        callers_changed = self.callers_changed
        bad = {}
        route = last['route']

        def add(what, detail):
            bad.setdefault(what, detail)

        a, e = HIST_CONTENTS[last['content']]
        must_fail = a != e if route == 'binary' else None
        m = None
        if route != 'binary':
            m = TS.evaluate_texts(ta, te, model_opts(p))
        if rk == 'error':
            add('internal-error:%s' % type(info).__name__,
                {'exception': repr(info)[:300]})
        elif rk == 'pass':
            writes = [ev for ev in events
                      if ev[0] not in ('os.remove', 'os.unlink')]
            made = [d for d in snapshot_diff(before_tmp, after_tmp)
                    if d[0] != 'removed']
            if writes or made:
                add('passing-assertion-writes',
                    {'events': writes[:6], 'tmp_dir_changes': made[:6]})
            if must_fail:
                add('binary-verdict:pass-for-different-files', {})
        else:
            cmds = self.common_clauses(rk, info, events, [], add)
            if route == 'binary':
                if must_fail is False:
                    add('binary-verdict:fail-for-equal-files', {})
            else:
                self.text_failure_clauses(route, ta, act, ref, cmds, m, p,
                                          add)
        # ---- the same assertion in a fresh tmp_dir must say and leave the same
        got_msg = info if rk == 'fail' else None
        got_files = self.artefacts(got_msg) if rk == 'fail' else {}
        box.clean(box.tmp)
        r2 = self.hist_step(last)
        R.transitions += 1
        rk2, info2 = r2[0], r2[1]
        # what the last assertion had to write over: compare the size of each
        # pre-existing file with the size the fresh run gives that file
        tag = 'fresh-names'
        intended = self.artefacts(info2) if rk2 == 'fail' else {}
        for name, data in intended.items():
            if name in sizes_before and data is not None:
                old = sizes_before[name]
                t = 'over-longer-file' if old > len(data) else \
                    'over-shorter-file' if old < len(data) else \
                    'over-same-length-file'
                if tag == 'fresh-names' or t == 'over-longer-file':
                    tag = t
        if rk2 != rk:
            add('history-changes-verdict', {'in_history': rk, 'fresh': rk2})
        elif rk == 'fail':
            if info2 != got_msg:
                add('history-changes-message',
                    {'in_history': clip(got_msg, 600),
                     'fresh': clip(info2, 600)})
            fresh_files = intended
            diff = sorted(k for k in set(got_files) | set(fresh_files)
                          if got_files.get(k) != fresh_files.get(k))
            if diff:
                k = diff[0]
                add('history-changes-artefact',
                    {'file': k,
                     'in_history': clip((got_files.get(k) or b'').decode(
                         'utf-8', 'replace'), 600),
                     'fresh': clip((fresh_files.get(k) or b'').decode(
                         'utf-8', 'replace'), 600)})
        if callers_changed:
            add('caller-files-changed', {})
        R.out('%s:%s:%s:%s' % (route, rk, tag, trace[-1].split(':')[-1]
                               if trace else '-'))
        R.nontrivial = rk == 'fail' and tag != 'fresh-names' or \
            (rk == 'pass' and bool(before_tmp))
        for what in sorted(bad):
            d = dict(bad[what])
            d['history'] = trace
            d['last'] = last
            R.viol('history:%s:%s:%s' % (what, tag, route),
                   what.split(':')[0], d, sub={'what': what})
        box.clean(box.tmp)
        return R

    # -------------------------------------------------------- configuration
    def run_config(self, case):
        """Class-level configuration between instance creations.  Every
        assertion of the history is judged: a failing one may write only
        into the tmp_dir configured for its instance (the class setting when
        the instance was made; if the class setting changed afterwards
        either is accepted), names existing files there, holds the actual
        string exactly; a passing one writes nothing; the other directory
        never changes."""
        R = Res()
        box = self.box
        RT = box.RT
        saved = (RT.tmp_dir, RT.verbose, dict(RT.default_data_locations))
        cls = RT if case['target'] == 'base' else \
            type('ReferenceTestSub', (RT,), {})
        dirs = {'A': box.tmp, 'B': box.tmp2}
        locs = {'R1': box.ref, 'R2': box.ref2}
        box.clean(box.ref, box.ref2, box.act, box.tmp, box.tmp2)
        a, e = CONF_FAIL
        ta, te = TA.content(a), TA.content(e)
        for d in (box.ref, box.ref2):
            box.write(os.path.join(d, 'ref.txt'), te)
            box.write(os.path.join(d, 'same.txt'), ta)
            box.write(os.path.join(d, 'ref.bin'), b'ab\x00')
        act = os.path.join(box.act, 'out.txt')
        actb = os.path.join(box.act, 'out.bin')
        box.write(act, ta)
        box.write(actb, b'ab\xff')
        callers = (snapshot(box.ref), snapshot(box.ref2), snapshot(box.act))
        kw = TA.kwargs_of(CONF_POINT)
        bad = {}
        trace = []
        st = {'cls_tmp': 'A', 'cls_loc': None, 'inst': None,
              'inst_tmp': None, 'inst_loc': None, 'own_loc': False}

        def make():
            st['inst'] = cls(TA._assert_fn)
            st['inst_tmp'] = st['cls_tmp']
            st['inst_loc'] = st['cls_loc']
            st['own_loc'] = False

        try:
            cls.set_defaults(tmp_dir=dirs['A'])
            for k, op in enumerate(case['ops']):
                R.transitions += 1
                if op == 'new':
                    make()
                elif op.startswith('tmp:'):
                    cls.set_defaults(tmp_dir=dirs[op[4:]])
                    st['cls_tmp'] = op[4:]
                elif op.startswith('loc:'):
                    cls.set_default_data_location(locs[op[4:]])
                    st['cls_loc'] = op[4:]
                elif op.startswith('iloc:'):
                    if st['inst'] is not None:
                        st['inst'].set_data_location(locs[op[5:]])
                        st['inst_loc'] = op[5:]
                        st['own_loc'] = True
                if not op.startswith('use:'):
                    trace.append(op)
                    continue
                if st['inst'] is None:
                    make()
                route, want = op[4:].split('-')
                # where this instance may write / look
                tmps = set([st['inst_tmp'], st['cls_tmp']])
                if st['inst_loc'] is None:
                    refdirs = None              # absolute reference path
                elif st['own_loc']:
                    refdirs = set([st['inst_loc']])
                else:
                    refdirs = set([st['inst_loc'], st['cls_loc']])
                name = {'string': 'ref.txt' if want == 'fail'
                        else 'same.txt', 'file': 'ref.txt',
                        'binary': 'ref.bin'}[route]
                refarg = name if refdirs else os.path.join(box.ref, name)
                refs = [os.path.join(locs[x], name) for x in sorted(refdirs)] \
                    if refdirs else [refarg]
                before = dict((x, snapshot(dirs[x])) for x in dirs)
                with FSLOG.record() as events:
                    if route == 'string':
                        rk, info = box.call_on(st['inst'],
                                               'assertStringCorrect', ta,
                                               refarg, **kw)
                    elif route == 'file':
                        rk, info = box.call_on(st['inst'],
                                               'assertTextFileCorrect', act,
                                               refarg, **kw)
                    else:
                        rk, info = box.call_on(st['inst'],
                                               'assertBinaryFileCorrect',
                                               actb, refarg)
                events = list(events)
                R.ev()
                trace.append('%s:%s' % (op, rk))
                changed = [x for x in sorted(dirs)
                           if snapshot(dirs[x]) != before[x]]

                def add(what, detail, _r=route, _k=k):
                    bad.setdefault((what, _r), dict(
                        detail, step=_k, history=list(trace),
                        configured_tmp_dir=sorted(tmps)))

                if rk == 'error':
                    add('internal-error:%s' % type(info).__name__,
                        {'exception': repr(info)[:300]})
                elif rk != want:
                    add('unexpected-verdict', {'got': rk, 'expected': want})
                elif rk == 'pass':
                    if events or changed:
                        add('passing-assertion-writes',
                            {'events': events[:6], 'changed': changed})
                else:
                    used = set(x for x in dirs for ev in events
                               if inside(ev[1], dirs[x])) | set(changed)
                    stray = [ev for ev in events
                             if not any(inside(ev[1], dirs[x]) for x in dirs)]
                    if stray:
                        add('write-outside-tmp_dir', {'events': stray[:6]})
                    if used - tmps:
                        add('write-into-a-tmp_dir-not-configured-for-the-'
                            'instance', {'written': sorted(used),
                                         'events': events[:6]})
                    elif len(used) > 1:
                        add('artefacts-spread-over-two-directories',
                            {'written': sorted(used)})
                    cmds = parse_commands(info)
                    if not cmds:
                        add('no-comparison-command',
                            {'message': (info or '')[:400]})
                    for c in cmds:
                        gone = [q for q in (c['a'], c['b'])
                                if not os.path.isfile(q)]
                        if gone:
                            add('command-names-missing-file',
                                {'command': c, 'missing': gone})
                        for q in (c['a'], c['b']):
                            if c['post'] or (q == c['a']
                                             and route == 'string'):
                                if not any(inside(q, dirs[x])
                                           for x in tmps):
                                    add('artefact-not-in-the-configured-'
                                        'tmp_dir', {'command': c})
                    raw = [c for c in cmds if not c['post']]
                    if raw:
                        c = raw[0]
                        if os.path.normpath(c['b']) not in refs:
                            add('command-reference-side-is-not-the-'
                                'configured-reference',
                                {'command': c, 'accepted': refs})
                        if route == 'string' and os.path.isfile(c['a']) \
                                and box.read(c['a']) != ta.encode('utf-8'):
                            add('raw-actual-not-exact',
                                {'file_content': box.read(c['a']).decode(
                                    'utf-8', 'replace'),
                                 'actual_string': ta})
                        if route != 'string' and os.path.normpath(
                                c['a']) != (act if route == 'file'
                                            else actb):
                            add('command-actual-side-is-not-the-actual-'
                                'file', {'command': c})
                    if route != 'binary' and not [c for c in cmds
                                                  if c['post']]:
                        add('postproc:pair-missing-though-exclusion-took-'
                            'effect', {})
                R.out('config:%s:%s:%s' % (
                    route, rk, 'instance-older-than-setting'
                    if len(tmps) > 1 else 'settled'))
                box.clean(box.tmp, box.tmp2)
        finally:
            RT.tmp_dir, RT.verbose = saved[0], saved[1]
            RT.default_data_locations.clear()
            RT.default_data_locations.update(saved[2])
        if callers != (snapshot(box.ref), snapshot(box.ref2),
                       snapshot(box.act)):
            R.viol('caller-files-changed:config', 'nothing-outside-tmp_dir',
                   {'history': trace})
        R.states = len(case['ops'])
        R.nontrivial = any(not o.startswith('use:') and o != 'new'
                           for o in case['ops']) and \
            case['ops'][-1].endswith('-fail')
        for (what, route) in sorted(bad):
            d = dict(bad[(what, route)])
            d['target'] = 'ReferenceTest' if case['target'] == 'base' \
                else 'a fresh subclass of ReferenceTest'
            R.viol('config:%s:%s' % (what, route), what.split(':')[0], d,
                   sub={'what': what, 'route': route})
        return R

    # -------------------------------------------------------------- missing
    def run_missing(self, case):
        """Reference file absent: the message must offer the documented
        'initialize with cp <actual> <reference>' whose source exists and,
        for a string, holds exactly the string (in tmp_dir)."""
        R = Res()
        box = self.box
        ta = TA.content(case['a'])
        box.clean(box.ref, box.act, box.tmp)
        ref = os.path.join(box.ref, 'absent.txt')
        act = os.path.join(box.act, 'out.txt')
        box.write(act, ta)
        before = (snapshot(box.ref), snapshot(box.act))
        R.nontrivial = True
        bad = {}
        for route, method, arg0 in (
                ('string', 'assertStringCorrect', ta),
                ('list', 'assertStringCorrect', ta.split('\n')),
                ('tuple', 'assertStringCorrect', tuple(ta.split('\n'))),
                ('file', 'assertTextFileCorrect', act),
                ('binary', 'assertBinaryFileCorrect', act)):
            rk, info, events, left = self.observed_call(method, arg0, ref)
            R.ev()

            def add(what, detail, _r=route):
                bad.setdefault(('missing-reference:' + what, _r),
                               {})[0] = detail

            if rk != 'fail':
                R.out('missing:%s:%s' % (route, rk))
                add('not-an-assertion-failure',
                    {'result': rk, 'info': repr(info)[:300]})
                box.clean(box.tmp)
                continue
            cmds = self.common_clauses(rk, info, events, left, add)
            R.out('missing:%s:fail:%s' % (
                route, '+'.join(c['cmd'] for c in cmds)))
            for c in cmds[:1]:
                if c['cmd'] not in ('cp', 'copy'):
                    add('no-initialize-command', {'command': c})
                if os.path.normpath(c['b']) != ref:
                    add('command-target-is-not-the-reference',
                        {'command': c})
                if route in ('string', 'list', 'tuple'):
                    if not inside(c['a'], box.tmp):
                        add('actual-string-not-written-to-tmp_dir',
                            {'command': c})
                    elif os.path.isfile(c['a']) and \
                            box.read(c['a']) != ta.encode('utf-8'):
                        add('raw-actual-not-exact',
                            {'file_content': box.read(c['a']).decode(
                                'utf-8', 'replace'), 'actual_string': ta})
                elif os.path.normpath(c['a']) != act:
                    add('command-source-is-not-the-actual-file',
                        {'command': c})
            box.clean(box.tmp)
        after = (snapshot(box.ref), snapshot(box.act))
        if before != after:
            R.viol('caller-files-changed:missing-reference',
                   'nothing-outside-tmp_dir',
                   {'changes': snapshot_diff(before[0], after[0]) +
                    snapshot_diff(before[1], after[1])})
        self.flush(R, bad, None, {'actual': case['a']})
        return R


CHECK = C15()
