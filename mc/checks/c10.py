"""
C10 - references are rewritten only on request; a regenerated reference passes.

E3: explicit-state breadth-first search over operation histories on the REAL
tdda code in a per-worker sandbox under /var/tmp, against the reference model
mc/models/regen_spec.py.  A state is rebuilt from its history on an emptied
sandbox; canonical states are hashed; on EVERY transition the model and the
implementation observables are compared (conformance) and the invariants are
checked (audit log + snapshot of content / mtime_ns / inode).

Layers
  argv    every spelling of the regeneration options, from every start table,
          through _set_flags_from_argv, through ReferenceTestCase.main on a
          synthetic module, and through pytest's own parser + referencepytest
  content regenerate -> normal-mode repeat for every content of the alphabet
          (five assertion types + the two on-disk DataFrame assertions)
  options the same with every comparison option alone
  index   frames carrying a non-default index (named, labelled, filtered,
          sliced, named range, multi-level, datetime) x dtype family x
          options that refer to the index (condition on row labels, sortby on
          index level names) and to columns, through assertDataFrameCorrect,
          assertOnDiskDataFrameCorrect and assertOnDiskDataFramesCorrect
  names   spellings of the reference name
  histN   BFS to depth N per (assertion type, content pair, route, start table)
  closure (thorough) BFS to the fixpoint of the whole state space per
          (assertion type, content pair, route)
"""
import contextlib
import hashlib
import io
import itertools
import os
import shutil
import sys
import tempfile
import types

from mc.engine import Check, Res
from mc.models import regen_spec as spec
from mc import c10_seams as seams

KINDS = (None, 'table', 'graph')


def kname(k):
    return 'default' if k is None else k


# ------------------------------------------------------------------ alphabets

def _l200():
    return ''.join('line %03d of the report\n' % i for i in range(200))


TEXTS = {
    'A': 'alpha\nbeta\n',
    'B': 'gamma\nbeta\ndelta\n',
    'Q': 'zzz\nqqq\nrrr\n',
    'empty': '',
    'a': 'a',
    'a-nl': 'a\n',
    'crlf': 'a\r\nb',
    'cr': 'a\rb',
    'uni': 'é日本\n',
    'nofinal': 'x\ny',
    'l200': _l200(),
    # thorough
    'blank2': '\n\n',
    'spaces': ' a \n\tb\n',
    'ff': 'a\x0cb\n',
    'u2028': 'a\u2028b\n',
    'crlf-end': 'a\r\n',
    'mixed': 'a\nb\r\nc\rd',
    'astral': '\U0001f600 x\n',
    'nul': 'a\x00b\n',
}
# Every line boundary str.splitlines() knows, by name.
SEPARATORS = [('lf', '\n'), ('cr', '\r'), ('crlf', '\r\n'), ('vt', '\x0b'),
              ('ff', '\x0c'), ('fs', '\x1c'), ('gs', '\x1d'), ('rs', '\x1e'),
              ('nel', '\x85'), ('ls', '\u2028'), ('ps', '\u2029')]
SPLITLINES_ONLY = ('\x0b', '\x0c', '\x1c', '\x1d', '\x1e', '\x85', '\u2028',
                   '\u2029')
for _n, _s in SEPARATORS:
    TEXTS['in-' + _n] = 'a' + _s + 'b'            # inside, no final newline
    TEXTS['end-' + _n] = 'a' + _s                 # at the very end
    TEXTS['mid-' + _n] = 'p 1' + _s + 'p 2\n'     # inside a \n-terminated text
    TEXTS['only-' + _n] = _s                      # thorough
    TEXTS['dbl-' + _n] = 'a' + _s + _s + 'b\n'    # thorough
    TEXTS['start-' + _n] = _s + 'a\n'             # thorough
for (_n1, _s1), (_n2, _s2) in itertools.product(SEPARATORS, repeat=2):
    if _n1 != _n2:
        TEXTS['two-%s-%s' % (_n1, _n2)] = 'a' + _s1 + 'b' + _s2   # thorough

# quick = the full content alphabet of the statement: empty, no final
# newline, every line-boundary class inside and at the end, unicode, astral,
# NUL, blank lines, whitespace, mixed endings, 200 lines
TEXT_QUICK = (['empty', 'a', 'a-nl', 'uni', 'nofinal', 'l200', 'blank2',
               'spaces', 'mixed', 'astral', 'nul', 'crlf-end'] +
              ['%s-%s' % (w, n) for n, _ in SEPARATORS
               for w in ('in', 'end', 'mid')])
TEXT_THOROUGH = (TEXT_QUICK +
                 ['%s-%s' % (w, n) for n, _ in SEPARATORS
                  for w in ('only', 'dbl', 'start')] +
                 sorted(k for k in TEXTS if k.startswith('two-')))


# contents on which a comparison option can act
OPT_TEXTS = {
    'ws-lead': '\n  \nbody\n',
    'ws-lead-sp': '   \nx\n',
    'indent': '  a\n\tb\n',
    'ws-trail': 'body\n   \n',
    'nl3': 'body\n\n\n',
    'nl4-nofinal': 'body\n\n\n\nx',
    'trail-sp': 'a  \nb\t\n',
    'both-ws': '\n \n a \n \n\n\n',
    'blank-mid': 'a\n\nb\n',
    'ign': 'x IGNORE y\nkeep\n',
    'pat': 'took 12 ms\nrow 3\n',
    'rem': 'a\nREMOVE me\nb\n',
    'hash': '# comment\na\n# c2\n',
    'perm': 'b\na\nc\n',
    'only-ws': '   \n',
    'only-nl3': '\n\n\n',
    'all-removed': 'REMOVE 1\nREMOVE 2\n',
    'ign-pat-mix': 'IGNORE 12\n#REMOVE 7\n',
}
TEXTS.update(OPT_TEXTS)
OPT_CONTENTS = list(OPT_TEXTS) + ['empty', 'nofinal', 'in-ff', 'mid-ls',
                                  'end-crlf', 'blank2', 'spaces', 'mixed']


def text_feature(t):
    """Root-cause class of a text content (for violation signatures)."""
    if any(c in t for c in SPLITLINES_ONLY):
        return 'splitlines-only-separator'
    if '\r\n' in t:
        return 'crlf'
    if '\r' in t:
        return 'cr'
    if '\x00' in t:
        return 'nul'
    if any(ord(c) > 0xffff for c in t):
        return 'astral'
    if any(ord(c) > 0x7f for c in t):
        return 'non-ascii'
    if t == '':
        return 'empty'
    if not t.endswith('\n'):
        return 'no-final-newline'
    if len(t) > 1000:
        return 'long'
    lines = t.split('\n')
    if lines[0].strip() == '' and t.strip():
        return 'leading-blank-line'
    if t.endswith('\n\n') or (len(lines) > 1 and lines[-2].strip() == ''
                               and lines[-1] == ''):
        return 'trailing-blank-lines'
    if any(l != l.strip() for l in lines):
        return 'line-edge-whitespace'
    return 'plain'


BYTES = {
    'A': b'\x00\xff',
    'B': b'\x00\xfe\x01',
    'Q': b'QQQ\n',
    'empty': b'',
    'crlf': b'a\r\nb\n',
    'all256': bytes(range(256)),
    'big': bytes(range(256)) * 64,
    'nl': b'\n',
    'utf8': 'é日本\n'.encode('utf-8'),
    'latin1': b'\xe9\n',
    'seps': 'a\x0bb\x0cc\x1cd\x1de\x1ef\x85g\u2028h\u2029i\r\nj\rk'.encode('utf-8'),
}
BYTES_QUICK = ['empty', 'crlf', 'all256', 'nl', 'big', 'utf8', 'latin1',
               'seps']
BYTES_THOROUGH = BYTES_QUICK

FRAME_QUICK = ['int', 'float-nan', 'obj-none', 'bool', 'dt-ns', 'zero-rows',
               'two-col']
FRAME_THOROUGH = FRAME_QUICK + ['Int64', 'str', 'cat', 'dt-s', 'dt-tz',
                                'boolean', 'uint8', 'f32', 'index-named',
                                'unicode-col', 'float-inf', 'date-none',
                                'cat-int']


# ---- the INDEX of the actual frame: every way a frame commonly comes by a
# non-default index.  A frame id 'base@form' is the base frame (its cells, in
# whatever order the form implies) carrying that index.
INDEX_FORMS = ['named', 'labels', 'filtered', 'sliced', 'named-range',
               'multi', 'dt']
# forms all of whose index levels have a name (sortby can refer to them)
NAMED_INDEX_FORMS = ('named', 'named-range', 'multi', 'dt')


def with_index(df, form):
    """df with a non-default index, built the way user code builds one."""
    import numpy as np
    import pandas as pd
    n = len(df)
    if form == 'named':
        # set_index('id') on an unordered integer key
        out = df.copy()
        out.insert(0, 'id', np.array(
            [((7 * i + 3) % (n + 5)) * 10 for i in range(n)], dtype='int64'))
        return out.set_index('id')
    if form == 'labels':
        # unnamed row labels (strings), not in sorted order
        out = df.copy()
        out.index = pd.Index(['r%d' % ((i + 1) % max(n, 1))
                              for i in range(n)], dtype=object)
        return out
    if form == 'filtered':
        # a boolean-mask selection keeps the labels of the selected rows
        big = pd.concat([df, df], ignore_index=True)
        return big[np.arange(2 * n) % 2 == 1]
    if form == 'sliced':
        # a positional slice: RangeIndex that does not start at 0
        return pd.concat([df.iloc[:1], df], ignore_index=True).iloc[1:]
    if form == 'named-range':
        out = df.copy()
        out.index.name = 'id'
        return out
    if form == 'multi':
        out = df.copy()
        out.index = pd.MultiIndex.from_arrays(
            [['g%d' % (i % 2) for i in range(n)],
             [n - i for i in range(n)]], names=['g', 'id'])
        return out
    if form == 'dt':
        out = df.copy()
        out.index = pd.DatetimeIndex(
            pd.to_datetime(['2001-01-%02d' % (n - i) for i in range(n)]),
            name='ts')
        return out
    raise KeyError(form)


def index_is_named(fid):
    """Static (no pandas): does every index level of this frame have a name?"""
    if '@' in fid:
        return fid.split('@', 1)[1] in NAMED_INDEX_FORMS
    return fid == 'index-named'


def index_class(df):
    """'default' (what a frame gets when nothing is said about its index and
    what dropping the index gives) or 'non-default'."""
    import pandas as pd
    ix = df.index
    if isinstance(ix, pd.RangeIndex) and ix.name is None and \
            ix.start == 0 and ix.step == 1:
        return 'default'
    return 'non-default'


def make_frame(fid):
    """Small frames, one per dtype family (built fresh each time)."""
    import numpy as np
    import pandas as pd
    o = object
    if '@' in fid:
        base, form = fid.split('@', 1)
        return with_index(make_frame(base), form)
    if fid == 'A':
        return pd.DataFrame({'a': [1, 2], 'b': [0.5, 1.5]})
    if fid == 'B':
        return pd.DataFrame({'a': [1, 3, 5], 'b': [0.5, 2.5, 3.5]})
    if fid == 'Q':
        return pd.DataFrame({'q': [7.5, 8.5, 9.5, 10.5]})
    if fid == 'int':
        return pd.DataFrame({'a': [-2, 0, 3]})
    if fid == 'float-nan':
        return pd.DataFrame({'a': [np.nan, -1.5, 2.0]})
    if fid == 'float-inf':
        return pd.DataFrame({'a': [np.inf, -np.inf, 1.0]})
    if fid == 'obj-none':
        return pd.DataFrame({'a': pd.Series([None, '', 'B1'], dtype=o)})
    if fid == 'bool':
        return pd.DataFrame({'a': [True, False]})
    if fid == 'dt-ns':
        return pd.DataFrame({'a': pd.to_datetime(
            ['1999-12-31 23:59:59', None, '2000-02-29 12:00:00']).astype(
                'datetime64[ns]')})
    if fid == 'dt-s':
        return pd.DataFrame({'a': pd.to_datetime(
            ['1999-12-31 23:59:59', '2000-01-01 00:00:00']).astype('datetime64[s]')})
    if fid == 'dt-tz':
        return pd.DataFrame({'a': pd.to_datetime(
            ['1999-12-31 23:59:59', '2000-01-01 00:00:00']).tz_localize('UTC')})
    if fid == 'zero-rows':
        return pd.DataFrame({'a': pd.Series([], dtype='int64'),
                             'b': pd.Series([], dtype='float64')})
    if fid == 'two-col':
        return pd.DataFrame({'b c': [1.5, 2.5],
                             'min': pd.Series(['u', None], dtype=o)})
    if fid == 'Int64':
        return pd.DataFrame({'a': pd.array([None, -1, 2], dtype='Int64')})
    if fid == 'boolean':
        return pd.DataFrame({'a': pd.array([None, True, False],
                                           dtype='boolean')})
    if fid == 'str':
        return pd.DataFrame({'a': pd.Series(['x', 'y y', 'é'],
                                            dtype='str')})
    if fid == 'cat':
        return pd.DataFrame({'a': pd.Categorical(['a', 'B1', 'a'])})
    if fid == 'cat-int':
        return pd.DataFrame({'a': pd.Categorical([1, 2, 1])})
    if fid == 'uint8':
        return pd.DataFrame({'a': np.array([0, 1, 255], dtype='uint8')})
    if fid == 'f32':
        return pd.DataFrame({'a': np.array([0.5, 1.25], dtype='float32')})
    if fid == 'index-named':
        d = pd.DataFrame({'a': [1, 2]}, index=pd.Index([10, 20], name='k'))
        return d
    if fid == 'unicode-col':
        return pd.DataFrame({'é': [1, 2], '#x': [0.5, 1.5]})
    if fid == 'date-none':
        import datetime
        return pd.DataFrame({'a': pd.Series(
            [None, datetime.date(1999, 12, 31)], dtype=o)})
    raise KeyError(fid)


def frame_fingerprint(df):
    """Loose description (columns, row count, cell texts) - only used to tell
    which content of the case alphabet a parquet reference holds."""
    cells = []
    for c in df.columns:
        for v in df[c].tolist():
            try:
                null = v is None or bool(v != v)
            except Exception:
                null = True            # pd.NA: comparison is ambiguous
            cells.append('null' if null else str(v))
    return (tuple(str(c) for c in df.columns), len(df), tuple(cells))


TYPES = ('string', 'file', 'files', 'binary', 'frame')
# the other assertions whose reference is a DataFrame saved as parquet: the
# actual result is itself a serialised frame on disk (one file / a list)
DISK_TYPES = ('diskframe', 'diskframes')
FRAME_TYPES = ('frame',) + DISK_TYPES
TSHORT = {'string': 's', 'file': 'f', 'files': 'm', 'binary': 'b',
          'frame': 'd', 'diskframe': 'k', 'diskframes': 'n'}


EXT = {'string': '.txt', 'file': '.txt', 'files': '.txt', 'binary': '.bin',
       'frame': '.parquet', 'diskframe': '.parquet',
       'diskframes': '.parquet'}
# reference-name alphabet: how the name is spelled (same for every type),
# plus, per type, the other extensions the API tells apart by extension
NAME_VARIANTS = ['lower', 'upper', 'mixed', 'twodots', 'subdir', 'unicode',
                 'noext']
NAME_VARIANTS_FRAME = NAME_VARIANTS + ['csv', 'CSV', 'txt']
NAME_VARIANTS_TEXT = NAME_VARIANTS + ['csv', 'dat']
# for frames only these are "a DataFrame saved as parquet" (the statement)
PARQUET_VARIANTS = ('lower', 'upper', 'mixed', 'twodots', 'subdir', 'unicode')


def name_variants(atype):
    if atype in FRAME_TYPES:
        return NAME_VARIANTS_FRAME
    if atype == 'binary':
        return NAME_VARIANTS
    return NAME_VARIANTS_TEXT


def spell(stem, ext, variant):
    if variant == 'lower':
        return stem + ext
    if variant == 'upper':
        return stem.upper() + ext.upper()
    if variant == 'mixed':
        return stem + ext[:2].upper() + ext[2:]       # .Parquet .Txt .Bin
    if variant == 'twodots':
        return stem + '.v1' + ext
    if variant == 'subdir':
        return 'sub/' + stem + ext
    if variant == 'unicode':
        return stem + ' \u00e9 \u65e5' + ext
    if variant == 'noext':
        return stem
    if variant in ('csv', 'txt', 'dat'):
        return stem + '.' + variant
    if variant == 'CSV':
        return stem.upper() + '.CSV'
    raise KeyError(variant)


def ref_names(atype, kind, variant='lower'):
    k = kname(kind)
    if atype == 'files':
        stems = ['m1_%s' % k, 'm2_%s' % k]
    elif atype == 'diskframes':
        stems = ['n1_%s' % k, 'n2_%s' % k]
    else:
        stems = ['%s_%s' % (TSHORT[atype], k)]
    return [spell(st, EXT[atype], variant) for st in stems]


# ---- comparison options: each alone at one non-default value

def _drop_hash_lines(lines):
    return [l for l in lines if not l.startswith('#')]


TEXT_OPTIONS = {
    'none': {},
    'lstrip': {'lstrip': True},
    'rstrip': {'rstrip': True},
    'strip': {'lstrip': True, 'rstrip': True},
    'ignore_substrings': {'ignore_substrings': ['IGNORE']},
    'ignore_patterns': {'ignore_patterns': [r'\d+']},
    'remove_lines': {'remove_lines': ['REMOVE']},
    'ignore_lines': {'ignore_lines': ['REMOVE']},
    'preprocess': {'preprocess': _drop_hash_lines},
    'max_permutation_cases': {'max_permutation_cases': 2},
}
FRAME_OPTIONS = ['none', 'check_data=False', 'check_data=list',
                 'check_types=False', 'check_types=list', 'check_order=False',
                 'check_order=list', 'precision', 'sortby=list',
                 'sortby=True', 'condition', 'type_matching=medium',
                 'type_matching=permissive']
# the same options referring to the INDEX of the frame instead of a column
# (row labels in a condition; index level names in sortby, which pandas'
# sort_values accepts wherever it accepts column names)
FRAME_INDEX_OPTIONS = ['condition=index-isin', 'condition=index-ne',
                       'sortby=index', 'sortby=index+col']
FRAME_OPTIONS += FRAME_INDEX_OPTIONS


def frame_option_applies(optid, fid):
    """sortby can name the index only if its levels have names."""
    return not optid.startswith('sortby=index') or index_is_named(fid)


def frame_options(optid, df):
    first = [list(df.columns)[0]]
    if optid == 'none':
        return {}
    if optid.endswith('=False'):
        return {optid.split('=')[0]: False}
    if optid.endswith('=list'):
        return {optid.split('=')[0]: first}
    if optid == 'sortby=True':
        return {'sortby': True}
    if optid == 'precision':
        return {'precision': 2}
    if optid == 'condition':
        return {'condition': lambda d: d[first[0]].notna()}
    if optid == 'condition=index-isin':
        keep = list(df.index)[::2]              # every other row, by label
        return {'condition': lambda d: d.index.isin(keep)}
    if optid == 'condition=index-ne':
        labels = list(df.index)
        if not labels:
            return {'condition': lambda d: d.index.isin([])}
        return {'condition': lambda d: d.index != labels[0]}
    if optid in ('sortby=index', 'sortby=index+col'):
        names = list(df.index.names)
        if any(n is None for n in names):
            raise KeyError('%s on a frame with an unnamed index' % optid)
        return {'sortby': names + (first if optid.endswith('+col') else [])}
    if optid.startswith('type_matching='):
        return {'type_matching': optid.split('=')[1]}
    raise KeyError(optid)


def option_ids(atype):
    if atype in ('string', 'file', 'files'):
        ids = list(TEXT_OPTIONS)
        if atype != 'string':
            ids.append('encoding')
        return ids
    if atype == 'frame':
        return list(FRAME_OPTIONS)
    if atype in DISK_TYPES:
        # the on-disk assertions have no type_matching parameter
        return [o for o in FRAME_OPTIONS if not o.startswith('type_matching')]
    return ['none']


def second_text(t):
    return t + 'second file\n'


def second_frame(df):
    """The second actual of a multi-frame assertion: same rows and index,
    one more column."""
    import numpy as np
    out = df.copy()
    out['second'] = np.arange(len(df), dtype='float64') + 0.5
    return out


# ------------------------------------------------------------------ argv menus

W_FLAGS = ('-w', '--w', '--write')
ALL_FLAGS = ('-W', '--W', '--write-all')
KIND_FORMS_Q = (['table'], ['graph'], ['table', 'graph'], ['table,graph'])
KIND_FORMS_T = KIND_FORMS_Q + (['graph', 'table'], ['graph,table'],
                               ['table', 'table'], ['table,graph', 'graph'])
SIDE_TOKENS = ('-1', '--tagged', '-0', '--istagged', '-v', '-q', '-f',
               '--wquiet', '-kTestWidget')
# unittest's -k takes a value, which may be attached and contain W / 1 / 0
SIDE_TOKENS_T = SIDE_TOKENS + ('-kcase1', '-kcase0')
CLUSTERS = ('-1W', '-W1', '-vW', '-Wv', '-0W', '-W0', '-1vW', '-fW1')


def argv_space(tier, maxside=None):
    """Every argv (list of tokens after the program name) of the bounded
    grammar  prefix* core suffix*  (documented spellings only)."""
    forms = KIND_FORMS_T if tier == 'thorough' else KIND_FORMS_Q
    if maxside is None:
        maxside = 2 if tier == 'thorough' else 1
    toks = SIDE_TOKENS_T if tier == 'thorough' else SIDE_TOKENS
    sides = [[]]
    for n in range(1, maxside + 1):
        sides += [list(s) for s in itertools.product(
            toks if n == 1 else SIDE_TOKENS, repeat=n)]
    suffixes = [[]] + [[t] for t in toks] + [['T']]
    seen = set()

    def emit(a):
        k = tuple(a)
        if k not in seen:
            seen.add(k)
            return True
        return False
    for pre in sides:
        for core in [[]] + [[f] for f in ALL_FLAGS] + [[c] for c in CLUSTERS]:
            for suf in suffixes:
                a = pre + core + suf
                if emit(a):
                    yield a
        for f in W_FLAGS:
            for ks in forms:
                a = pre + [f] + list(ks)
                if emit(a):
                    yield a


def pytest_argv_space(tier):
    forms = KIND_FORMS_T if tier == 'thorough' else KIND_FORMS_Q
    sides = ([], ['--wquiet'], ['--tagged'], ['--istagged'])
    cores = [[], ['--write-all']] + [['--write'] + list(k) for k in forms]
    for pre in sides:
        for core in cores:
            for suf in ([], ['--wquiet'], ['--tagged'], ['--write-all']):
                if suf == ['--write-all'] and core[:1] != ['--write']:
                    continue
                yield pre + core + suf


def start_tables(tier):
    """Start tables as lists of (kind, flag) set in order on ReferenceTest."""
    base = [[], [[None, True]], [['table', True]], [['graph', True]],
            [['table', False]], [[None, False]],
            [[None, True], ['table', False]],
            [['table', True], ['graph', False]]]
    if tier != 'thorough':
        return base
    out = []
    for vals in itertools.product((None, True, False), repeat=3):
        out.append([[k, v] for k, v in zip(KINDS, vals) if v is not None])
    return out


def argv_context(tokens):
    """(core family, context class) - the root-cause discriminator of an
    argv shape: which way the regeneration option is spelled and what kind
    of token stands before / after it."""
    core = None
    idx = None
    if any(t.startswith('-k') for t in tokens):
        # an option value attached to its option (-kPATTERN): one root cause
        # whatever else is on the command line
        return ('attached-option-value', 'any')
    for i, t in enumerate(tokens):
        if t in W_FLAGS or t in ALL_FLAGS or t in CLUSTERS:
            core, idx = t, i
            break
    if core is None:
        return ('no-write-option',
                '+'.join(sorted(set(_cls(t) for t in tokens))) or 'empty')
    if core == '-W':
        fam = 'W-short'
    elif core in ALL_FLAGS:
        fam = 'W-long'
    elif core in CLUSTERS:
        fam = 'W-cluster'
    elif core == '-w':
        fam = 'w-short'
    else:
        fam = 'w-long'
    pre = sorted(set(_cls(t) for t in tokens[:idx]))
    post = [] if core in W_FLAGS else \
        sorted(set(_cls(t) for t in tokens[idx + 1:]))
    if not pre and not post:
        ctx = 'alone'
    elif pre and post:
        ctx = 'between-%s-and-%s' % ('+'.join(pre), '+'.join(post))
    elif pre:
        ctx = 'after-' + '+'.join(pre)
    else:
        ctx = 'before-' + '+'.join(post)
    return (fam, ctx)


def _cls(t):
    if t in ('-1', '-0', '-v', '-q', '-f'):
        return 'short'
    if t in ('--tagged', '--istagged', '--wquiet'):
        return 'long'
    if t == 'T':
        return 'name'
    if t.startswith('-k'):
        return 'attached-value'
    return t


def bfs_menu(via):
    """Operation menu of the history search."""
    ops = []
    classes = ('RT', 'RTC', 'Sub') if via == 'unittest' else ('RT',)
    for c in classes:
        for k in KINDS:
            for f in (True, False):
                ops.append(['set', c, k, f])
    ops.append(['set', 'RT', None, 'default'])       # set_regeneration()
    ops.append(['set', 'RT', 'table', 'default'])    # set_regeneration('table')
    if via == 'unittest':
        for f in ALL_FLAGS:
            ops.append(['argv', [f]])
        for f in W_FLAGS:
            for ks in KIND_FORMS_Q:
                ops.append(['argv', [f] + list(ks)])
        for a in (['--wquiet'], ['-1', '-W'], ['-1W'], ['-v', '--write-all'],
                  ['--wquiet', '--write', 'table'], ['--tagged', '-w', 'graph']):
            ops.append(['argv', a])
    for (wa, w, q) in ((False, None, False), (True, None, False),
                       (False, ['table'], False), (False, ['graph'], False),
                       (False, ['table', 'graph'], False),
                       (False, ['table,graph'], False), (True, None, True),
                       (False, ['table'], True)):
        ops.append(['pytest', wa, w, q])
    for k in KINDS:
        for x in ('A', 'B'):
            ops.append(['assert', k, x])
    return ops


# ---------------------------------------------------------------- the real world

class Sink(object):
    """stdout/stderr replacement that remembers only whether a reference
    path was reported."""
    def __init__(self):
        self.parts = []

    def write(self, s):
        if len(self.parts) < 200:
            self.parts.append(s)
        return len(s)

    def flush(self):
        pass

    def text(self):
        return ''.join(self.parts)


class StubConfig(object):
    def __init__(self, write_all, write, wquiet):
        self.opts = {'--write-all': write_all, '--write': write,
                     '--wquiet': wquiet, '--tagged': False,
                     '--istagged': False}

    def getoption(self, name, default=None):
        return self.opts.get(name, default)


class StubRequest(object):
    def __init__(self, write_all=False, write=None, wquiet=False):
        self.config = StubConfig(write_all, write, wquiet)


class QuietRunner(object):
    ran = None

    def __init__(self, **kw):
        import unittest
        kw.pop('stream', None)
        self.r = unittest.TextTestRunner(stream=io.StringIO(), **kw)

    def run(self, test):
        res = self.r.run(test)
        QuietRunner.ran = res
        return res


class World(object):
    """Sandbox + handles on the tdda classes + execution of one operation."""

    def __init__(self):
        import warnings
        warnings.filterwarnings('ignore')
        self.root = tempfile.mkdtemp(prefix='tdda_mc_c10_', dir='/var/tmp')
        self.d = {}
        for name in ('ref', 'ref_table', 'tmp', 'act', 'probe',
                     'probe_table'):
            p = os.path.join(self.root, name)
            os.mkdir(p)
            self.d[name] = p
        self.ref_roots = [self.d['ref'], self.d['ref_table']]
        self.probe_roots = [self.d['probe'], self.d['probe_table']]
        import tdda.referencetest.referencetest as rt
        import tdda.referencetest.referencetestcase as rtc
        import tdda.referencetest.referencepytest as rpt
        self.rt, self.rtc, self.rpt = rt, rtc, rpt
        self.RT = rt.ReferenceTest
        self.RTC = rtc.ReferenceTestCase

        class Sub(self.RTC):
            def test_x(self):
                pass
        self.Sub = Sub
        self.classes = {'RT': self.RT, 'RTC': self.RTC, 'Sub': self.Sub}
        self.monitor = seams.Monitor.get()
        self.saved = (self.RT.tmp_dir, self.RT.verbose)
        self.cwd = os.getcwd()
        os.chdir(self.root)
        # failing DataFrame assertions write to tempfile.gettempdir()
        self.saved_tempdir = tempfile.tempdir
        tempfile.tempdir = self.d['tmp']
        p = os.path.join(self.d['act'], '..', 'probe_actual.bin')
        self.probe_actual = os.path.normpath(p)
        with open(self.probe_actual, 'wb') as f:
            f.write(b'probe\x00\n')

    def close(self):
        os.chdir(self.cwd)
        tempfile.tempdir = self.saved_tempdir
        shutil.rmtree(self.root, ignore_errors=True)

    # ---- module state

    def reset_modules(self):
        for cls in (self.Sub, self.RTC):
            for attr in ('regenerate', 'verbose', 'tmp_dir', 'print_fn'):
                if attr in cls.__dict__:
                    delattr(cls, attr)
        reg = self.RT.__dict__.get('regenerate')
        if isinstance(reg, dict):
            reg.clear()
        else:
            self.RT.regenerate = {}
        self.RT.verbose = True
        self.RT.tmp_dir = self.d['tmp']

    def reset_disk(self):
        for name in ('ref', 'ref_table', 'tmp', 'probe', 'probe_table'):
            seams.empty_dir(self.d[name])
        for name in ('ref', 'ref_table'):
            os.mkdir(os.path.join(self.d[name], 'sub'))

    # ---- instances

    def instance(self, via, probe=False):
        loc = self.d['probe' if probe else 'ref']
        loct = self.d['probe_table' if probe else 'ref_table']
        if via == 'unittest':
            inst = self.Sub('test_x')
        else:
            inst = self.rpt.ref(StubRequest())
        inst.set_data_location(loc)
        inst.set_data_location(loct, 'table')
        return inst

    def ref_path(self, name, kind, probe=False):
        if kind == 'table':
            return os.path.join(self.d['probe_table' if probe
                                       else 'ref_table'], name)
        return os.path.join(self.d['probe' if probe else 'ref'], name)

    # ---- raw table, for canonical keys only

    def raw_table(self):
        try:
            return repr(sorted(((str(k), bool(v)) for k, v in
                                self.RT.regenerate.items())))
        except Exception:
            return '?'

    def raw_verbose(self):
        return (bool(getattr(self.RT, 'verbose', None)),
                bool(getattr(self.RTC, 'verbose', None)))

    # ---- operations (no checking here)

    def do_table_op(self, op):
        """set / argv / pytest.  Returns None or the exception."""
        try:
            if op[0] == 'set':
                cls = self.classes[op[1]]
                if op[3] == 'default':
                    if op[2] is None:
                        cls.set_regeneration()
                    else:
                        cls.set_regeneration(op[2])
                else:
                    cls.set_regeneration(op[2], op[3])
            elif op[0] == 'argv':
                self.rtc._set_flags_from_argv(['prog'] + list(op[1]))
            elif op[0] == 'pytest':
                self.rpt.ref(StubRequest(op[1], op[2], op[3]))
            else:
                raise KeyError(op[0])
        except Exception as e:
            return e
        return None

    def do_assert(self, inst, atype, kind, actual, names, opts=None):
        """actual: dict with keys per type (built by Case).  Returns
        ('pass'|'fail'|'error:T', exception-or-None)."""
        kw = {} if kind is None else {'kind': kind}
        if opts:
            kw.update(opts)
        try:
            if atype == 'string':
                inst.assertStringCorrect(actual['text'], names[0], **kw)
            elif atype == 'file':
                inst.assertTextFileCorrect(actual['paths'][0], names[0], **kw)
            elif atype == 'files':
                inst.assertTextFilesCorrect(list(actual['paths']),
                                            list(names), **kw)
            elif atype == 'binary':
                inst.assertBinaryFileCorrect(actual['bpath'], names[0], **kw)
            elif atype == 'frame':
                df = make_frame(actual['fid'])
                if opts and '__frame__' in kw:
                    kw.pop('__frame__')
                    kw.update(frame_options(opts['__frame__'], df))
                inst.assertDataFrameCorrect(df, names[0], **kw)
            elif atype in DISK_TYPES:
                if opts and '__frame__' in kw:
                    kw.pop('__frame__')
                    kw.update(frame_options(opts['__frame__'],
                                            make_frame(actual['fid'])))
                if atype == 'diskframe':
                    inst.assertOnDiskDataFrameCorrect(actual['dpaths'][0],
                                                      names[0], **kw)
                else:
                    inst.assertOnDiskDataFramesCorrect(
                        list(actual['dpaths']), list(names), **kw)
            else:
                raise KeyError(atype)
        except AssertionError as e:
            return 'fail', e
        except Exception as e:
            return 'error:%s' % type(e).__name__, e
        return 'pass', None

    def probe(self, via):
        """Behavioural reading of the regeneration mode: for each kind, does a
        (binary file) assertion on an absent probe reference write it?"""
        for r in self.probe_roots:
            seams.empty_dir(r)
        out = []
        for k in KINDS:
            inst = self.instance(via, probe=True)
            name = 'p_%s.bin' % kname(k)
            kw = {} if k is None else {'kind': k}
            try:
                inst.assertBinaryFileCorrect(self.probe_actual, name, **kw)
                raised = None
            except AssertionError:
                raised = 'fail'
            except Exception as e:
                raised = 'error:%s' % type(e).__name__
            wrote = os.path.exists(self.ref_path(name, k, probe=True))
            if wrote and raised is None:
                out.append(True)
            elif not wrote and raised is not None:
                out.append(False)
            else:
                out.append('odd:%s:%s' % (wrote, raised))
        return out


# ------------------------------------------------------------- one BFS case

class Content(object):
    """The two actual contents (A, B) of a case for one assertion type, the
    files that hold them, the 3-valued sameness and the classification of
    what a reference file holds."""

    def __init__(self, world, atype, ida, idb, variant='lower', optid='none'):
        self.w = world
        self.atype = atype
        self.ids = {'A': ida, 'B': idb}
        self.variant = variant
        self.optid = optid
        if atype in FRAME_TYPES:
            self.opts = {} if optid == 'none' else {'__frame__': optid}
        elif optid == 'encoding':
            self.opts = ({'encodings': ['utf-8', 'utf-8']} if atype == 'files'
                         else {'encoding': 'utf-8'})
        else:
            self.opts = dict(TEXT_OPTIONS.get(optid, {}))
        self.actual = {}
        self.cache = {}
        seams.empty_dir(world.d['act'])
        for x in ('A', 'B'):
            cid = self.ids[x]
            a = {'cid': cid}
            if atype in ('string', 'file', 'files'):
                t = TEXTS[cid]
                a['text'] = t
                a['texts'] = [t, second_text(t)]
                paths = []
                for i, tt in enumerate(a['texts']):
                    p = os.path.join(world.d['act'], 'act_%s_%d.txt' % (x, i))
                    with open(p, 'wb') as f:
                        f.write(tt.encode('utf-8'))
                    paths.append(p)
                a['paths'] = paths
            elif atype == 'binary':
                p = os.path.join(world.d['act'], 'act_%s.bin' % x)
                with open(p, 'wb') as f:
                    f.write(BYTES[cid])
                a['bpath'] = p
                a['bytes'] = BYTES[cid]
            elif atype == 'frame':
                a['fid'] = cid
                a['fps'] = [frame_fingerprint(make_frame(cid))]
            else:
                # actual frames on disk, written by pandas itself
                import pandas as pd
                a['fid'] = cid
                df = make_frame(cid)
                a['dpaths'] = []
                a['fps'] = []
                for i, d in enumerate([df, second_frame(df)]):
                    p = os.path.join(world.d['act'],
                                     'act_%s_%d.parquet' % (x, i))
                    d.to_parquet(p)
                    a['dpaths'].append(p)
                    a['fps'].append(frame_fingerprint(pd.read_parquet(p)))
            self.actual[x] = a

    def names(self, kind):
        return ref_names(self.atype, kind, self.variant)

    def all_refs(self):
        out = []
        for k in KINDS:
            for n in self.names(k):
                out.append((n, k))
        return out

    def classify(self, name, kind):
        """None (absent) | 'A' | 'B' | 'AB' (both) | 'other:<sha>'."""
        p = self.w.ref_path(name, kind)
        try:
            with open(p, 'rb') as f:
                raw = f.read()
        except FileNotFoundError:
            return None
        h = hashlib.sha1(raw).hexdigest()[:12]
        second = os.path.basename(name).lower().startswith(('m2_', 'n2_'))
        key = (second, h)
        if key in self.cache:
            return self.cache[key]
        hits = ''
        for x in ('A', 'B'):
            a = self.actual[x]
            if self.atype in ('string', 'file', 'files'):
                want = a['texts'][1 if second else 0]
                try:
                    got = raw.decode('utf-8')
                except UnicodeDecodeError:
                    continue
                if spec.text_norm(got) == spec.text_norm(want):
                    hits += x
            elif self.atype == 'binary':
                if raw == a['bytes']:
                    hits += x
            else:
                try:
                    import pandas as pd
                    got = frame_fingerprint(pd.read_parquet(p))
                except Exception:
                    continue
                if got == a['fps'][1 if second else 0]:
                    hits += x
        r = hits or ('other:' + h)
        self.cache[key] = r
        return r

    def cause(self, x, name, kind, outcome='fail'):
        """Root-cause discriminator for 'regenerated reference fails': for
        frames the dtype changes of the parquet round trip (read back with
        pandas alone) or, failing that (and first when the comparison did not
        merely fail but raised), a change of the index; otherwise the
        content id."""
        if self.atype in ('string', 'file', 'files'):
            return text_feature(TEXTS[self.ids[x]])
        if self.atype not in FRAME_TYPES:
            return self.ids[x]
        try:
            import pandas as pd
            got = pd.read_parquet(self.w.ref_path(name, kind))
            if self.atype == 'frame':
                want = make_frame(self.ids[x])
            else:
                want = pd.read_parquet(self.actual[x]['dpaths'][0])
            ch = sorted(set('%s->%s' % (want[c].dtype, got[c].dtype)
                            for c in want.columns if c in got.columns
                            and str(want[c].dtype) != str(got[c].dtype)))
            if list(got.columns) != list(want.columns):
                ch.append('columns')
            ix = None
            if index_class(want) != index_class(got) or \
                    list(want.index.names) != list(got.index.names) or \
                    [str(v) for v in want.index] != [str(v) for v in got.index]:
                ix = 'index[%s->%s]' % (index_class(want), index_class(got))
            if ix and outcome.startswith('error'):
                return ix
            if ch:
                return 'dtype[%s]' % ','.join(ch)
            if ix:
                return ix
        except Exception as e:
            return 'unreadable:%s' % type(e).__name__
        return self.ids[x]

    def disk(self):
        return tuple((n, self.classify(n, k)) for (n, k) in self.all_refs())

    def same(self, ref_id, actual_x):
        """3-valued: does a reference holding content ref_id match actual?"""
        if ref_id is None:
            return False
        if ref_id.startswith('other:'):
            return None
        if actual_x in ref_id:
            return True
        return False       # A and B are chosen robustly different


class MState(object):
    """Model state."""
    __slots__ = ('table', 'quiet', 'files')

    def __init__(self, table=None, quiet=False, files=None):
        self.table = dict(table or {})
        self.quiet = quiet
        self.files = dict(files or {})

    def copy(self):
        return MState(self.table, self.quiet, self.files)


def model_table_step(ms, op):
    """Model transition of a set / argv / pytest op.
    Returns (new MState, unspecified?)."""
    n = ms.copy()
    if op[0] == 'set':
        flag = True if op[3] == 'default' else op[3]
        n.table = spec.table_set(ms.table, op[2], flag)
        return n, False
    if op[0] == 'argv':
        m = spec.parse_unittest_argv(list(op[1]))
    else:
        m = spec.parse_pytest_options(op[1], op[2], op[3])
    n.table, n.quiet = spec.apply_meaning(ms.table, ms.quiet, m)
    return n, m.unspecified


def op_sig(op, fine=True):
    if op[0] == 'set':
        return 'set:%s:%s:%s' % (op[1], kname(op[2]), op[3])
    if op[0] == 'argv':
        fam, ctx = argv_context(list(op[1]))
        if not fine:
            ctx = ctx.split('-')[0]     # alone / after / before / between
        return 'argv:%s:%s' % (fam, ctx)
    if op[0] == 'pytest':
        w = op[2]
        form = 'none' if not w else ('comma' if any(',' in x for x in w)
                                     else 'list%d' % len(w))
        return 'pytest:all=%s:write=%s:quiet=%s' % (op[1], form, op[3])
    return 'assert'


class Explorer(object):
    """Runs histories for one (type, content pair, via)."""

    def __init__(self, world, R, atype, ida, idb, via, subinfo,
                 variant='lower', optid='none'):
        self.w = world
        self.R = R
        self.atype = atype
        self.via = via
        self.content = Content(world, atype, ida, idb, variant, optid)
        self.subinfo = subinfo
        # discriminators appended to signatures of this case
        self.tail = ''
        if optid in FRAME_INDEX_OPTIONS:
            # which labels / which further columns is not part of the cause
            self.tail += ':opt=%s=index' % optid.split('=')[0]
        elif optid != 'none':
            self.tail += ':opt=' + optid
        if variant != 'lower':
            self.tail += ':name=' + variant
        # the follow-up verdict is only demanded where the statement speaks:
        # frames saved as parquet (any spelling of the extension)
        self.followup_specified = not (atype in FRAME_TYPES and
                                       variant not in PARQUET_VARIANTS)

    # -- build a state from its history on a clean sandbox (no checking)
    def build(self, hist):
        w = self.w
        w.reset_modules()
        w.reset_disk()
        for op in hist:
            if op[0] == 'assert':
                inst = w.instance(self.via)
                w.do_assert(inst, self.atype, op[1],
                            self.content.actual[op[2]],
                            self.content.names(op[1]), self.content.opts)
            else:
                w.do_table_op(op)

    def sig_tail(self, kind, x):
        """':opt=..:name=..' if the comparison option / the spelling of the
        reference name is part of the root cause, decided by a control
        experiment: regenerate and repeat the same assertion with default
        options and the plain lower-case name; if that fails too, the
        option / name is not the cause.  (Only runs after a violation; the
        sandbox is rebuilt for the next transition anyway.)"""
        if not self.tail:
            return ''
        w = self.w
        sink = Sink()
        try:
            with contextlib.redirect_stdout(sink), \
                    contextlib.redirect_stderr(sink):
                w.reset_modules()
                w.reset_disk()
                names = ref_names(self.atype, kind, 'lower')
                w.RT.set_regeneration(None, True)
                o1, _ = w.do_assert(w.instance(self.via), self.atype, kind,
                                    self.content.actual[x], names, {})
                w.RT.set_regeneration(None, False)
                o2, _ = w.do_assert(w.instance(self.via), self.atype, kind,
                                    self.content.actual[x], names, {})
        except Exception:
            return self.tail
        return self.tail if (o1 == 'pass' and o2 == 'pass') else ''

    def viol(self, sig, clause, hist, op, **detail):
        d = {'type': self.atype, 'via': self.via, 'history': hist, 'op': op,
             'contents': self.content.ids, 'options': self.content.optid,
             'reference_names': self.content.names(
                 op[1] if op and op[0] == 'assert' else None)}
        d.update(detail)
        self.R.viol(sig, clause, d, dict(self.subinfo, history=hist, op=op))

    def check_probe(self, ms, hist, op, label):
        """Conformance of the regeneration mode, read behaviourally."""
        got = self.w.probe(self.via)
        ok = True
        odd = [g for g in got if isinstance(g, str)]
        if odd:
            # the probing assertion itself neither regenerated cleanly nor
            # failed cleanly (wrote and raised / raised nothing, wrote nothing)
            self.viol('regeneration-probe-inconsistent:binary:%s' % odd[0],
                      'regeneration-writes-reference', hist, op,
                      probe=[str(g) for g in got],
                      model_table=list(spec.table_key(ms.table)))
            return False, got
        for k, g in zip(KINDS, got):
            want = spec.should_regen(ms.table, k)
            if want is None:
                self.R.unspec += 1
                continue
            if g is not want:
                ok = False
                self.viol('mode:%s:%s' % (
                    label,
                    'selected-kind-not-regenerated' if want else
                    ('unselected-kind-regenerated' if g is True else g)),
                    'selected-kinds-exactly', hist, op,
                    kind=kname(k), expected_regenerate=want, observed=g,
                    model_table=list(spec.table_key(ms.table)),
                    real_table=self.w.raw_table())
        return ok, got

    # -- one instrumented transition; returns (new model state | None, tag)
    def step(self, hist, ms, op):
        w, R, c = self.w, self.R, self.content
        self.build(hist)
        R.ev()
        sink = Sink()
        if op[0] != 'assert':
            nms, unspecified = model_table_step(ms, op)
            before = seams.snapshot(w.ref_roots)
            w.monitor.start(w.ref_roots)
            with contextlib.redirect_stdout(sink), \
                    contextlib.redirect_stderr(sink):
                exc = w.do_table_op(op)
            log = w.monitor.stop()
            after = seams.snapshot(w.ref_roots)
            if unspecified:
                R.unspec += 1
                return None, 'unspecified-op'
            if exc is not None:
                self.viol('raises:%s:%s' % (op_sig(op), type(exc).__name__),
                          'option-accepted', hist, op, exception=repr(exc)[:300])
                return None, 'op-raises'
            if log or seams.snapshot_diff(before, after):
                self.viol('option-touches-reference:%s' % op_sig(op),
                          'written-only-by-regenerating-assertion', hist, op,
                          audit=log[:5],
                          diff=seams.snapshot_diff(before, after)[:5])
                return None, 'op-touches'
            with contextlib.redirect_stdout(sink), \
                    contextlib.redirect_stderr(sink):
                ok, got = self.check_probe(nms, hist, op,
                                           op_sig(op, fine=False))
            if not ok:
                return None, 'mode-mismatch'
            return nms, 'mode:%s' % ''.join(
                'R' if g is True else '-' for g in got)

        # ---- an assertion
        kind, x = op[1], op[2]
        refs = c.names(kind)
        mode, regen_files, passes = spec.assertion_expect(
            ms.table, ms.files, refs, kind, x, c.same)
        seams.age(w.ref_roots)
        before = seams.snapshot(w.ref_roots)
        disk_before = c.disk()
        inst = w.instance(self.via)
        w.monitor.start(w.ref_roots)
        with contextlib.redirect_stdout(sink), contextlib.redirect_stderr(sink):
            outcome, exc = w.do_assert(inst, self.atype, kind, c.actual[x],
                                       refs, c.opts)
        log = w.monitor.stop()
        after = seams.snapshot(w.ref_roots)
        diff = seams.snapshot_diff(before, after)
        disk_after = c.disk()
        own = set(w.ref_path(n, kind) for n in refs)
        tname = self.atype
        known = set(w.ref_path(n, k) for (n, k) in c.all_refs())
        if any(e[1] not in known for e in log) or \
                any(d[1] not in known for d in diff):
            # some other file appeared in a reference directory: where
            # failure artefacts go is C15's question, not this property's
            R.out('stray-file-in-reference-dir')
        log = [e for e in log if e[1] in known]
        diff = [d for d in diff if d[1] in known]
        touched = bool(log or diff)
        if mode is None:
            R.unspec += 1
            # either behaviour is acceptable; an exception can only come
            # from a comparison
            mode = touched and exc is None
        if not mode:
            # ---------------- normal mode: nothing on disk may change
            if touched:
                what = sorted(set([d[0] for d in diff] +
                                  [e[0] for e in log]))
                self.viol('normal-mode-touches-reference:%s:%s:%s' % (
                    tname, outcome.split(':')[0], '+'.join(what)),
                    'normal-mode-never-touches-reference', hist, op,
                    outcome=outcome, audit=log[:6], snapshot_diff=diff[:6],
                    model_table=list(spec.table_key(ms.table)),
                    real_table=w.raw_table())
                return None, 'normal-touched'
            if passes is True and outcome != 'pass' and \
                    not self.followup_specified:
                R.unspec += 1
                passes = None
            if passes is True and outcome != 'pass':
                cause = c.cause(x, refs[0], kind, outcome)
                self.viol('regenerated-reference-fails:%s:%s:%s%s' % (
                    tname, cause, outcome,
                    self.sig_tail(kind, x)),
                    'regenerated-reference-passes',
                    hist, op, outcome=outcome, exception=repr(exc)[:600],
                    disk=list(disk_before))
                return None, 'normal-wrong-outcome'
            if passes is False and outcome == 'pass':
                self.viol('normal-mode-passes-on-wrong-reference:%s' % tname,
                          'normal-mode-compares', hist, op, outcome=outcome,
                          disk=list(disk_before))
                return None, 'normal-wrong-outcome'
            if passes is None:
                R.unspec += 1
            nms = ms.copy()
            tag = 'normal:%s' % outcome
        else:
            # ---------------- regeneration mode
            if exc is not None:
                self.viol('regeneration-raises:%s:%s%s' % (
                    tname, type(exc).__name__, self.sig_tail(kind, x)),
                    'regeneration-writes-reference',
                    hist, op, outcome=outcome, exception=repr(exc)[:600],
                    kind=kname(kind))
                return None, 'regen-raises'
            stray = [d for d in diff if d[1] not in own]
            if stray:
                self.viol('regeneration-touches-other-reference:%s' % tname,
                          'only-the-selected-reference', hist, op,
                          snapshot_diff=diff[:6], own=sorted(own))
                return None, 'regen-stray'
            changed = set(d[1] for d in diff)
            if not own <= changed:
                self.viol('regeneration-does-not-write:%s%s'
                          % (tname, self.sig_tail(kind, x)),
                          'regeneration-writes-reference', hist, op,
                          snapshot_diff=diff[:6], own=sorted(own))
                return None, 'regen-not-written'
            nms = ms.copy()
            after_ids = dict(disk_after)
            for n in refs:
                nms.files[n] = after_ids[n]
            tag = 'regen:%s' % ('quiet' if not any(
                os.path.basename(p) in sink.text() for p in own)
                else 'reported')
            if not self.probe_after_assert(nms, hist, op, sink):
                return None, 'mode-mismatch'
            # ---- follow-up: all flags off -> same assertion, same actual
            for cls_k in list(ms.table):
                self.w.RT.set_regeneration(cls_k, False)
            seams.age(w.ref_roots)
            b2 = seams.snapshot(w.ref_roots)
            inst2 = w.instance(self.via)
            w.monitor.start(w.ref_roots)
            with contextlib.redirect_stdout(sink), \
                    contextlib.redirect_stderr(sink):
                out2, exc2 = w.do_assert(inst2, self.atype, kind, c.actual[x],
                                         refs, c.opts)
            log2 = [e for e in w.monitor.stop() if e[1] in known]
            d2 = [d for d in seams.snapshot_diff(
                b2, seams.snapshot(w.ref_roots)) if d[1] in known]
            R.ev()
            if log2 or d2:
                self.viol('followup-touches-reference:%s' % tname,
                          'normal-mode-never-touches-reference', hist, op,
                          audit=log2[:6], snapshot_diff=d2[:6], outcome=out2)
                return None, 'followup-touched'
            if out2 != 'pass' and not self.followup_specified:
                # e.g. a frame reference in CSV form: outside the statement
                R.unspec += 1
                return nms, tag + '+followup-unspecified:' + out2
            if out2 != 'pass':
                cause = c.cause(x, refs[0], kind, out2)
                self.viol('regenerated-reference-fails:%s:%s:%s%s' % (
                    tname, cause, out2,
                    self.sig_tail(kind, x)),
                    'regenerated-reference-passes',
                    hist, op, outcome=out2, exception=repr(exc2)[:600],
                    disk=list(disk_after))
                return None, 'followup-fails'
            tag += '+followup-pass'
            # the follow-up ran on a scratch continuation of this state; the
            # state itself is rebuilt from its history when it is expanded
            return nms, tag
        if not self.probe_after_assert(nms, hist, op, sink):
            return None, 'mode-mismatch'
        return nms, tag

    def probe_after_assert(self, nms, hist, op, sink):
        # the regeneration mode must be unchanged by an assertion
        with contextlib.redirect_stdout(sink), contextlib.redirect_stderr(sink):
            ok, got = self.check_probe(nms, hist, op,
                                       'after-assert:%s' % self.atype)
        return ok

    def canon(self, ms):
        return (spec.table_key(ms.table), ms.quiet,
                tuple(sorted(ms.files.items())))

    def bfs(self, start_hist, menu, depth):
        """depth None = to the fixpoint."""
        R = self.R
        ms = MState()
        # the start state is itself reached through checked transitions
        h = []
        for op in start_hist:
            ms2, tag = self.step(h, ms, op)
            R.out(tag)
            if ms2 is None:
                return
            ms = ms2
            h = h + [op]
        seen = {self.canon(ms)}
        frontier = [(h, ms)]
        d = 0
        while frontier and (depth is None or d < depth):
            nxt = []
            for hist, st in frontier:
                for op in menu:
                    st2, tag = self.step(hist, st, op)
                    R.out(tag)
                    if st2 is None:
                        continue
                    k = self.canon(st2)
                    if k not in seen:
                        seen.add(k)
                        nxt.append((hist + [op], st2))
            frontier = nxt
            d += 1
        R.states += len(seen)
        self.maxdepth = d


# ------------------------------------------------------------------ the check

def content_ids(atype, tier):
    if atype in ('string', 'file', 'files'):
        return TEXT_THOROUGH if tier == 'thorough' else TEXT_QUICK
    if atype == 'binary':
        return BYTES_THOROUGH if tier == 'thorough' else BYTES_QUICK
    return FRAME_THOROUGH          # every frame family in both tiers


# base frames that get the column-oriented options under every index form
INDEX_OPTION_BASES = ('int', 'float-nan', 'zero-rows')
# base frames of the on-disk assertions in the index layer (quick tier)
INDEX_DISK_BASES = ('int', 'float-nan', 'obj-none', 'dt-ns', 'zero-rows',
                    'two-col', 'cat')

HIST_STARTS = [[], [['set', 'RT', None, True]], [['set', 'RT', 'table', True]],
               [['set', 'RT', 'graph', False]]]


class C10(Check):
    pid = 'C10'
    title = ('references are rewritten only on request, and a regenerated '
             'reference passes')
    technique = ('explicit-state breadth-first search over operation '
                 'histories (regeneration-table operations, every argv '
                 'spelling, the pytest route, five assertion types) on the '
                 'real code in a sandbox, each state rebuilt from its '
                 'history, model/implementation conformance and filesystem '
                 'invariants checked on every transition')
    rule = ('case = (assertion type, content pair, route, start table) with a '
            'BFS over the operation menu inside, or (route, start table, '
            'argv) in the argv layer; every transition is one real '
            'operation executed on a state rebuilt from scratch and compared '
            'with regen_spec; non-trivial = the case contains at least one '
            'regenerating assertion and one normal-mode assertion, or an '
            'argv that selects a proper subset of kinds')
    assumptions = [
        'frames: 20 dtype families x 8 index forms (default + 7 non-default); '
        'options referring to the index: condition on row labels (isin / '
        '!=), sortby on the index level names (alone / followed by a '
        'column); the on-disk DataFrame assertions take parquet actual '
        'files written by pandas with its defaults and are in the content, '
        'options, index, names and hist2 layers (hist3+ only in thorough)',
        'kinds alphabet {default, table, graph}; contents: two robustly '
        'different actuals A/B per case; histories bounded by the layer '
        'depth (thorough: fixpoint of the 3-file state space per case)',
        'argv grammar: prefix* core suffix* over the documented spellings; '
        'deeper histories use 20 representative argv shapes, the argv layer '
        'uses all of them from every start table',
        'unspecified (never alarmed): a kind whose own flag is False while '
        'the all-kinds flag is True; --write with no kinds; options after '
        'the kind list of -w; tdda options after a test name; -wquiet; '
        'whether a content mismatch is reported as AssertionError or another '
        'exception; what is printed',
        'trusted base: python open()/os, sys.addaudithook, pytest option '
        'parser, pandas.read_parquet for telling A from B',
        'text encoding of the process is UTF-8',
    ]

    def __init__(self):
        self.world = None
        self.tier = 'quick'

    def hashseeds(self, tier, verif_seed):
        return [verif_seed % 3]

    # ---- layers / cases

    def layers(self, tier):
        L = [('argv', 'every argv spelling x start table x route '
                      '(flags / main / pytest parser)'),
             ('content', 'regenerate then repeat in normal mode: every '
                         'content x assertion type x kind x route (depth 2)'),
             ('options', 'regenerate then repeat with the same comparison '
                         'option: every option alone x contents it can act '
                         'on x assertion type'),
             ('index', 'frames with a non-default index (named, labelled, '
                       'filtered, sliced, named range, multi-level, '
                       'datetime) x every dtype family x options referring '
                       'to the index (condition on labels, sortby on level '
                       'names) and to columns'),
             ('names', 'reference-name alphabet: extension case, no '
                       'extension, two dots, sub-directory, unicode/space, '
                       'other extensions x assertion type'),
             ('hist2', 'BFS depth 2, full menu, 7 types x 2 routes x 4 start '
                       'tables'),
             ('hist3', 'BFS depth 3')]
        if tier == 'thorough':
            L.append(('hist4', 'BFS depth 4'))
            L.append(('closure', 'BFS to the fixpoint of the (table x disk) '
                                 'state space, reduced menu'))
        return L

    def cases(self, tier, layer):
        if layer == 'argv':
            base = start_tables('quick')
            for st in start_tables(tier):
                # thorough: two-token prefixes from the 8 base tables, one-
                # token prefixes from all 27 tables
                for a in argv_space(tier, None if st in base else 1):
                    yield {'mode': 'argv', 'route': 'flags', 'start': st,
                           'argv': a}
            for st in start_tables(tier):
                for a in pytest_argv_space(tier):
                    yield {'mode': 'argv', 'route': 'pytest', 'start': st,
                           'argv': a}
            for a in argv_space(tier):
                if '-0' in a or '--istagged' in a or \
                        any(c in a for c in ('-0W', '-W0')) or \
                        any(t.startswith('-k') for t in a):
                    continue      # no test would run (list mode / -k filter)
                yield {'mode': 'argv', 'route': 'main', 'start': [],
                       'argv': a}
            return
        if layer == 'content':
            for t in TYPES + DISK_TYPES:
                for cid in content_ids(t, tier):
                    for via in ('unittest', 'pytest'):
                        yield {'mode': 'bfs', 'type': t, 'A': cid, 'B': 'Q',
                               'via': via, 'start': [], 'depth': 2,
                               'menu': 'content'}
            if tier == 'thorough':
                # the 16 classic contents again under every table operation
                for t in TYPES + DISK_TYPES:
                    ids = content_ids(t, tier)
                    if t in ('string', 'file', 'files'):
                        ids = [c for c in TEXT_QUICK
                               if not c.startswith(('end-', 'mid-'))]
                    for cid in ids:
                        for via in ('unittest', 'pytest'):
                            yield {'mode': 'bfs', 'type': t, 'A': cid,
                                   'B': 'Q', 'via': via, 'start': [],
                                   'depth': 2, 'menu': 'content-full'}
            return
        if layer == 'options':
            for t in TYPES + DISK_TYPES:
                for opt in option_ids(t):
                    if opt == 'none':
                        continue
                    if t in FRAME_TYPES:
                        ids = FRAME_THOROUGH
                        vias = ('unittest', 'pytest') if tier == 'thorough' \
                            else ('unittest',)
                    else:
                        ids = OPT_CONTENTS if tier != 'thorough' else \
                            OPT_CONTENTS + [c for c in TEXT_QUICK
                                            if c not in OPT_CONTENTS]
                        vias = ('unittest', 'pytest')
                    for cid in ids:
                        if t in FRAME_TYPES and \
                                not frame_option_applies(opt, cid):
                            continue
                        for via in vias:
                            yield {'mode': 'bfs', 'type': t, 'A': cid,
                                   'B': 'Q', 'via': via, 'start': [],
                                   'depth': 2, 'menu': 'mini', 'opt': opt}
            return
        if layer == 'index':
            vias = ('unittest', 'pytest') if tier == 'thorough' \
                else ('unittest',)
            for t in FRAME_TYPES:
                for base in FRAME_THOROUGH:
                    # every dtype family under every index form: plain, and
                    # with each option that refers to the index; the column-
                    # oriented options on three base frames (numeric, with
                    # nulls, no rows) through the in-memory assertion
                    opts = ['none'] + FRAME_INDEX_OPTIONS
                    if tier == 'thorough' or (t == 'frame' and
                                              base in INDEX_OPTION_BASES):
                        opts = option_ids(t)
                    if t in DISK_TYPES and tier != 'thorough' and \
                            base not in INDEX_DISK_BASES:
                        continue
                    for form in INDEX_FORMS:
                        cid = '%s@%s' % (base, form)
                        for opt in opts:
                            if not frame_option_applies(opt, cid):
                                continue
                            for via in vias:
                                c = {'mode': 'bfs', 'type': t, 'A': cid,
                                     'B': 'Q', 'via': via, 'start': [],
                                     'depth': 2, 'menu': 'mini'}
                                if opt != 'none':
                                    c['opt'] = opt
                                yield c
            return
        if layer == 'names':
            for t in TYPES + DISK_TYPES:
                if t in FRAME_TYPES:
                    ids = ['A', 'float-nan', 'cat']
                elif t == 'binary':
                    ids = ['A', 'all256']
                else:
                    ids = ['A', 'in-ff', 'uni']
                for variant in name_variants(t):
                    if variant == 'lower':
                        continue
                    for cid in ids:
                        for via in ('unittest', 'pytest'):
                            yield {'mode': 'bfs', 'type': t, 'A': cid,
                                   'B': 'Q', 'via': via, 'start': [],
                                   'depth': 2, 'menu': 'mini',
                                   'name': variant}
            return
        if layer in ('hist2', 'hist3', 'hist4'):
            depth = int(layer[-1])
            for t in TYPES + DISK_TYPES:
                if t in DISK_TYPES and depth >= 3 and tier != 'thorough':
                    continue
                for via in ('unittest', 'pytest'):
                    for st in HIST_STARTS:
                        if depth >= 3 and tier != 'thorough' and (
                                st not in HIST_STARTS[:3:2] or
                                (t == 'frame' and (st or via == 'unittest'))):
                            continue
                        yield {'mode': 'bfs', 'type': t, 'A': 'A', 'B': 'B',
                               'via': via, 'start': st, 'depth': depth,
                               'menu': 'full'}
            return
        if layer == 'closure':
            for t in TYPES:
                for via in ('unittest', 'pytest'):
                    yield {'mode': 'bfs', 'type': t, 'A': 'A', 'B': 'B',
                           'via': via, 'start': [], 'depth': None,
                           'menu': 'closure'}
            return
        raise KeyError(layer)

    # ---- worker

    def setup_worker(self, tier):
        self.tier = tier
        self.world = World()
        w = self.world
        check = self

        class T(w.RTC):
            def test_regen(self):
                for k in KINDS:
                    kw = {} if k is None else {'kind': k}
                    try:
                        self.assertStringCorrect('main route\n',
                                                 'main_%s.txt' % kname(k),
                                                 **kw)
                        check.main_log.append((kname(k), 'pass'))
                    except AssertionError:
                        check.main_log.append((kname(k), 'fail'))
                    except Exception as e:
                        check.main_log.append((kname(k), type(e).__name__))
        T.test_regen = w.rt.tag(T.test_regen)
        T.set_default_data_location(w.d['ref'])
        T.set_default_data_location(w.d['ref_table'], 'table')
        T.__module__ = 'mc_c10_mod'
        self.T = T
        self.mod = types.ModuleType('mc_c10_mod')
        self.mod.T = T
        self.main_log = []
        self.pyparser = None
        try:
            from _pytest.config.argparsing import Parser
            try:
                p = Parser(_ispytest=True)
            except TypeError:
                p = Parser()
            w.rpt.addoption(p)
            self.pyparser = p
        except Exception:
            self.pyparser = None

    def teardown_worker(self):
        if self.world is not None:
            self.world.close()
            self.world = None

    # ---- cases

    def run_case(self, case):
        sink = Sink()
        with contextlib.redirect_stdout(sink), contextlib.redirect_stderr(sink):
            return self._run_case(case)

    def _run_case(self, case):
        R = Res()
        w = self.world
        w.reset_modules()
        if case['mode'] == 'argv':
            if case['route'] == 'main':
                self.run_main(R, case)
            else:
                self.run_argv(R, case)
            return R
        t = case['type']
        via = case['via']
        ex = Explorer(w, R, t, case['A'], case['B'], via,
                      {'type': t, 'via': via},
                      variant=case.get('name', 'lower'),
                      optid=case.get('opt', 'none'))
        if t in ('string', 'file', 'files'):
            assert spec.text_same(TEXTS[case['A']], TEXTS[case['B']]) is False
        menu = bfs_menu(via)
        if case['menu'] == 'closure':
            # reduced menu that still reaches every (table, disk) state:
            # all six flag settings, one spelling per route, all assertions
            keep = [['argv', ['-W']], ['argv', ['--write', 'table']],
                    ['argv', ['-w', 'graph']],
                    ['pytest', True, None, False],
                    ['pytest', False, ['graph'], False]]
            menu = [op for op in menu
                    if (op[0] == 'set' and op[1] == 'RT' and
                        op[3] != 'default')
                    or op[0] == 'assert' or op in keep]
        if case['menu'] == 'mini':
            # [regenerate everything] [assert each kind] (+ follow-up), and
            # the same assertions in normal mode on absent references
            menu = [op for op in menu
                    if op == ['set', 'RT', None, True]
                    or (op[0] == 'assert' and op[2] == 'A')]
        if case['menu'] == 'content-full':
            # depth 2: [make a kind regenerate] [assert] - every table op and
            # the A-assertions; the follow-up clause runs inside step()
            menu = [op for op in menu if op[0] != 'assert' or op[2] == 'A']
        if case['menu'] == 'content':
            # the same with one table operation per route and per selection
            # (all kinds / one kind), so that the whole content alphabet fits
            # the quick tier: every kind is regenerated with this content
            # through every route, then re-checked in normal mode
            keep = [['set', 'RT', None, True], ['set', 'Sub', 'table', True],
                    ['set', 'RT', 'graph', True], ['argv', ['-W']], ['argv', ['-w', 'graph']],
                    ['pytest', True, None, False],
                    ['pytest', False, ['table'], False]]
            menu = [op for op in menu
                    if op in keep or (op[0] == 'assert' and op[2] == 'A')]
        ex.bfs([list(o) for o in case['start']], menu, case['depth'])
        tags = R.outcomes
        R.nontrivial = any(k.startswith('regen:') for k in tags) and \
            any(k.startswith('normal:') for k in tags)
        w.reset_modules()
        return R

    def run_argv(self, R, case):
        w = self.world
        tokens = list(case['argv'])
        start = [['set', 'RT', k, f] for (k, f) in case['start']]
        if case['route'] == 'flags':
            via = 'unittest'
            op = ['argv', tokens]
            m = spec.parse_unittest_argv(tokens)
        else:
            via = 'pytest'
            if self.pyparser is None:
                R.unspec += 1
                R.out('no-pytest-parser')
                return
            sink = Sink()
            try:
                with contextlib.redirect_stdout(sink), \
                        contextlib.redirect_stderr(sink):
                    ns = self.pyparser.parse(list(tokens))
            except BaseException as e:
                if isinstance(e, KeyboardInterrupt):
                    raise
                R.unspec += 1
                R.out('pytest-parser-rejects')
                return
            op = ['pytest', bool(ns.write_all),
                  list(ns.write) if ns.write else None, bool(ns.wquiet)]
            m = spec.parse_pytest_options(op[1], op[2], op[3])
        ex = Explorer(w, R, 'string', 'A', 'B', via,
                      {'route': case['route'], 'argv': tokens})
        ms = MState()
        h = []
        for sop in start:
            ms2, tag = ex.step(h, ms, sop)
            if ms2 is None:
                R.out('start:' + tag)
                return
            ms, h = ms2, h + [sop]
        ms2, tag = ex.step(h, ms, op)
        R.out(tag)
        R.states += 1
        sel = set(m.kinds)
        R.nontrivial = (not m.unspecified) and bool(sel) and not m.all
        w.reset_modules()

    def run_main(self, R, case):
        """End to end: ReferenceTestCase.main on a module whose only test makes
        one string assertion per kind; which references exist afterwards must
        be exactly the kinds the argv selects."""
        w = self.world
        tokens = list(case['argv'])
        m = spec.parse_unittest_argv(tokens)
        w.reset_modules()
        w.reset_disk()
        self.main_log[:] = []
        QuietRunner.ran = None
        sink = Sink()
        exit_code = None
        exc = None
        try:
            with contextlib.redirect_stdout(sink), \
                    contextlib.redirect_stderr(sink):
                w.RTC.main(module=self.mod, argv=['prog'] + tokens,
                           exit=False, testRunner=QuietRunner)
        except SystemExit as e:
            exit_code = e.code
        except Exception as e:
            exc = e
        R.ev()
        R.states += 1
        wrote = [os.path.exists(w.ref_path('main_%s.txt' % kname(k), k))
                 for k in KINDS]
        table = spec.apply_meaning({}, False, m)[0]
        want = [spec.should_regen(table, k) for k in KINDS]
        w.reset_modules()
        sub = {'route': 'main', 'argv': tokens}
        core, ctx = argv_context(tokens)
        det_ctx = ctx
        ctx = ctx.split('-')[0]          # alone / after / before / between
        if m.unspecified:
            R.unspec += 1
            R.out('main:unspecified')
            return
        R.nontrivial = bool(m.kinds) and not m.all
        det = {'argv': ['prog'] + tokens, 'context': det_ctx, 'wrote': wrote,
               'expected': want,
               'test_log': list(self.main_log), 'exit': exit_code,
               'exception': repr(exc)[:300] if exc else None,
               'stderr': sink.text()[-300:]}
        if exc is not None:
            R.out('main:raises:%s' % type(exc).__name__)
            R.viol('raises:main:%s:%s:%s' % (core, ctx, type(exc).__name__),
                   'option-accepted', det, sub)
            return
        if exit_code is not None or not self.main_log:
            R.out('main:not-run:exit=%s' % exit_code)
            if not (m.all or m.kinds):
                # no regeneration requested: whether the tests run at all is
                # C19's question; nothing may have been written
                if any(wrote):
                    R.viol('mode:main:%s:%s:unselected-kind-regenerated'
                           % (core, ctx.split('-')[0]),
                           'selected-kinds-exactly', det, sub)
                return
            R.viol('main-does-not-run-tests:%s:%s' % (core, ctx),
                   'option-accepted', det, sub)
            return
        R.out('main:wrote:%s' % ''.join('R' if x else '-' for x in wrote))
        for k, g, wnt in zip(KINDS, wrote, want):
            if wnt is None:
                R.unspec += 1
            elif g != wnt:
                R.viol('mode:main:%s:%s:%s' % (
                    core, ctx.split('-')[0],
                    'selected-kind-not-regenerated' if wnt
                    else 'unselected-kind-regenerated'),
                    'selected-kinds-exactly', det, sub)


CHECK = C10()
