"""
C08 - SQLite: discovery is sound (constraints discovered from a table verify
against that same table with no failures and without error) and verification
notices a violating row (after discovery, INSERTing one row that breaks one
discovered constraint makes verification report that constraint as failed).

E3-style two-step histories on the REAL connector
(tdda.constraints.db.drivers.database_connection(dbtype='sqlite',
db=':memory:'), so tdda's own REGEXP function is installed):

  state 0   table t (1-2 columns, 0-3 rows) built with parameterised INSERTs
  trans 1   discover_db_table(rex off|on) -> to_json -> file ->
            verify_db_table (all defaults)            oracle: no exception,
                                                      failures == 0
  trans 2   for EVERY perturbation the model (models/db_spec.py) derives from
            the discovered constraints and the statement's menu:
            INSERT the row -> verify_db_table -> DELETE the row
                                                      oracle: the targeted
                                                      constraint's verdict is
                                                      a failure
  trans 3   verify_db_table on the restored table     oracle: as trans 1

Every history is executed in a child forked from the worker's pristine image
(tdda imported, never called), so a case never sees state left by another
case and a replay in a fresh process sees exactly what the explorer saw.
Dependence on what the process did BEFORE is explored explicitly by the
`same-name` layers: table t with layout A is discovered and verified, then a
differently laid-out (or differently filled) table with the same name t - in
a new in-memory database, or after DROP TABLE / CREATE TABLE in the same one -
goes through the full history; differential oracle: every observation
(discovered constraints, closure verdicts, the verdict of every perturbation)
equals the observation of that last table run from a fresh state.

The table DEFINITION is a dimension of its own (layers tdef-1 / tdef-2):
PRIMARY KEY as column or table constraint, composite in both column orders,
WITHOUT ROWID, UNIQUE (per column / composite), NOT NULL, DEFAULT (the
perturbing INSERT then leaves the column out), plain and unique indexes, and
a view over the table (tdda accepts views wherever it accepts tables).  Only
tables the definition admits are generated (models/db_spec.table_legal); a
perturbing row that SQLite rejects, or stores as something else, is not a
perturbation.  So is WHERE the database lives and HOW the caller's writes
reach it (layer txn): in memory or in a file opened by path; the perturbing
row committed, left uncommitted on the very connection that is handed to
verify_db_table (tdda's connector opens connections in sqlite3's default
implicit-transaction mode, so this is what "INSERT, then verify" does),
written through a second connection, the table's own rows uncommitted at
discovery, or an autocommit connection.  "Adding a row" in the statement
carries no transaction condition: a row the connection sees is in the table.
Oracle: the same clauses, plus every observation equals that of the same
table in a committed in-memory database.

Other verdicts after a perturbation are unconstrained.  Perturbations whose
effect the documentation leaves open are executed but only counted
(unspecified).
"""
import contextlib
import gc
import io
import itertools
import json
import os
import pickle
import shutil
import sqlite3
import tempfile
import traceback
import warnings

from mc.engine import Check, Res
from mc.models import db_spec

D1, D2, D3 = ('1999-12-31 23:59:59', '2000-01-01 00:00:00',
              '2000-02-29 12:00:00')
TEXT8 = ['a', 'B1', '', "o'q", 'x"y', 'b\\s', 'é²', '%_']
# thorough extras: one per further class the SQL / regex layers could trip on
TEXTX = [' ', 'a b', '^', '-', ']', 'a.b', "''", '\\', 'A', '٣', 'a\nb',
         '(', '*', '$']

# representation boundaries (one-column 'extremes' layer)
INT_EDGES = [0, 1, -1, 2 ** 31 - 1, -(2 ** 31 - 1), 2 ** 31, -2 ** 31,
             2 ** 53 - 1, -(2 ** 53 - 1), 2 ** 53, -2 ** 53,
             2 ** 53 + 1, -(2 ** 53 + 1), 2 ** 62 + 1, -(2 ** 62 + 1),
             2 ** 63 - 1, -2 ** 63]
REAL_EDGES = [1e308, -1e308, 5e-324, -5e-324, 0.0, -0.0, 0.1 + 0.2]
TEXT_EDGES = ['', 'a', 'a' * 255, 'a' * 256]

ALPHA = {
    'INTEGER': [None, -2, 0, 1, 3],
    'REAL': [None, -1.5, 0.0, 2.0, 2.5],
    'TEXT': [None] + TEXT8,
    'VARCHAR': [None] + TEXT8,
    'VARCHAR(10)': [None] + TEXT8,
    'BOOLEAN': [None, False, True],
    'DATETIME': [None, D1, D2, D3],
}
# reduced alphabets for two-column tables (null + two values, chosen so that
# the three text types together still cover all eight strings' classes)
ALPHA2 = {
    'INTEGER': [None, 0, 3],
    'REAL': [None, -1.5, 2.0],
    'TEXT': [None, 'a', "o'q"],
    'VARCHAR': [None, '', 'é²'],
    'VARCHAR(10)': [None, 'B1', 'b\\s'],
    'BOOLEAN': [None, False, True],
    'DATETIME': [None, D1, D2],
}
DECLS = ['INTEGER', 'REAL', 'TEXT', 'VARCHAR', 'VARCHAR(10)', 'BOOLEAN',
         'DATETIME']
NAMES = ['c', 'my col', 'é', 'select']
NAMEPAIRS_Q = [('c', 'my col'), ('É', 'é')]
NAMEPAIRS_T = [('c', 'my col'), ('É', 'é'), ('select', 'c'), ('é', 'my col')]


def _t(cols, rows):
    return {'cols': [list(c) for c in cols], 'rows': [list(r) for r in rows]}


# tables (all called t) for the same-name histories: every pair differs in
# column names, declared types, column order, or only in the data
HIST_TABLES_Q = [
    _t([('c', 'INTEGER')], [[1], [3]]),
    _t([('c', 'TEXT')], [['a'], ['B1']]),
    _t([('c', 'REAL')], [[-1.5]]),
    _t([('c', 'DATETIME')], [[D1]]),
    _t([('c', 'BOOLEAN')], [[True]]),
    _t([('my col', 'INTEGER')], [[0]]),
    _t([('c', 'INTEGER'), ('d', 'TEXT')], [[1, 'a']]),
    _t([('c', 'TEXT'), ('d', 'INTEGER')], [['a', 1]]),
    _t([('d', 'TEXT'), ('c', 'INTEGER')], [['a', 1]]),
    _t([('d', 'TEXT')], [["o'q"]]),
    _t([('c', 'INTEGER')], [[3], [None]]),
    _t([('c', 'TEXT')], []),
]
HIST_TABLES_T = HIST_TABLES_Q + [
    _t([('c', 'VARCHAR(10)')], [['a']]),
    _t([('é', 'TEXT')], [['é²']]),
    _t([('c', 'INTEGER')], []),
    _t([('c', 'TEXT')], [['a'], ['a'], [None]]),
    _t([('c', 'REAL'), ('d', 'REAL')], [[2.0, -1.5], [None, 2.5]]),
    _t([('select', 'BOOLEAN')], [[False], [True]]),
]
HIST_MODES_Q = ['new-db', 'drop-create']
HIST_MODES_T = ['new-db', 'drop-create', 'new-db-open']


# ---- table DEFINITIONS (layers tdef-1 / tdef-2): keys, constraints, storage
# options and objects built on the table.  Structure: see models/db_spec.py.
TDEFS1 = [
    {'id': 'pk-col', 'pk': [0], 'pkform': 'col'},
    {'id': 'pk-tab', 'pk': [0], 'pkform': 'tab'},
    {'id': 'pk-norowid', 'pk': [0], 'pkform': 'col', 'norowid': True},
    {'id': 'unique', 'uniq': [[0]]},
    {'id': 'notnull', 'nn': [0]},
    {'id': 'default', 'dflt': [0]},
    {'id': 'index', 'idx': [[[0], False]]},
    {'id': 'uindex', 'idx': [[[0], True]]},
    {'id': 'view', 'view': True},
]
TDEFS2 = [
    {'id': 'pk(a,b)', 'pk': [0, 1], 'pkform': 'tab'},
    {'id': 'pk(b,a)', 'pk': [1, 0], 'pkform': 'tab'},
    {'id': 'pk(a,b)-norowid', 'pk': [0, 1], 'pkform': 'tab',
     'norowid': True},
    {'id': 'pk(a)', 'pk': [0], 'pkform': 'col'},
    {'id': 'pk(b)', 'pk': [1], 'pkform': 'col'},
    {'id': 'unique(a,b)', 'uniq': [[0, 1]]},
    {'id': 'unique(a)+unique(b)', 'uniq': [[0], [1]]},
    {'id': 'notnull-default(b)', 'nn': [1], 'dflt': [1]},
    {'id': 'uindex(a,b)', 'idx': [[[0, 1], True]]},
    {'id': 'index(b,a)', 'idx': [[[1, 0], False]]},
    {'id': 'view', 'view': True},
]
TDEF2_DECLS = ['INTEGER', 'REAL', 'TEXT', 'DATETIME']

# ---- where the database lives and how the caller's writes are committed
# (layer txn).  store: 'mem' = :memory:, 'file' = a database file opened by
# path through tdda's connector.  txn:
#   commit         every write on tdda's connection is committed (all other
#                  layers)
#   nocommit       the perturbing row is INSERTed on the connection that is
#                  handed to verify_db_table and NOT committed (the connector
#                  opens sqlite3 connections in the default, implicit-
#                  transaction mode)
#   base-nocommit  the same, and the table's own rows are not committed
#                  either when discover_db_table is called
#   autocommit     isolation_level = None on the connector's connection
#   conn2          the perturbing row is written and committed through a
#                  second, plain sqlite3 connection to the same file
TXN_MODES = [('mem', 'nocommit'), ('mem', 'base-nocommit'),
             ('mem', 'autocommit'), ('file', 'commit'), ('file', 'nocommit'),
             ('file', 'base-nocommit'), ('file', 'conn2')]
TXN_DECLS = ['INTEGER', 'REAL', 'TEXT', 'BOOLEAN', 'DATETIME']

# values for the columns a perturbation does not aim at, tried in this order
# after the first row's value and NULL when the table definition rejects the
# row (key / NOT NULL): none of them is in an alphabet
FRESH = {'int': [7], 'real': [7.5], 'string': ['zq'], 'bool': [True, False],
         'date': ['2001-03-04 05:06:07']}
OMIT = '\x00omit'          # marker: leave the column to its DEFAULT


def ddl(cols, tdef):
    """CREATE statements for table t with definition tdef."""
    tdef = tdef or {}
    pk = tdef.get('pk') or []
    colform = len(pk) == 1 and tdef.get('pkform') == 'col'
    parts = []
    for i, (n, d) in enumerate(cols):
        s = '"%s" %s' % (n, d)
        if colform and pk == [i]:
            s += ' PRIMARY KEY'
        if i in (tdef.get('nn') or []):
            s += ' NOT NULL'
        if [i] in (tdef.get('uniq') or []):
            s += ' UNIQUE'
        if i in (tdef.get('dflt') or []):
            s += ' DEFAULT ' + db_spec.DEFAULT_SQL[db_spec.family_of(d)]
        parts.append(s)
    q = lambda ic: ', '.join('"%s"' % cols[i][0] for i in ic)
    if pk and not colform:
        parts.append('PRIMARY KEY (%s)' % q(pk))
    for u in tdef.get('uniq') or []:
        if len(u) > 1:
            parts.append('UNIQUE (%s)' % q(u))
    out = ['CREATE TABLE t (%s)%s' % (
        ', '.join(parts), ' WITHOUT ROWID' if tdef.get('norowid') else '')]
    for k, (ic, uq) in enumerate(tdef.get('idx') or []):
        out.append('CREATE %sINDEX "ix %d" ON t (%s)'
                   % ('UNIQUE ' if uq else '', k, q(ic)))
    if tdef.get('view'):
        out.append('CREATE VIEW v AS SELECT * FROM t')
    return out


def columns(alpha, maxrows):
    for n in range(maxrows + 1):
        for t in itertools.product(alpha, repeat=n):
            yield list(t)


def name_class(n):
    if n == 'select':
        return 'keyword'
    if ' ' in n:
        return 'space'
    if any(ord(ch) > 127 for ch in n):
        return 'unicode'
    return 'plain'


class C08(Check):
    pid = 'C08'
    title = ('SQLite: discovery is sound and verification notices a '
             'violating row')
    technique = ('explicit-state exploration of two-step histories (table -> '
                 'discover+verify -> every single-row perturbation -> verify '
                 '-> restored table -> verify) on the real SQLite connector; '
                 'closure invariant + independent perturbation model')
    rule = ('cases = every table over 1 column (7 declared types x every '
            'ordered tuple of 0..3 values from the per-type alphabet incl. '
            'NULL x 4 column names) and 2 columns (49 ordered type pairs x '
            'every table of 0..2 rows (quick; 0..1 for the case-variant '
            'name pair) / 0..3 rows (thorough) over reduced alphabets x name '
            'pairs) x rex off/on; thorough adds 4-row columns and 14 further '
            'strings; per case every perturbation of the statement\'s menu '
            'that the model says breaks a discovered constraint; '
            'non-trivial = discovery produced a constraint besides type and '
            'at least one must-fail perturbation was executed, or tdda '
            'raised; extremes layer: one column of 0..2 (thorough 3) values '
            'at the integer / float / length representation boundaries; '
            'same-name layers: every ordered pair (thorough: also '
            'A,B,A triples) of 12 (thorough 18) tables named t differing in '
            'column names, types, order or only data x {new database, '
            'DROP+CREATE (thorough: + first connection left open)} x rex '
            'off/on, compared observation by observation with the last '
            'table run from a fresh process image; txn layer: one column x '
            '5 types x 0..2 rows over the reduced alphabets x {:memory:, '
            'file} x {perturbing row uncommitted on tdda\'s connection, '
            'table rows uncommitted too, autocommit connection, second '
            'connection} (7 combinations), also compared with the committed '
            'in-memory run; tdef layers: one column (7 types x 0..3 rows, '
            'reduced alphabets) x 9 table definitions and two columns (16 '
            'type pairs of INTEGER/REAL/TEXT/DATETIME (thorough: all 49) x '
            '0..2 rows as multisets) x 10 (thorough 11) table definitions '
            '(keys, UNIQUE, NOT NULL, DEFAULT, WITHOUT ROWID, indexes, view), only '
            'tables the definition admits')
    assumptions = [
        'SQLite only (in-memory database through tdda\'s own connector); '
        'table name fixed to "t"; column names never contain a double quote '
        '(identifier escaping is not promised)',
        'DATETIME values are text of the form YYYY-MM-DD HH:MM:SS (the only '
        'form the driver parses); other SQLite date spellings are outside '
        'the bound',
        'verify_db_table is called with all defaults (epsilon None, '
        'type_checking strict); min/max perturbations lie outside both the '
        '0 and the 1 % epsilon band (exact rational arithmetic in the '
        'model); a perturbed integer outside the signed 64-bit range of '
        'SQLite INTEGER is not applicable',
        'unspecified (executed, never alarmed on): sign perturbations on '
        'BOOLEAN columns; a string that an expression matches only up to a '
        'final newline or only unanchored; length perturbations on which '
        'code-point and UTF-8 byte counts disagree',
        'bounds: <= 3 rows (thorough: 4 for one column), <= 2 columns, the '
        'listed alphabets; thorough adds 14 further strings (rexpy defect '
        'F04 of C03 surfaces through the rex closure there: examples "-" '
        'and "^" give ^[^-]$)',
        'process state: each history runs in a child forked from an image '
        'that has imported tdda and never called it; histories of more than '
        'one table are bounded to 2 (thorough 3) same-named tables',
        'violation signatures name the features whose removal makes the '
        'symptom vanish (re-execution of reduced cases), not the exception '
        'text',
        'a row INSERTed on the connection handed to tdda and not yet '
        'committed counts as added to the table (the statement has no '
        'transaction condition and the connection sees the row); that tdda '
        'leaves the caller\'s open transaction alone is NOT demanded: if '
        'uncommitted rows have vanished after a tdda call the case is '
        'counted unspecified and only the differential clause (same '
        'observations as the committed run) speaks',
        'file databases are opened with PRAGMA synchronous=OFF (no fsync '
        'per commit); table definitions: no CHECK, COLLATE, generated '
        'columns, foreign keys or TEMP objects; a view is SELECT * over '
        'the table and counts as a table (tdda\'s existence check accepts '
        'views); SQLite itself is the judge of which perturbing rows a '
        'definition admits',
    ]

    def hashseeds(self, tier, verif_seed):
        # rexpy (rex on) is the only hash-order-sensitive code on the path
        return [verif_seed % 3]

    # ------------------------------------------------------------ layers

    def layers(self, tier):
        L = [('one-col', 'one column named c: every type, 0..3 rows, '
                         'rex off/on'),
             ('names', 'one column, the three other names'),
             ('two-col', 'two columns: type pairs x reduced alphabets x '
                         'name pairs')]
        L.append(('extremes', 'one column over representation boundaries: '
                              'INTEGER 0, +-1, +-2**31, +-2**53(+-1), '
                              '+-(2**62+1), int64 limits; REAL +-1e308, '
                              '+-5e-324, +-0.0, 0.1+0.2; TEXT of length 0, '
                              '1, 255, 256'))
        L.append(('same-name', 'histories of differently laid-out tables '
                               'with the same name in one process (new '
                               'database / DROP+CREATE): last step equals '
                               'the same step from a fresh state'))
        L.append(('txn', 'where the database lives x how the caller\'s '
                         'writes are committed: :memory: / file by path; '
                         'perturbing row committed / left uncommitted on the '
                         'connection handed to tdda / written through a '
                         'second connection; table rows themselves '
                         'uncommitted; autocommit connection - every '
                         'observation also equals the committed in-memory '
                         'run'))
        L.append(('tdef-1', 'one column, table definition: PRIMARY KEY '
                            '(column / table constraint / WITHOUT ROWID), '
                            'UNIQUE, NOT NULL, DEFAULT, index, unique '
                            'index, a view over the table'))
        L.append(('tdef-2', 'two columns, table definition: composite '
                            'PRIMARY KEY in both column orders (+ WITHOUT '
                            'ROWID), single-column key on either column, '
                            'composite / per-column UNIQUE, NOT NULL '
                            'DEFAULT (perturbing INSERT omits the column), '
                            'composite (unique) index, a view'))
        if tier == 'thorough':
            L.append(('same-name-3', 'the same with three tables A, B, A'))
            L.append(('text-extra', 'one TEXT column over the extended '
                                    'string alphabet, 0..2 rows'))
            L.append(('one-col-4', 'one column, exactly 4 rows (numeric, '
                                   'boolean, datetime: full alphabets; TEXT: '
                                   'reduced alphabet)'))
            L.append(('two-col-3', 'two columns (c, my col), exactly 3 '
                                   'rows'))
        return L

    def cases(self, tier, layer):
        thorough = tier == 'thorough'
        if layer == 'one-col':
            for decl in DECLS:
                mr = 3
                if not thorough and decl in ('VARCHAR', 'VARCHAR(10)'):
                    mr = 2
                for col in columns(ALPHA[decl], mr):
                    for rex in (False, True):
                        yield {'cols': [['c', decl]],
                               'rows': [[v] for v in col], 'rex': rex}
        elif layer == 'names':
            for name in NAMES[1:]:
                for decl in DECLS:
                    mr = 3 if thorough and not decl.startswith('VARCHAR') \
                        else 2
                    for col in columns(ALPHA[decl], mr):
                        for rex in (False, True):
                            yield {'cols': [[name, decl]],
                                   'rows': [[v] for v in col], 'rex': rex}
        elif layer in ('two-col', 'two-col-3'):
            pairs = NAMEPAIRS_T if thorough else NAMEPAIRS_Q
            if layer == 'two-col-3':
                pairs = NAMEPAIRS_Q[:1]
            rng = (3,) if layer == 'two-col-3' else (0, 1, 2)
            for da in DECLS:
                for db_ in DECLS:
                    rowopts = [[a, b] for a in ALPHA2[da]
                               for b in ALPHA2[db_]]
                    for n in rng:
                        for rows in itertools.product(rowopts, repeat=n):
                            for (na, nb) in pairs:
                                if not thorough and n == 2 and na != 'c':
                                    continue   # quick: (c, my col) only
                                for rex in (False, True):
                                    yield {'cols': [[na, da], [nb, db_]],
                                           'rows': [list(r) for r in rows],
                                           'rex': rex}
        elif layer == 'extremes':
            for decl, alpha in (('INTEGER', INT_EDGES), ('REAL', REAL_EDGES),
                                ('TEXT', TEXT_EDGES)):
                mr = 3 if thorough else 2
                for col in columns([None] + alpha, mr):
                    for rex in (False, True):
                        yield {'cols': [['c', decl]],
                               'rows': [[v] for v in col], 'rex': rex}
        elif layer in ('same-name', 'same-name-3'):
            specs = HIST_TABLES_T if thorough else HIST_TABLES_Q
            modes = HIST_MODES_T if thorough else HIST_MODES_Q
            for a in specs:
                for b in specs:
                    if a is b:
                        continue
                    for mode in modes:
                        for rex in (False, True):
                            if layer == 'same-name':
                                yield {'hist': [['new-db', a]], 'mode': mode,
                                       'cols': b['cols'], 'rows': b['rows'],
                                       'rex': rex}
                            else:
                                yield {'hist': [['new-db', a], [mode, b]],
                                       'mode': mode, 'cols': a['cols'],
                                       'rows': a['rows'], 'rex': rex}
        elif layer == 'txn':
            for (store, txn) in TXN_MODES:
                for decl in TXN_DECLS:
                    alpha = ALPHA[decl] if thorough else ALPHA2[decl]
                    for col in columns(alpha, 2):
                        for rex in (False, True):
                            yield {'cols': [['c', decl]],
                                   'rows': [[v] for v in col], 'rex': rex,
                                   'store': store, 'txn': txn}
        elif layer == 'tdef-1':
            for tdef in TDEFS1:
                for decl in DECLS:
                    cols = [['c', decl]]
                    mr = 3
                    if not thorough and decl in ('VARCHAR', 'VARCHAR(10)'):
                        mr = 2
                    for col in columns(ALPHA2[decl], mr):
                        rows = [[v] for v in col]
                        if not db_spec.table_legal(cols, rows, tdef):
                            continue
                        for rex in (False, True):
                            yield {'cols': cols, 'rows': rows, 'rex': rex,
                                   'tdef': tdef}
        elif layer == 'tdef-2':
            decls = DECLS if thorough else TDEF2_DECLS
            for tdef in TDEFS2:
                if not thorough and tdef['id'] == 'index(b,a)':
                    continue      # quick: tdef-1 has the plain index
                for da in decls:
                    for db_ in decls:
                        cols = [['c', da], ['my col', db_]]
                        rowopts = [[a, b] for a in ALPHA2[da]
                                   for b in ALPHA2[db_]]
                        anystr = 'string' in (db_spec.family_of(da),
                                              db_spec.family_of(db_))
                        for n in (0, 1, 2):
                            # two rows: unordered (the order of the rows is
                            # varied by the two-col layer)
                            for rows in itertools.\
                                    combinations_with_replacement(rowopts, n):
                                rows = [list(r) for r in rows]
                                if not db_spec.table_legal(cols, rows, tdef):
                                    continue
                                # without a string column rex on/off is one
                                # and the same computation
                                for rex in ((False, True) if anystr
                                            else (False,)):
                                    yield {'cols': cols, 'rows': rows,
                                           'rex': rex, 'tdef': tdef}
        elif layer == 'one-col-4':
            for decl in ('INTEGER', 'REAL', 'BOOLEAN', 'DATETIME', 'TEXT'):
                alpha = ALPHA[decl] if decl != 'TEXT' \
                    else [None, 'a', '', "o'q", 'é²']
                for col in itertools.product(alpha, repeat=4):
                    for rex in (False, True):
                        yield {'cols': [['c', decl]],
                               'rows': [[v] for v in col], 'rex': rex}
        elif layer == 'text-extra':
            alpha = [None, 'a', "o'q", 'é²'] + TEXTX
            for col in columns(alpha, 2):
                if not any(v in TEXTX for v in col):
                    continue
                for rex in (False, True):
                    yield {'cols': [['c', 'TEXT']],
                           'rows': [[v] for v in col], 'rex': rex}

    # ------------------------------------------------------------ worker

    def setup_worker(self, tier):
        # The worker itself only IMPORTS tdda; every execution of tdda code
        # happens in a child forked from this pristine image (see fresh()),
        # so no case can see state left behind by another case.  BLAS/OpenMP
        # helper threads are switched off before numpy is imported so that
        # the process is single-threaded when it forks.
        for k in ('OPENBLAS_NUM_THREADS', 'OMP_NUM_THREADS',
                  'MKL_NUM_THREADS', 'NUMEXPR_NUM_THREADS'):
            os.environ.setdefault(k, '1')
        self.tier = tier
        self.obs = []
        self.sandbox = tempfile.mkdtemp(prefix='tdda_mc_c08_', dir='/var/tmp')
        self.path = os.path.join(self.sandbox, 'c.tdda')
        from tdda.constraints.db.drivers import database_connection
        from tdda.constraints.db.constraints import (discover_db_table,
                                                     verify_db_table)
        self.connect = database_connection
        self.discover = discover_db_table
        self.verify = verify_db_table
        try:
            import tdda.rexpy.rexpy as rx
            self.rexpy = rx
        except Exception:
            self.rexpy = None
        gc.collect()
        gc.freeze()              # keep the imported heap out of child GCs

    def teardown_worker(self):
        sb = getattr(self, 'sandbox', None)
        if sb and os.path.isdir(sb):
            shutil.rmtree(sb, ignore_errors=True)

    # ------------------------------------------------------------ helpers

    def call(self, fn, *a, **kw):
        """Run tdda code with stdout/stderr captured; (result, exception)."""
        out, err = io.StringIO(), io.StringIO()
        try:
            with contextlib.redirect_stdout(out), \
                    contextlib.redirect_stderr(err):
                return fn(*a, **kw), None
        except KeyboardInterrupt:
            raise
        except BaseException as e:          # incl. SystemExit from tdda
            return None, e

    def fresh(self, fn, *args):
        """Run fn(*args) in a child forked from the pristine worker image and
        return its (picklable) result.  This is what makes every history
        start from the state "tdda imported, never called", in the explorer
        and in a replay alike: module- or class-level state that tdda keeps
        between calls can only influence what follows it INSIDE one history,
        where the check controls and records it."""
        r, w = os.pipe()
        with warnings.catch_warnings():
            warnings.simplefilter('ignore')
            pid = os.fork()
        if pid == 0:
            code = 0
            try:
                gc.disable()     # short-lived: do not touch (copy) the heap
                os.close(r)
                try:
                    payload = ('ok', fn(*args))
                except BaseException as e:
                    from mc.engine import _origin_of
                    payload = ('exc', _origin_of(e), type(e).__name__,
                               repr(e)[:300],
                               ''.join(traceback.format_exception(
                                   type(e), e, e.__traceback__))[-3000:])
                with os.fdopen(w, 'wb') as f:
                    f.write(pickle.dumps(payload))
            except BaseException:
                code = 3
            finally:
                os._exit(code)
        os.close(w)
        with os.fdopen(r, 'rb') as f:
            data = f.read()
        os.waitpid(pid, 0)
        if not data:
            raise RuntimeError('harness: forked child returned nothing')
        payload = pickle.loads(data)
        if payload[0] == 'ok':
            return payload[1]
        _, origin, tname, rep, tb = payload
        if origin == 'tdda':
            # tdda code raised outside self.call(): treat like the engine does
            R = Res()
            R.ev()
            R.nontrivial = True
            R.out('uncaught:%s' % tname)
            found = [{'sym': ('uncaught', tname), 'col': None,
                      'clause': 'no-internal-error',
                      'detail': {'exception': rep, 'traceback': tb},
                      'sub': None}]
            return found, R, [('uncaught', tname)]
        raise RuntimeError('harness error in forked child:\n%s' % tb)

    def child_history(self, steps, rex, upto=None):
        R = Res()
        self.obs = []
        found = self.history(R, steps, rex, upto)
        return found, R, self.obs

    # ---- root-cause attribution by reduction ---------------------------
    #
    # A signature must name the root cause, not the symptom's surroundings.
    # Instead of guessing from the exception text, the failing case is
    # reduced one feature at a time (drop the other column, plain column
    # names, declared type without "(n)", rex off, each special character
    # replaced by "x", one benign row instead of the data) and the history is
    # re-run: a feature is blamed iff removing it makes the symptom vanish.

    @staticmethod
    def reductions(case):
        cols, rows = case['cols'], case['rows']
        names = [c[0] for c in cols]

        def with_cols(newcols):
            d = dict(case)
            d['cols'] = newcols
            return d

        if len(cols) == 2 and names[0] != names[1] \
                and names[0].lower() == names[1].lower():
            yield ('names-differ-only-in-case',
                   with_cols([cols[0], [names[1] + '2', cols[1][1]]]))
        for cls in ('space', 'unicode', 'keyword'):
            if any(name_class(n) == cls for n in names):
                yield ('name:' + cls, with_cols(
                    [['k%d' % i, d] if name_class(n) == cls else [n, d]
                     for i, (n, d) in enumerate(cols)]))
        for (n, d) in cols:
            if '(' in d:
                yield ('decl:' + d, with_cols(
                    [[n2, d2.split('(')[0]] for (n2, d2) in cols]))
                break
        if case['rex']:
            d = dict(case)
            d['rex'] = False
            yield ('rex', d)
        strcols = [i for i, (n, d) in enumerate(cols)
                   if db_spec.family_of(d) == 'string']
        chars = []
        empties = False
        for r in rows:
            for i in strcols:
                if isinstance(r[i], str):
                    if r[i] == '':
                        empties = True
                    for ch in r[i]:
                        if not (ch.isascii() and ch.isalnum()) \
                                and ch not in chars:
                            chars.append(ch)
        for ch in chars:
            d = dict(case)
            d['rows'] = [[v.replace(ch, 'x')
                          if i in strcols and isinstance(v, str) else v
                          for i, v in enumerate(r)] for r in rows]
            yield ('char:U+%04X' % ord(ch), d)
        if empties:
            d = dict(case)
            d['rows'] = [['e' if i in strcols and v == '' else v
                          for i, v in enumerate(r)] for r in rows]
            yield ('empty-string', d)

    BENIGN = {'int': 1, 'real': 1.5, 'string': 'a', 'bool': True, 'date': D2}

    def reproduces(self, case, sym):
        upto = 'verify' if sym[0] in ('discover-raises', 'discover-none',
                                      'verify-raises', 'verify-fails') \
            else None
        found, _, _ = self.fresh(self.child_history, [['new-db', case]],
                                 case['rex'], upto)
        return any(f['sym'] == sym for f in found)

    def blame(self, case, finding):
        sym = finding['sym']
        necessary = []
        # table definition, storage and transaction mode first: without
        # them the case is one of the plain layers' cases
        if case.get('tdef'):
            sub = dict(case)
            del sub['tdef']
            if self.reproduces(sub, sym):
                case = sub
            else:
                necessary.append('tdef:' + case['tdef']['id'])
        if case.get('txn', 'commit') != 'commit':
            sub = dict(case)
            sub['txn'] = 'commit'
            if self.reproduces(sub, sym):
                case = sub
            else:
                necessary.append('txn:' + case['txn'])
        if case.get('store', 'mem') != 'mem' \
                and case.get('txn', 'commit') != 'conn2':
            sub = dict(case)
            sub['store'] = 'mem'
            if self.reproduces(sub, sym):
                case = sub
            else:
                necessary.append('store:' + case['store'])
        if len(case['cols']) == 2 and not case.get('tdef'):
            order = [0, 1]
            if finding.get('col') == 1:
                order = [1, 0]
            for i in order:
                sub = dict(case)
                sub['cols'] = [case['cols'][i]]
                sub['rows'] = [[r[i]] for r in case['rows']]
                if self.reproduces(sub, sym):
                    case = sub
                    break
            else:
                necessary.append('two-columns')
        for feat, red in self.reductions(case):
            if not self.reproduces(red, sym):
                necessary.append(feat)
        necessary = ([f for f in necessary if not f.startswith('char:')]
                     + sorted(f for f in necessary if f.startswith('char:')))
        symstr = ':'.join(sym)
        if 'names-differ-only-in-case' in necessary:
            return '%s:names-differ-only-in-case' % sym[0]
        fams = [db_spec.family_of(d) for (n, d) in case['cols']]
        if case.get('tdef') and len(fams) == 2 \
                and finding.get('col') is not None:
            # both columns are kept (the definition spans them); the
            # signature names the family of the column the symptom is on
            sigfams = [fams[finding['col']], '*']
            if finding['col'] == 1:
                sigfams.reverse()
        else:
            sigfams = fams
        sig = '%s:%s:%s' % (symstr, '+'.join(sigfams),
                            '+'.join(necessary) or 'any')
        if sym[0] not in ('unnoticed', 'perturbed-verify-raises') \
                and not any(f.startswith('char:') or f == 'empty-string'
                            for f in necessary):
            plain = dict(case)
            plain['rows'] = [[self.BENIGN[f] for f in fams]]
            if not self.reproduces(plain, sym):
                rows = case['rows']
                if not rows:
                    shape = 'zero-rows'
                else:
                    shape = '+'.join(
                        'all-null' if all(r[i] is None for r in rows) else
                        'some-null' if any(r[i] is None for r in rows) else
                        'no-null' for i in range(len(fams)))
                sig += ':' + shape
        return sig

    # ------------------------------------------------------------ run

    def run_case(self, case):
        if 'hist' in case:
            return self.run_hist_case(case)
        found, R, obs = self.fresh(self.child_history, [['new-db', case]],
                                   case['rex'])
        if ('build', 'illegal') in obs:
            raise RuntimeError('harness: the model admits a table that '
                               'SQLite rejects: %r' % (case,))
        for f in found:
            R.viol(self.blame(case, f), f['clause'], f['detail'], f['sub'])
        if not found and (case.get('txn', 'commit') != 'commit'
                          or case.get('store', 'mem') != 'mem'):
            self.same_as_committed(R, case, obs)
        return R

    def same_as_committed(self, R, case, obs):
        """Differential clause of the txn layer: what tdda is shown is the
        table as its connection sees it - where the database is stored and
        whether the caller has committed yet are not part of the table.
        Every observation (discovered constraints, closure verdicts, the
        verdict of every perturbation) must equal the observation of the
        same table in a committed in-memory database."""
        base = {'cols': case['cols'], 'rows': case['rows'],
                'rex': case['rex']}
        _, R2, obs_b = self.fresh(self.child_history, [['new-db', base]],
                                  case['rex'])
        R.evals += R2.evals
        R.transitions += R2.transitions
        R.states += R2.states
        k = 0
        while k < len(obs) and k < len(obs_b) and obs[k] == obs_b[k]:
            k += 1
        if k == len(obs) == len(obs_b):
            return
        a = obs[k] if k < len(obs) else None
        b = obs_b[k] if k < len(obs_b) else None
        aspect = (a or b)[0]
        if a is not None and b is not None and a[0] != b[0]:
            aspect = b[0]
        mode = '%s:%s' % (case.get('store', 'mem'),
                          case.get('txn', 'commit'))
        R.out('txn:%s:differs:%s' % (mode, aspect))
        R.viol('storage-dependent:%s:%s' % (mode, aspect),
               'same-result-as-committed-in-memory',
               {'case': case, 'first_difference_at': k,
                'observed': a, 'committed_in_memory': b,
                'expected': 'discovery/verification see the table as the '
                            'connection handed to them sees it, wherever it '
                            'is stored and whether or not the caller has '
                            'committed'},
               None)

    def run_hist_case(self, case):
        """E3 history of same-named tables in one process, differential
        oracle: what tdda does with the LAST table must equal what it does
        with that table from a fresh state."""
        last = {'cols': case['cols'], 'rows': case['rows'],
                'rex': case['rex']}
        steps = [list(st) for st in case['hist']] + [[case['mode'], last]]
        _, R, obs_h = self.fresh(self.child_history, steps, case['rex'])
        _, R2, obs_f = self.fresh(self.child_history, [['new-db', last]],
                                  case['rex'])
        R.evals += R2.evals
        R.transitions += R2.transitions
        R.states += R2.states
        R.checked = len(obs_f)
        R.unspec = 0
        R.outcomes.clear()
        R.nontrivial = True
        k = 0
        while k < len(obs_h) and k < len(obs_f) and obs_h[k] == obs_f[k]:
            k += 1
        if k == len(obs_h) == len(obs_f):
            R.out('hist:%s:same-as-fresh:%s' % (case['mode'], obs_f[0][0]
                                                if obs_f else '-'))
            return R
        a = obs_h[k] if k < len(obs_h) else None
        b = obs_f[k] if k < len(obs_f) else None
        aspect = (a or b)[0]
        if a is not None and b is not None and a[0] != b[0]:
            aspect = b[0]
        R.out('hist:%s:differs:%s' % (case['mode'], aspect))
        R.viol('history-dependent:%s:%s' % (case['mode'], aspect),
               'same-result-as-from-fresh-state',
               {'case': case, 'first_difference_at': k,
                'after_history': a, 'from_fresh_state': b,
                'expected': 'discovery/verification of a table do not '
                            'depend on tables seen earlier in the process'},
               None)
        return R

    def closure(self, R, found, case, fields, db, phase):
        """verify on the current table; returns Verification or None."""
        v, e = self.call(self.verify, 'sqlite', db, self.target(case),
                         self.path)
        R.ev()
        if e is not None:
            self.obs.append((phase, 'raise', type(e).__name__))
            R.out('raise:%s:%s' % (phase, type(e).__name__))
            found.append({
                'sym': ('%s-raises' % phase, type(e).__name__), 'col': None,
                'clause': 'verifies-without-error',
                'detail': {'case': case, 'discovered': fields,
                           'exception': repr(e)[:300]}, 'sub': phase})
            return None
        bad = []
        for name, fr in v.fields.items():
            for kind, verdict in fr.items():
                if verdict is not None and not verdict:
                    bad.append((name, kind))
        self.obs.append((phase, v.failures, sorted(bad)))
        if v.failures != 0 or bad:
            names = [c[0] for c in case['cols']]
            for (name, kind) in bad or [(None, 'count')]:
                R.out('closure-fails:%s:%s' % (phase, kind))
                if phase == 'reverify' and any(
                        f['sym'] == ('verify-fails', kind)
                        and f['detail'].get('field') == name for f in found):
                    continue      # already reported before the perturbations
                found.append({
                    'sym': ('%s-fails' % phase, kind),
                    'col': names.index(name) if name in names else None,
                    'clause': 'own-constraints-verify',
                    'detail': {'case': case, 'discovered': fields,
                               'field': name, 'failures': v.failures,
                               'failed': bad}, 'sub': phase})
        return v

    def history(self, R, steps, rex, upto=None):
        """steps = [[mode, table], ...]: build each table (always called t)
        in turn - mode 'new-db': close the previous connection and open a new
        in-memory database; 'new-db-open': the same but the previous
        connection stays open; 'drop-create': DROP TABLE t and re-create it
        in the same database.  Tables before the last one are only discovered
        and verified (results ignored); the last one gets the full
        exploration.  Returns the raw findings about the last table."""
        if self.rexpy is not None and hasattr(self.rexpy, 'memo'):
            try:
                self.rexpy.memo.clear()
            except Exception:
                pass
        found = []
        conns = []
        db = conn = cur = None
        try:
            for k, (mode, tab) in enumerate(steps):
                lastone = k == len(steps) - 1
                cols, rows = tab['cols'], tab['rows']
                if os.path.exists(self.path):
                    os.remove(self.path)
                store = tab.get('store', 'mem')
                txn = tab.get('txn', 'commit')
                tdef = tab.get('tdef')
                if conn is not None and mode == 'drop-create':
                    cur.execute('DROP TABLE t')
                    conn.commit()
                else:
                    if conn is not None and mode != 'new-db-open':
                        conn.close()
                    self.dbfile = None
                    if store == 'file':
                        self.dbfile = os.path.join(self.sandbox,
                                                   'db%d.sqlite3' % k)
                        for suffix in ('', '-journal', '-wal', '-shm'):
                            if os.path.exists(self.dbfile + suffix):
                                os.remove(self.dbfile + suffix)
                    db = self.connect(dbtype='sqlite',
                                      db=self.dbfile or ':memory:')
                    conn = db.connection
                    conns.append(conn)
                    if store == 'file':
                        # no fsync per commit (the files live for one case)
                        conn.execute('PRAGMA synchronous=OFF')
                    if txn == 'autocommit':
                        conn.isolation_level = None
                    cur = conn.cursor()
                if tdef:
                    for stmt in ddl(cols, tdef):
                        cur.execute(stmt)
                else:
                    cur.execute('CREATE TABLE t (%s)' % ', '.join(
                        '"%s" %s' % (n, d) for (n, d) in cols))
                ins = 'INSERT INTO t VALUES (%s)' % ', '.join(
                    '?' * len(cols))
                try:
                    for r in rows:
                        cur.execute(ins, tuple(r))
                except sqlite3.IntegrityError:
                    # the definition does not admit these rows (only reached
                    # from reduced cases of blame(); the enumerator generates
                    # legal tables only, see run_case)
                    self.obs.append(('build', 'illegal'))
                    return found
                if txn != 'base-nocommit':
                    conn.commit()
                R.states += 1
                if lastone:
                    case = dict(tab)
                    case['rex'] = rex
                    self.explore(R, found, case, db, conn, cur, ins, upto)
                else:
                    cons, e = self.call(self.discover, 'sqlite', db, 't',
                                        inc_rex=rex)
                    R.ev()
                    if e is None and cons is not None:
                        js, e = self.call(cons.to_json)
                        if e is None:
                            with open(self.path, 'w', encoding='utf-8') as f:
                                f.write(js)
                            self.call(self.verify, 'sqlite', db, 't',
                                      self.path)
                            R.ev()
        finally:
            c2 = getattr(self, 'conn2', None)
            if c2 is not None:
                conns.append(c2)
                self.conn2 = None
            for c in conns:
                try:
                    c.close()
                except Exception:
                    pass
        return found

    @staticmethod
    def target(case):
        """Name tdda is pointed at: the table, or the view over it."""
        return 'v' if (case.get('tdef') or {}).get('view') else 't'

    def table_content(self, cur, ncols):
        cur.execute('SELECT * FROM t')
        return sorted((tuple(r) for r in cur.fetchall()),
                      key=lambda r: json.dumps(r, sort_keys=True))

    def explore(self, R, found, case, db, conn, cur, ins, upto):
        cols, rows, rex = case['cols'], case['rows'], case['rex']
        tdef = case.get('tdef') or {}
        txn = case.get('txn', 'commit')
        target = self.target(case)
        # ---- transition 1: discover
        cons, e = self.call(self.discover, 'sqlite', db, target, inc_rex=rex)
        R.ev()
        fields = None
        if e is None:
            if cons is None:
                self.obs.append(('discover', 'none'))
                R.out('discover:none')
                found.append({
                    'sym': ('discover-none',), 'col': None,
                    'clause': 'discovers-without-error',
                    'detail': {'case': case, 'observed': 'None returned for '
                               'a table with typed columns'},
                    'sub': 'discover'})
                return
            js, e = self.call(cons.to_json)
            if e is None:
                with open(self.path, 'w', encoding='utf-8') as f:
                    f.write(js)
                fields = json.loads(js).get('fields') or {}
        if e is not None:
            self.obs.append(('discover', 'raise', type(e).__name__))
            R.nontrivial = True
            R.out('raise:discover:%s' % type(e).__name__)
            found.append({
                'sym': ('discover-raises', type(e).__name__), 'col': None,
                'clause': 'discovers-without-error',
                'detail': {'case': case, 'exception': repr(e)[:300]},
                'sub': 'discover'})
            return
        self.obs.append(('fields', fields))
        for (n, d) in cols:
            R.out('disc:%s:%s' % (db_spec.family_of(d),
                                  ','.join(sorted(fields.get(n, {})))))
        R.states += 1
        # ---- transition 1 (cont.): verify on the same table
        v = self.closure(R, found, case, fields, db, 'verify')
        if v is None:
            R.nontrivial = True
            return
        if upto == 'verify':
            return
        # ---- transition 2: every applicable perturbation
        stored_cols = [[db_spec.stored(cols[i][1], r[i]) for r in rows]
                       for i in range(len(cols))]
        expected = sorted((tuple(db_spec.stored(cols[i][1], r[i])
                                 for i in range(len(cols))) for r in rows),
                          key=lambda r: json.dumps(r, sort_keys=True))
        if tdef or txn != 'commit':
            # the model reasons about the rows the driver wrote: they must
            # be what the table holds (as seen through tdda's connection)
            if self.table_content(cur, len(cols)) != expected:
                if txn in ('nocommit', 'base-nocommit'):
                    # uncommitted rows gone after discover / verify: whether
                    # tdda may end the caller's transaction is not in the
                    # statement; the model's premises no longer hold
                    self.obs.append(('table', 'changed'))
                    R.unspec += 1
                    R.out('table-changed-by-tdda')
                    return
                raise RuntimeError('harness: table content is not what was '
                                   'written: %r' % (case,))
        benign = list(rows[0]) if rows else [None] * len(cols)
        nrows = len(rows)
        n_must = n_unspec = 0
        rich = False
        fams = [db_spec.family_of(d) for (n, d) in cols]
        # who writes the perturbing row, and is it committed
        wconn, wcur = conn, cur
        if txn == 'conn2':
            wconn = self.conn2 = sqlite3.connect(self.dbfile)
            wconn.execute('PRAGMA synchronous=OFF')
            wcur = wconn.cursor()
        commits = txn not in ('nocommit', 'base-nocommit')
        pkcols = tdef.get('pk') if tdef.get('norowid') else None
        dflt = tdef.get('dflt') or []
        for i, (name, decl) in enumerate(cols):
            fam = fams[i]
            fc = fields.get(name) or {}
            if any(k != 'type' for k in fc):
                rich = True
            for p in db_spec.perturbations(fam, fc, stored_cols[i],
                                           self.tier):
                # the other columns: first row's value; if the table
                # definition rejects the row, NULL, then values outside the
                # alphabets; a DEFAULT column is left out of the INSERT
                alts = []
                for j in range(len(cols)):
                    if j == i:
                        alts.append([p.value])
                        continue
                    a = [OMIT] if j in dflt else []
                    for x in [benign[j], None] + FRESH[fams[j]]:
                        if not any(x is y or (x == y and type(x) == type(y))
                                   for y in a):
                            a.append(x)
                    alts.append(a)
                row = where = None
                for cand in itertools.product(*alts):
                    used = [j for j, x in enumerate(cand) if x is not OMIT]
                    sql = ins if len(used) == len(cols) else (
                        'INSERT INTO t (%s) VALUES (%s)' % (
                            ', '.join('"%s"' % cols[j][0] for j in used),
                            ', '.join('?' * len(used))))
                    try:
                        wcur.execute(sql, tuple(cand[j] for j in used))
                    except sqlite3.IntegrityError:
                        if commits and wconn.in_transaction:
                            wconn.rollback()
                        continue
                    row = ['<default>' if x is OMIT else x for x in cand]
                    if pkcols:
                        where = (' AND '.join('"%s" IS ?' % cols[j][0]
                                              for j in pkcols),
                                 tuple(cand[j] for j in pkcols))
                    else:
                        where = ('rowid = ?', (wcur.lastrowid,))
                    break
                if row is None:
                    # SQLite does not admit this row: not a perturbation of
                    # this table
                    R.out('pert:%s:%s:rejected-by-definition'
                          % (p.target, p.pid))
                    continue
                if tdef:
                    # ... and it must have been stored as written (a NULL
                    # written to a rowid alias becomes a fresh integer)
                    wcur.execute('SELECT "%s" FROM t WHERE %s'
                                 % (name, where[0]), where[1])
                    got = wcur.fetchall()
                    want = db_spec.stored(decl, p.value)
                    if len(got) != 1 or got[0][0] != want \
                            or type(got[0][0]) != type(want):
                        wcur.execute('DELETE FROM t WHERE %s' % where[0],
                                     where[1])
                        wconn.commit()
                        R.out('pert:%s:%s:transformed-by-definition'
                              % (p.target, p.pid))
                        continue
                if commits:
                    wconn.commit()
                v2, e2 = self.call(self.verify, 'sqlite', db, target,
                                   self.path)
                R.ev()
                R.states += 1
                wcur.execute('DELETE FROM t WHERE %s' % where[0], where[1])
                if commits:
                    wconn.commit()
                cur.execute('SELECT COUNT(*) FROM t')
                if cur.fetchall()[0][0] != nrows:
                    if not commits:
                        self.obs.append(('table', 'changed'))
                        R.unspec += 1
                        R.out('table-changed-by-tdda')
                        return
                    raise RuntimeError('harness: perturbing row not removed')
                sub = {'column': name, 'perturbation': p.as_dict()}
                if e2 is not None:
                    seen = 'raise:%s' % type(e2).__name__
                else:
                    fr0 = v2.fields.get(name)
                    vd0 = fr0.get(p.target) if fr0 is not None else None
                    seen = None if vd0 is None else bool(vd0)
                self.obs.append(('perturbation', i, p.target, p.pid, seen))
                if p.verdict != db_spec.MUST_FAIL:
                    n_unspec += 1
                    R.unspec += 1
                    R.out('pert:%s:%s:unspecified' % (p.target, p.pid))
                    continue
                n_must += 1
                detail = {'case': case, 'discovered': fc, 'column': name,
                          'inserted_row': row, 'targets': p.target,
                          'constraint_value': fc.get(p.target)}
                if e2 is not None:
                    R.out('pert:%s:%s:raise:%s' % (p.target, p.pid,
                                                   type(e2).__name__))
                    detail['exception'] = repr(e2)[:300]
                    found.append({
                        'sym': ('perturbed-verify-raises',
                                type(e2).__name__, p.target, p.pid),
                        'col': i, 'clause': 'violating-row-reported',
                        'detail': detail, 'sub': sub})
                    continue
                fr = v2.fields.get(name)
                verdict = fr.get(p.target) if fr is not None else None
                if verdict is not None and not verdict and v2.failures >= 1:
                    R.out('pert:%s:%s:noticed' % (p.target, p.pid))
                else:
                    R.out('pert:%s:%s:missed' % (p.target, p.pid))
                    detail['observed_verdict'] = (
                        None if verdict is None else bool(verdict))
                    detail['observed_failures'] = v2.failures
                    detail['expected'] = '%s reported as failed' % p.target
                    found.append({
                        'sym': ('unnoticed', p.target, p.pid), 'col': i,
                        'clause': 'violating-row-reported',
                        'detail': detail, 'sub': sub})
        R.nontrivial = rich and n_must > 0
        # ---- transition 3: the restored table verifies again
        if n_must or n_unspec:
            self.closure(R, found, case, fields, db, 'reverify')


CHECK = C08()
