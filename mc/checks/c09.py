"""
C09 - .tdda files round-trip: same text, same verdicts, unknown keys ignored.

E3 (explicit-state search over write/load histories).  State = a .tdda text.
Operations on a text T (each executed on the REAL code):

  path      write T to c.tdda; DatasetConstraints(loadpath='c.tdda'); to_json()
  dict      json.loads(T); DatasetConstraints().initialize_from_dict(d); to_json()
  tddafile  write T to w.tdda; load it by path; to_json(tddafile='w.tdda')

BFS from a start text until every operation returns a text already seen.  A
correct implementation has ONE fields section for all tdda-written texts
reachable from a start (the texts differ at most in creation_metadata.tddafile).

Start states
  (a) discovered: discover_df on an enumerated family of small frames
      (rex off / on); the start text is the object's own to_json();
  (b) hand-written: documents generated exhaustively from the grammar of
      tdda_json_file_format.md (every kind x value alphabet x entry form, plus
      one deviation: ignorable keys, null-valued kinds, names, top-level
      shapes, text forms, second kind / second field).

Oracle (models/tdda_format_spec.py, independent of tdda; three-valued):
  * documents inside the documented format load without raising, by every
    route; outside it (gray) the routes must merely agree;
  * every text tdda writes is UTF-8, JSON, no trailing whitespace, one final
    newline;
  * fixpoint: reloading a tdda-written text by any route re-writes the same
    fields section; the dict route and a repeated tddafile route give the
    identical full text; other metadata is carried unchanged;
  * the first written text still carries every documented non-null constraint
    of the hand-written input with the same value / precision / instant, and
    invents none;
  * verdict battery: verify_df on 16 small fixed frames gives identical
    verdict maps for the original dictionary, the file path, the
    re-serialised text (and, for discovered sets, the in-memory object);
    removing unknown kinds / '#' keys changes no verdict; removing null-valued
    constraints changes no verdict of the remaining constraints.  Where the
    in-memory object route or the loaded route raises on a frame there is no
    verdict to compare: unspecified (that is C01/C02's ground); the path and
    dictionary routes, which share the loader, must agree on raising too.

Further histories and spaces (all in the quick tier):
  * reuse: ONE dictionary object is handed to initialize_from_dict twice,
    then to verify_df, detect_df, verify_df, and to all battery calls of the
    dictionary route; it is deep-compared (type-sensitive) with a snapshot:
    the caller's dictionary is not modified, a second use gives what the
    first gave; one path is loaded twice and the file's bytes are unchanged;
  * W0 rewrite histories: write document d to THE path and load it (load /
    verify_df / detect_df), 1-3 steps; after every step the observation must
    equal that of the same content at a never-used path and of the dictionary
    route (= what a fresh process would see).  Every case works in its own
    directory, so no path string is seen by tdda in two cases and a case
    behaves in a worker as in its replay;
  * F0: date bounds at each of the 10^6 microsecond values of one second,
    naive (min) and with a UTC offset (max), 1000 fields per document: every
    instant kept (independent parser) and the written text stable;
  * S0: every 2-character string over { } [ ] , : " backslash / space newline, and
    JSON look-alikes, as field name, allowed value (alone/embedded), metadata
    value and expression; plus valid expressions containing such sequences
    with an extra battery frame made of strings they match / do not match;
  * all routes must write the same fields section for a hand-written start;
  * Z0 / D2: date bounds at every UTC offset sign x {00,05,11} h x
    {00,15,30,45} min (and Z), hand-written and discovered from tz-aware
    columns (fixed offsets and two named zones); F0's offset goes round the
    same alphabet;
  * H1: an ignorable key at EVERY position among a field's kinds (first,
    each middle position, last), in every gap at once, at the top level
    before / between / after creation_metadata and fields, and in a field
    before / after a field with ordinary constraints;
  * X0 histories across DIFFERENT documents and objects in one process:
    foreign documents (uninterpreted top-level sections, unknown kinds,
    comments, every metadata key) are loaded / verified / detected by path
    or dictionary (1-2 steps); then an unrelated document B is serialised
    by every route, built from a dictionary, built through the constraint
    constructors, freshly discovered, and objects created BEFORE the
    history are serialised again.  Oracle: the same object gives the same
    text before and after; every observation equals the one from a fresh
    process state.  These histories run in children of a process forked
    from the worker before it ever called tdda (class Zygote), so "fresh"
    means fresh whatever the worker has executed meanwhile;
  * equivalent argument forms: dict / OrderedDict for initialize_from_dict,
    str / pathlib.Path for verify_df.

Signatures name the root cause: raises:<load|dump>:<Type>@<innermost tdda
function>:<message>, text:<clause>:<feature>, fixpoint:<what changed>:<start
feature>, content:<clause>:<kind>:<value class>[@<offset class>],
verdict:<routeA>!=<routeB>:..., cross-document:<same-object|fresh-state>:<what
differs>, argument-form:<api>:<form>,
caller-dict-modified:<api>:<what>, second-use-differs:<api>,
rewrite:stale:<load kind>, routes-disagree:text:dict!=<route>:<what changed>
"""
import collections
import contextlib
import datetime
import io
import itertools
import json
import math
import os
import pathlib
import pickle
import shutil
import struct
import tempfile
import traceback

from mc.engine import Check, Res
from mc import fresh_fork as FF
from mc.models import tdda_format_spec as spec

LS, PS, NEL = chr(0x2028), chr(0x2029), chr(0x85)
E_NFC, E_NFD = chr(0xe9), 'e' + chr(0x301)
EPSILON = 0.25          # exact in binary; used on the one battery frame
                        # ('ffuzz') that separates fuzzy from closed bounds;
                        # all other frames use verify_df's default (0), which
                        # compares bounds exactly

# ===================================================================== frames
# discovered start states: column families (value alphabets by index)

NAN = float('nan')
INF = float('inf')


def _dtvals(unit):
    frac = {'s': '', 'ms': '.999', 'us': '.999999', 'ns': '.999999999'}[unit]
    return [None, '1999-12-31T23:59:59' + frac, '2000-01-01T00:00:00',
            '2000-02-29T12:00:00']


# UTC offsets: sign x hours x minutes, so every class sign x {whole hour,
# :15, :30, :45, less than one hour, zero} occurs; used for discovered bounds
# (tz-aware columns at a fixed offset), hand-written bounds (plus 'Z') and
# the microsecond layer
UTC_OFFSETS = [sg + h + ':' + m for sg in '+-' for h in ('00', '05', '11')
               for m in ('00', '15', '30', '45')]
# named zones whose offset has a fractional hour, west and east of Greenwich
NAMED_ZONES = {'dttzNF': 'America/St_Johns', 'dttzNP': 'Asia/Kathmandu'}


def offset_minutes(off):
    """'+05:30' -> 330, '-00:45' -> -45 (the sign applies to the whole)"""
    m = int(off[1:3]) * 60 + int(off[4:6])
    return -m if off[0] == '-' else m


FAMILIES = {
    'i64': [-2, 0, 1, 3],
    'u8': [0, 1, 255],
    'i64x': [-(2 ** 63) + 1, -1, 2 ** 62],
    'Int64': [None, -1, 0, 2],
    'f64': [NAN, -1.5, 0.0, 2.0, 2.5],
    'f64inf': [NAN, -INF, INF, 1.0],
    'f64x': [0.1 + 0.2, 1e300, -0.0, 5e-324, 1.0 / 3],
    'bool': [True, False],
    'boolobj': [None, True, False],
    'boolean': [None, True, False],
    'strobj': [None, '', 'a', 'B1', 'é²', "o'q\\", 'x y', '^', '-'],
    'strx': [None, '"', '\\d', 'a' + LS + 'b', NEL, E_NFD,
             '\U0001F600', 'a '],
    'cat': [None, 'a', 'B1', 'é²'],
    'dts': _dtvals('s'), 'dtms': _dtvals('ms'),
    'dtus': _dtvals('us'), 'dtns': _dtvals('ns'),
    'dttzutc': _dtvals('us'), 'dttz0530': _dtvals('us'),
    'dateobj': [None, (1999, 12, 31), (2000, 1, 1)],
}
# tz-aware columns at every offset of the alphabet / in a named zone
OFFSET_FAMILIES = ['dttz' + off for off in UTC_OFFSETS]
for _f in OFFSET_FAMILIES + sorted(NAMED_ZONES):
    FAMILIES[_f] = _dtvals('us')
STRING_FAMILIES = ('strobj', 'strx', 'cat')
FAMILY_ORDER = ['i64', 'u8', 'i64x', 'Int64', 'f64', 'f64inf', 'f64x', 'bool',
                'boolobj', 'boolean', 'cat', 'dts', 'dtms', 'dtus', 'dtns',
                'dttzutc', 'dttz0530', 'dateobj', 'strobj', 'strx']
FIELD_NAMES = ['a', 'b c', 'é', 'min', 'a_min_ok', '#x', 'fields',
               'x' + PS + 'y', '']


def build_column(fam, idxs):
    import numpy as np
    import pandas as pd
    vals = [FAMILIES[fam][i] for i in idxs]
    if fam in ('i64', 'i64x'):
        return pd.Series(vals, dtype='int64')
    if fam == 'u8':
        return pd.Series(vals, dtype='uint8')
    if fam == 'Int64':
        return pd.Series(pd.array(vals, dtype='Int64'))
    if fam in ('f64', 'f64inf', 'f64x'):
        return pd.Series(vals, dtype='float64')
    if fam == 'bool':
        return pd.Series(vals, dtype='bool')
    if fam == 'boolean':
        return pd.Series(pd.array(vals, dtype='boolean'))
    if fam in ('boolobj', 'strobj', 'strx'):
        return pd.Series(vals, dtype=object)
    if fam == 'cat':
        return pd.Series(pd.Categorical(vals))
    if fam in ('dts', 'dtms', 'dtus', 'dtns'):
        unit = fam[2:]
        return pd.Series(np.array([v if v else 'NaT' for v in vals],
                                  dtype='datetime64[%s]' % unit))
    if fam.startswith('dttz'):
        s = pd.Series(np.array([v if v else 'NaT' for v in vals],
                               dtype='datetime64[us]')).dt.tz_localize('UTC')
        if fam == 'dttz0530':
            s = s.dt.tz_convert(datetime.timezone(
                datetime.timedelta(hours=5, minutes=30)))
        elif fam in NAMED_ZONES:
            s = s.dt.tz_convert(NAMED_ZONES[fam])
        elif fam != 'dttzutc':
            s = s.dt.tz_convert(datetime.timezone(datetime.timedelta(
                minutes=offset_minutes(fam[4:]))))
        return s
    if fam == 'dateobj':
        return pd.Series([datetime.date(*v) if v else None for v in vals],
                         dtype=object)
    raise ValueError(fam)


def manycat_column(n, repeat, null):
    import pandas as pd
    vals = ['v%02d' % i for i in range(n)]
    if repeat and vals:
        vals.append(vals[0])
    if null:
        vals.append(None)
    return pd.Series(vals, dtype=object)


def index_tuples(nvals, maxrows, multiset_from=None):
    """every tuple of length 0..maxrows; from length `multiset_from` on only
    the sorted ones (row order is then not varied)."""
    for r in range(maxrows + 1):
        if multiset_from is not None and r >= multiset_from:
            it = itertools.combinations_with_replacement(range(nvals), r)
        else:
            it = itertools.product(range(nvals), repeat=r)
        for t in it:
            yield list(t)


# ================================================================ the battery

def battery_columns():
    import numpy as np
    import pandas as pd
    dt = lambda xs: pd.Series(np.array(xs, dtype='datetime64[ns]'))
    return [
        ('int', pd.Series([-2, 0, 1, 3], dtype='int64')),
        ('bigint', pd.Series([2 ** 53 + 1], dtype='int64')),
        ('f.3', pd.Series([0.3, 0.1 + 0.2], dtype='float64')),
        ('fwide', pd.Series([NAN, -1.5, -0.0, 1e300], dtype='float64')),
        ('ffuzz', pd.Series([0.8, 1.2], dtype='float64')),
        ('str', pd.Series(['a', 'B1', None], dtype=object)),
        ('stru', pd.Series(['é²', "o'q\\", 'x y'], dtype=object)),
        ('stresc', pd.Series(['\\', '"', "'", '12'], dtype=object)),
        ('strws', pd.Series(['', ' ', 'a' + LS + 'b', E_NFD],
                            dtype=object)),
        ('date', dt(['2000-01-01T00:00:00', '1999-12-31T23:59:59.999999'])),
        ('datefrac', dt(['NaT', '2000-01-01T00:00:00.000001',
                         '2000-01-01T00:00:00.5'])),
        ('datetz', dt(['2000-01-01T00:00:00', '1999-12-31T23:59:59.999999'])
         .dt.tz_localize('UTC')),
        ('dateobj', pd.Series([datetime.date(1999, 12, 31),
                               datetime.date(2000, 1, 1)], dtype=object)),
        ('bool', pd.Series([True, False], dtype='bool')),
        ('allnull', pd.Series([None, None], dtype=object)),
        ('missing', None),
    ]


# ======================================================= hand-written grammar

def J(doc):
    """case encoding of a document: JSON text (keeps key order, -0.0, big
    ints, non-finite numbers; pure ASCII)."""
    return json.dumps(doc, ensure_ascii=True)


NUM_VALUES = [0, 1, -2, 2 ** 53 + 1, 2 ** 63, 0.1 + 0.2, 1e300, -0.0, 1.0,
              5e-324]
NUM_VALUES_LITE = [1, 0.1 + 0.2, -0.0]
NUM_GRAY = [INF, -INF, NAN]
DATE_VALUES = ['2000-01-01', '2000-01-01 00:00:00', '2000-01-01T12:34:56',
               '1999-12-31 23:59:59.999999', '2000-01-01 00:00:00.000001',
               '2000-01-01 00:00:00.500000']
DATE_VALUES += ['2000-01-01 00:00:00.000249', '2000-01-01 00:00:00.001001',
                '2000-01-01 00:00:00+05:30',
                '1999-12-31 23:59:59.999999-08:00',
                '2000-01-01T00:00:00.000249+00:00',
                '2000-01-01T00:00:00Z']
DATE_VALUES_LITE = ['2000-01-01', '1999-12-31 23:59:59.999999']
DATE_GRAY = ['2000-01-01 00:00:00.5', '2000-01-01 00:00:00.123456789',
             '2000/01/01', '2000-1-1', '2000-02-30', 'not a date',
             '2000-01-01 00:00:00+0530', '2000-01-01 00:00:00+05:60',
             '2000-01-01 00:00:00-24:00', '2000-01-01 00:00:00 Z']
# 1..5 and 7 fractional digits (how '.5' is read is the known gray zone),
# without and with a UTC offset
DATE_GRAY += ['2000-01-01 00:00:00.' + f + o
              for f in ('25', '125', '0625', '00001', '0002490')
              for o in ('', '+05:30')] + ['2000-01-01 00:00:00.5-08:00']
TYPE_VALUES = ['bool', 'int', 'real', 'date', 'string', ['int', 'real'],
               ['real', 'int'], ['date'], ['string', 'bool'], [], None]
TYPE_GRAY = ['float', ['int', 'number'], 7]
COUNT_VALUES = [0, 1, 3, 2 ** 31, None]
SIGN_VALUES = ['positive', 'non-negative', 'zero', 'non-positive', 'negative',
               'null', None]
SIGN_GRAY = ['bogus', 'Positive']
NULLS_VALUES = [0, 1, 5, None]
NODUP_VALUES = [True, False, None]
ALLOWED_VALUES = [
    [], ['a'], ['b', 'a'], ['a', 'a'], ['é²', "o'q\\"],
    ['"', '\\d', "'"], ['x y', ' ', ''], ['a ', ' a', '\t'],
    [E_NFC, E_NFD], ['\U0001F600'], ['a' + LS + 'b'], [PS], [NEL],
    ['a ' + LS], [1, 2], [1.5, True, None], None]
REX_VALUES = [
    ['^a$'], ['^\\d+$'], ['^\\\\$'], ["^'$"], ['^"$'],
    ['^[A-Z][a-z]+$', '^$'], ['^é+$'], ['^[^-]$'], ['^a' + LS + 'b$'],
    [], None]
REX_GRAY = ['^a$', [1]]
PRECS = ['closed', 'open', 'fuzzy']
PREC_GRAY = ['exact']


def entry_forms(kind, v):
    """the documented spellings of one constraint entry with value v"""
    yield v
    yield {'value': v}
    if kind in ('min', 'max'):
        for p in PRECS:
            yield {'value': v, 'precision': p}


def single_docs(tier):
    """H0: one field 'a', one kind (plus the type context the kind needs)."""
    def doc(ctx, kind, entry, after=False):
        fc = {}
        if ctx is not None and not after:
            fc['type'] = ctx
        fc[kind] = entry
        if ctx is not None and after:
            fc['type'] = ctx
        return {'fields': {'a': fc}}
    for v in TYPE_VALUES:
        for e in entry_forms('type', v):
            yield doc(None, 'type', e)
    for kind in ('min', 'max'):
        for ctx in (None, 'real'):
            for v in NUM_VALUES + [None]:
                for e in entry_forms(kind, v):
                    yield doc(ctx, kind, e)
        for ctx in ('date', {'value': 'date'}):
            for v in DATE_VALUES + [None]:
                for e in entry_forms(kind, v):
                    yield doc(ctx, kind, e)
        # the type constraint written after the bound it qualifies
        for v in DATE_VALUES_LITE + [None]:
            for e in entry_forms(kind, v):
                yield doc('date', kind, e, after=True)
        for ctx in (['date'], None, 'string'):
            for v in DATE_VALUES_LITE:
                yield doc(ctx, kind, v)
    for kind in ('min_length', 'max_length'):
        for ctx in (None, 'string'):
            for v in COUNT_VALUES:
                for e in entry_forms(kind, v):
                    yield doc(ctx, kind, e)
    for ctx in (None, 'int'):
        for v in SIGN_VALUES:
            for e in entry_forms('sign', v):
                yield doc(ctx, 'sign', e)
    for ctx in (None, 'int', 'date'):
        for v in NULLS_VALUES:
            for e in entry_forms('max_nulls', v):
                yield doc(ctx, 'max_nulls', e)
    for ctx in (None, 'string'):
        for v in NODUP_VALUES:
            for e in entry_forms('no_duplicates', v):
                yield doc(ctx, 'no_duplicates', e)
        for v in ALLOWED_VALUES:
            for e in entry_forms('allowed_values', v):
                yield doc(ctx, 'allowed_values', e)
        for v in REX_VALUES:
            for e in entry_forms('rex', v):
                yield doc(ctx, 'rex', e)


def lite_fcs():
    """a small, kind-covering set of field-constraint dictionaries used as the
    base of the one-deviation layers"""
    out = []
    out.append({'type': 'int'})
    out.append({'type': ['int', 'real']})
    for kind in ('min', 'max'):
        for v in NUM_VALUES_LITE:
            out.append({'type': 'real', kind: v})
        out.append({'type': 'real', kind: {'value': 1, 'precision': 'open'}})
        for v in DATE_VALUES_LITE:
            out.append({'type': 'date', kind: v})
    out.append({'type': 'string', 'min_length': 1})
    out.append({'type': 'string', 'max_length': 3})
    out.append({'type': 'int', 'sign': 'positive'})
    out.append({'sign': 'null'})
    out.append({'type': 'int', 'max_nulls': 0})
    out.append({'type': 'string', 'no_duplicates': True})
    out.append({'type': 'string', 'allowed_values': ['é²', "o'q\\"]})
    out.append({'type': 'string', 'rex': ['^\\d+$', '^"$']})
    out.append({'type': 'string', 'min_length': 0, 'max_length': 3,
                'max_nulls': 1, 'no_duplicates': True,
                'allowed_values': ['a', 'B1'], 'rex': ['^a$', '^B1$']})
    return out


IGNORABLE_KIND_LEVEL = [
    ('zzz', 3), ('zzz', None), ('zzz', {'value': 1}), ('zzz', [1, 'x']),
    ('lt', 'b'), ('Min', 0), ('values', ['a']), ('transform', 'x'),
    ('#c', 'text'), ('#', 1), ('#min', 3), ('#c', {'value': 1}),
    ('#c', None), ('#é', ['x']),
]
IGNORABLE_MIDDLE = [('zzz', 3), ('#c', 'text'), ('#min', 3), ('Min', 0)]
IGNORABLE_TOP_LEVEL = [
    ('#c', 'text'), ('#fields', {'a': {'type': 'bool'}}), ('zzz', 1),
    ('field_groups', {}), ('field_groups', {'a,b': {'lt': True}}),
]


def with_key(d, k, v, where):
    """d plus key k at the front ('first'), at the back ('last') or before
    the key that is now at index `where` (an int in 0..len(d))"""
    if where == 'first':
        where = 0
    elif where == 'last':
        where = len(d)
    out = {}
    for i, (k0, v0) in enumerate(d.items()):
        if i == where:
            out[k] = v
        out[k0] = v0
    if where >= len(d):
        out[k] = v
    return out


def interleaved(d, extras):
    """d with one ignorable key in EVERY gap: before the first key, between
    any two keys and after the last (extras are used cyclically; a key that
    comes round again gets a distinguishing suffix)"""
    out = {}
    items = list(d.items())
    for i in range(len(items) + 1):
        k, v = extras[i % len(extras)]
        out[k if k not in out else '%s%d' % (k, i)] = v
        if i < len(items):
            out[items[i][0]] = items[i][1]
    return out


def ignorable_docs(tier):
    """H1: a lite document plus ONE ignorable key, at EVERY position among
    the keys of its level (first, each middle position, last); plus one
    document with an ignorable key in every gap at once."""
    other = {'type': 'int', 'min': 1, 'max_nulls': 0}
    for nfc, fc in enumerate(lite_fcs()):
        for (k, v) in IGNORABLE_KIND_LEVEL:
            for where in ('first', 'last'):
                yield {'fields': {'a': with_key(fc, k, v, where)}}
        # every position between two keys: one unknown kind, one comment,
        # and the look-alikes of a known kind
        for (k, v) in IGNORABLE_MIDDLE:
            for where in range(1, len(fc)):
                yield {'fields': {'a': with_key(fc, k, v, where)}}
        meta = {'creator': 'me', 'n_records': 3}
        for (k, v) in IGNORABLE_TOP_LEVEL:
            for where in ('first', 'last'):
                yield with_key({'fields': {'a': dict(fc)}}, k, v, where)
            if nfc % 5 == 0:
                # between creation_metadata and fields, in both orders
                yield with_key({'creation_metadata': dict(meta),
                                'fields': {'a': dict(fc)}}, k, v, 1)
                yield with_key({'fields': {'a': dict(fc)},
                                'creation_metadata': dict(meta)}, k, v, 1)
        yield {'fields': {'a': interleaved(fc, IGNORABLE_KIND_LEVEL)}}
        yield {'fields': {'a': interleaved(fc, IGNORABLE_KIND_LEVEL[8:])}}
        yield interleaved({'creation_metadata': dict(meta),
                           'fields': {'a': dict(fc)}}, IGNORABLE_TOP_LEVEL)
        # an ignorable key in one field, ordinary constraints in the field
        # before / after it
        for (k, v) in (('zzz', 3), ('#c', 'text')):
            yield {'fields': {'a': with_key(fc, k, v, 'first'),
                              'b': dict(other)}}
            yield {'fields': {'b': dict(other),
                              'a': with_key(fc, k, v, 'first')}}
            yield {'fields': {'b': with_key(other, k, v, 1),
                              'a': dict(fc)}}
        # a second field that carries nothing but ignorable keys
        yield {'fields': {'a': dict(fc), 'b': {'zzz': 1, '#c': 'x'}}}
        yield {'fields': {'b': {'zzz': 1}, 'a': dict(fc)}}
        yield {'fields': {'a': dict(fc), 'b': {}}}
    # only ignorable keys anywhere
    yield {'fields': {'a': {'zzz': 3}}}
    yield {'fields': {'a': {'#c': 'x'}}}
    yield {'fields': {'a': {}}}
    # gray: '#' keys at levels the statement does not clearly cover
    for fc in lite_fcs()[:4]:
        yield {'fields': {'#c': 'text', 'a': dict(fc)}}
        yield {'fields': {'a': dict(fc), '#c': None}}
    for kind in ('min', 'max'):
        yield {'fields': {'a': {'type': 'int', kind:
                                {'value': 1, 'precision': 'closed', '#c': 1}}}}
        yield {'fields': {'a': {'type': 'int', kind: {'value': 1, '#c': 1}}}}


def nullkind_docs(tier):
    """H2: a lite document plus ONE null-valued constraint of another kind."""
    for fc in lite_fcs():
        for kind in spec.KNOWN_KINDS:
            if kind in fc:
                continue
            forms = [None, {'value': None}]
            if kind in ('min', 'max'):
                forms.append({'value': None, 'precision': 'closed'})
            for e in forms:
                for where in ('first', 'last'):
                    yield {'fields': {'a': with_key(fc, kind, e, where)}}
    # everything null
    allnull = dict((k, None) for k in spec.KNOWN_KINDS)
    yield {'fields': {'a': allnull}}
    yield {'fields': {'a': with_key(dict((k, None) for k in spec.KNOWN_KINDS
                                         if k != 'type'), 'type', 'date',
                                    'first')}}


TEXT_FORMS = ['indent4', 'compact-ascii', 'indent1-crlf-trailing']


def shape_docs(tier):
    """H3: field names, top-level shapes, metadata, as (doc, form)."""
    base = [{'type': 'int', 'min': 1}, {'type': 'string', 'rex': ['^\\d+$']},
            {'type': 'date', 'max': '2000-01-01'},
            {'type': 'string', 'allowed_values': ['é²']}]
    for name in FIELD_NAMES + ['a' + LS, NEL, '\U0001F600', E_NFD]:
        for fc in base:
            yield {'fields': {name: dict(fc)}}, 'indent4'
    # two fields: order kept?  names that sort differently from their order
    for (n1, n2) in (('b', 'a'), ('a', 'b'), ('é', 'z'), ('B', 'a'),
                     ('#x', 'a')):
        for fc in base[:2]:
            yield {'fields': {n1: dict(fc), n2: {'type': 'real', 'max': -0.0}}}, \
                'indent4'
    # top-level shapes
    yield {'fields': None}, 'indent4'
    yield {'fields': {}}, 'indent4'
    yield {}, 'indent4'
    yield {'field_groups': {}}, 'indent4'
    yield {'field_groups': {'a,b': {'lt': True}}}, 'indent4'
    yield {'#c': 'only a comment'}, 'indent4'
    yield {'fields': None, 'field_groups': None}, 'indent4'
    # creation_metadata
    metas = [
        {}, None,
        {'local_time': '2000-01-01T00:00:00', 'utc_time':
         '2000-01-01T00:00:00+00:00', 'creator': 'TDDA 9.9', 'host': 'h',
         'user': 'ué', 'n_records': 3, 'n_selected': 3},
        {'as_at': None, 'source': 'x.csv', 'dataset': 'x.csv'},
        {'tddafile': 'other.tdda'},
        {'tddafile': 'w.tdda', 'rdbms': 'sqlite'},
        {'zzz': 1, '#c': 'x', 'creator': 'me'},
        {'n_records': 0, 'user': ''},
    ]
    for m in metas:
        for fc in base[:2]:
            for where in ('first', 'last'):
                yield with_key({'fields': {'a': dict(fc)}},
                               'creation_metadata', m, where), 'indent4'
    # the same documents in other text forms
    for form in TEXT_FORMS[1:]:
        for fc in lite_fcs():
            yield {'fields': {'é': dict(fc)}}, form
        yield {'fields': None}, form


def pair_values(kind):
    return {
        'type': ['int', 'date', ['int', 'real']],
        'min': [1, 0.1 + 0.2, '2000-01-01',
                {'value': '1999-12-31 23:59:59.999999', 'precision': 'closed'},
                {'value': -0.0, 'precision': 'open'}],
        'max': [3, '2000-01-01 00:00:00.000001',
                {'value': 1e300, 'precision': 'fuzzy'}],
        'min_length': [1], 'max_length': [3],
        'sign': ['positive', 'null'],
        'max_nulls': [0], 'no_duplicates': [True],
        'allowed_values': [['é²', "o'q\\"]],
        'rex': [['^\\d+$', '^"$']],
    }[kind]


def pair_docs(tier):
    """H4: two kinds on one field, both orders (canonical key order is the
    writer's business: the text must simply be stable)."""
    kinds = list(spec.KNOWN_KINDS)
    for i, k1 in enumerate(kinds):
        for k2 in kinds[i + 1:]:
            for v1 in pair_values(k1):
                for v2 in pair_values(k2):
                    yield {'fields': {'a': {k1: v1, k2: v2}}}
                    yield {'fields': {'a': {k2: v2, k1: v1}}}


def gray_docs(tier):
    """H5: documents outside the documented format (rejecting is fine,
    accepting is fine; routes must agree, accepted texts must round-trip)."""
    def d(fc):
        return {'fields': {'a': fc}}
    for kind in ('min', 'max'):
        for v in NUM_GRAY:
            yield d({'type': 'real', kind: v})
            yield d({'type': 'real', kind: {'value': v, 'precision': 'open'}})
        for v in DATE_GRAY:
            for e in entry_forms(kind, v):
                if isinstance(e, dict) and 'precision' in e and len(v) < 10:
                    # keep the shortest document of every precision-related
                    # finding a documented one (replay files show the
                    # shortest failing case)
                    continue
                yield d({'type': 'date', kind: e})
        for p in PREC_GRAY:
            yield d({'type': 'real', kind: {'value': 1, 'precision': p}})
        yield d({'type': 'real', kind: {'value': 1, 'comment': 'why'}})
        yield d({'type': 'date', kind: {'value': '2000-01-01',
                                        'comment': 'why'}})
        yield d({'type': 'real', kind: {'precision': 'open'}})
        yield d({'type': 'real', kind: True})
        yield d({'type': 'real', kind: [1, 2]})
    for v in TYPE_GRAY:
        yield d({'type': v})
    for v in SIGN_GRAY:
        yield d({'sign': v})
    for v in REX_GRAY:
        yield d({'type': 'string', 'rex': v})
    yield d({'type': 'string', 'allowed_values': 'a'})
    yield d({'no_duplicates': 1})
    yield d({'no_duplicates': 'yes'})
    yield d({'max_nulls': -1})
    yield d({'max_nulls': 1.5})
    yield d({'min_length': {'value': 1, 'comment': 'c'}})
    yield d({'max_length': {'value': 1, 'comment': 'c'}})
    yield d({'max_nulls': {'value': 1, 'precision': 'open'}})
    yield {'fields': []}
    yield {'fields': {'a': None}}
    yield {'fields': {'a': []}}


OFFSET_BASES = ['2000-01-01 00:00:00', '1999-12-31T23:59:59.999999']


def offset_docs(tier):
    """Z0: date bounds with every UTC offset of the alphabet (and Z), with
    and without fractional seconds, as scalar and with a precision; then
    min and max of one field at two different offsets."""
    offs = UTC_OFFSETS + ['Z']
    for kind in ('min', 'max'):
        for off in offs:
            for b in OFFSET_BASES:
                yield {'fields': {'a': {'type': 'date', kind: b + off}}}
                yield {'fields': {'a': {'type': 'date', kind: {
                    'value': b + off, 'precision': 'closed'}}}}
    for i, off in enumerate(offs):
        off2 = offs[(i + 7) % len(offs)]
        yield {'fields': {'a': {'type': 'date',
                                'min': OFFSET_BASES[1] + off,
                                'max': OFFSET_BASES[0] + off2}}}


def triple_docs(tier):
    """T: three kinds on one field (thorough)."""
    kinds = list(spec.KNOWN_KINDS)
    for ks in itertools.combinations(kinds, 3):
        for vs in itertools.product(*[pair_values(k)[:2] for k in ks]):
            fc = dict(zip(ks, vs))
            yield {'fields': {'a': fc}}
            yield {'fields': {'a': dict(reversed(list(fc.items())))}}


def singles_named(tier):
    """T: every H0 document under every other field name (thorough)."""
    for name in FIELD_NAMES[1:]:
        for dd in single_docs(tier):
            yield {'fields': {name: dd['fields']['a']}}


# JSON-structural characters (plus space and newline): every two-character
# combination occurs inside a string of every carrier
STRUCT_CHARS = ['{', '}', '[', ']', ',', ':', '"', '\\', '/', ' ', '\n']
JSON_LOOKALIKES = ['{"a": 1,}', '[1,]', 'null', 'true', '{"fields": null}',
                   '"', '\\"', '",\n    "b": "', '[a, ]', '{x,}', ', ]',
                   ',\n}', '\\u0041', '\\\\', '//', '/*,]*/']
# valid expressions that contain such sequences, with strings they match
REX_WITH_SAMPLES = [
    (['^\\d{2,}$'], ['123', '1']),
    (['^[0-9,]+$'], ['1,000', 'x']),
    (['^[,}]$', '^[{,]$'], [',', '}', '{', 'x']),
    (['^a{1,}b$'], ['aab', 'b']),
    (['^[a-z ,]+$'], ['a, b', 'A']),
    (['^[",]$'], ['"', ',', 'x']),
    (['^\\[,\\]$'], ['[,]', '[]']),
    (['^\\{\\}$', '^:$'], ['{}', ':', ';']),
    (['^"[^"]*",$'], ['"a",', '"a"']),
    (['^/\\\\/$'], ['/\\/', '//']),
]


def string_contents():
    for a in STRUCT_CHARS:
        for b in STRUCT_CHARS:
            yield a + b
    for x in JSON_LOOKALIKES:
        yield x


def string_cases(tier):
    """S0: every string of the content alphabet in every carrier: field name,
    allowed value (alone and embedded), metadata values; and as an expression.
    `samples` become an extra battery frame (the document's own strings)."""
    for x in string_contents():
        yield ({'creation_metadata': {'source': x, 'dataset': 'd' + x},
                'fields': {x: {'type': 'string',
                               'allowed_values': [x, 'p' + x + 'q']}}},
               [x, 'p' + x + 'q', 'zz'])
        yield ({'fields': {'a': {'type': 'string', 'rex': [x]}}},
               [x, 'zz'])
    for rexes, samples in REX_WITH_SAMPLES:
        yield ({'fields': {'a': {'type': 'string', 'rex': rexes}}}, samples)
        yield ({'fields': {'a': {'type': 'string', 'rex': rexes,
                                 'allowed_values': samples}}}, samples)


# documents of the rewrite histories (W0); the first two have the same length
REWRITE_DOCS = [
    {'fields': {'a': {'type': 'int', 'min': 1}}},
    {'fields': {'a': {'type': 'int', 'min': 2}}},
    {'fields': {'a': {'type': 'int', 'max': 2, 'sign': 'positive'}}},
    {'fields': {'a': {'type': 'string', 'rex': ['^\\d{2,}$']}}},
    {'fields': {}},
]
LOAD_KINDS = ['load', 'verify', 'detect']


def rewrite_histories(tier):
    """every history of 1..2 steps over all documents x load kinds, and of 3
    steps over documents {0, 1, 3}; a step = (write document to THE path,
    load it that way)."""
    steps_all = [[d, k] for d in range(len(REWRITE_DOCS))
                 for k in range(len(LOAD_KINDS))]
    steps_3 = [[d, k] for d in (0, 1, 3) for k in range(len(LOAD_KINDS))]
    for s1 in steps_all:
        yield [s1]
    for s1 in steps_all:
        for s2 in steps_all:
            yield [s1, s2]
    for s1 in steps_3:
        for s2 in steps_3:
            for s3 in steps_3:
                yield [s1, s2, s3]


# ---- histories across DIFFERENT documents and objects in one process (X0)
# foreign documents A: everything a document may carry besides the
# constraints of its fields - uninterpreted top-level sections before / after
# 'fields', unknown kinds and comments, every metadata key - and plain ones
FOREIGN_FIELDS = {'a': {'type': 'string', 'rex': ['^x$']},
                  'z': {'type': 'real', 'max': 9.5}}
FOREIGN_META = {'as_at': '2001-02-03', 'local_time': '2001-02-03T04:05:06',
                'utc_time': '2001-02-03T04:05:06+00:00',
                'creator': 'someone else', 'rdbms': 'sqlite',
                'source': 'foreign.csv', 'host': 'elsewhere', 'user': 'them',
                'dataset': 'foreign', 'n_records': 77, 'n_selected': 7,
                'tddafile': 'foreign.tdda'}


def foreign_docs():
    out = [{'fields': dict(FOREIGN_FIELDS)}]
    for (k, v) in IGNORABLE_TOP_LEVEL:
        for where in ('first', 'last'):
            out.append(with_key({'fields': dict(FOREIGN_FIELDS)}, k, v,
                                where))
    out.append({'fields': {'a': {'#c': 'text', 'type': 'string', 'zzz': 3,
                                 'rex': ['^x$'], 'transform': 'y'}}})
    out.append({'creation_metadata': dict(FOREIGN_META),
                'fields': dict(FOREIGN_FIELDS)})
    out.append({'fields': dict(FOREIGN_FIELDS),
                'creation_metadata': dict(FOREIGN_META, zzz=1),
                'field_groups': {'a,z': {'lt': True}}, '#c': 'note'})
    out.append({'fields': None, 'field_groups': {'a,b': {'eq': True}},
                '#c': 'x', 'zzz': [1]})
    out.append({'fields': {'a': {'type': 'date',
                                 'min': '1999-12-31 23:59:59.999999-05:30',
                                 'max': '2000-01-01 00:00:00+00:45'}}})
    # the field names of the B documents, other constraints
    out.append({'#a': 1, 'fields': {'a': {'type': 'int', 'min': 2, 'max': 2,
                                          'sign': 'positive'},
                                    'b': {'type': 'string',
                                          'allowed_values': ['q']}},
                'field_groups': {'a,b': {'gt': True}}})
    return out


FOREIGN_DOCS = foreign_docs()
FOREIGN_ROUTES = ['load', 'load+write', 'dict', 'verify-path', 'verify-dict',
                  'detect-path', 'detect-dict']
# the documents whose text / verdicts are observed; the second has sections,
# metadata and comments of its own
OWN_DOCS = [
    {'fields': {'a': {'type': 'int', 'min': 1, 'max': 3}}},
    {'creation_metadata': {'creator': 'me', 'source': 'own.csv'},
     'field_groups': {'a,b': {'eq': True}}, '#own': 'kept or not',
     'fields': {'a': {'type': 'int', 'min': 1, 'max': 3, '#c': 'mine'},
                'b': {'type': 'string', 'allowed_values': ['x']}}},
]
# two-step histories: a plain document, sections after / before 'fields',
# metadata
FOREIGN_2 = [0, 2, 7, 12]
FOREIGN_ROUTES_2 = ['load', 'dict', 'verify-path']
API_CLASSES = {'type': 'TypeConstraint', 'min': 'MinConstraint',
               'max': 'MaxConstraint', 'sign': 'SignConstraint',
               'allowed_values': 'AllowedValuesConstraint'}

def mask_times(text):
    """a written text without the two creation times (the only parts of a
    discovered set that depend on the clock)"""
    import re
    return re.sub(r'"(local_time|utc_time)": "[^"\n]*"', r'"\1": "<time>"',
                  text)


def cross_histories(tier):
    for bi in range(len(OWN_DOCS)):
        for ai in range(len(FOREIGN_DOCS)):
            for r in FOREIGN_ROUTES:
                yield bi, [[ai, r]]
    steps = [[ai, r] for ai in FOREIGN_2 for r in FOREIGN_ROUTES_2]
    for bi in range(len(OWN_DOCS)):
        for s1 in steps:
            for s2 in steps:
                if s1[0] != s2[0]:
                    yield bi, [s1, s2]
    if tier == 'thorough':
        for ai in range(len(FOREIGN_DOCS)):
            for aj in range(len(FOREIGN_DOCS)):
                for r in ('load+write', 'detect-dict'):
                    yield 1, [[ai, r], [aj, r]]


FRACTION_BATCH = 1000
FRACTION_BASE = '2000-01-01 00:00:00'


def render(doc, form):
    if form == 'indent4':
        return json.dumps(doc, indent=4, ensure_ascii=False) + '\n'
    if form == 'compact-ascii':
        return json.dumps(doc, separators=(',', ':'), ensure_ascii=True)
    if form == 'indent1-crlf-trailing':
        t = json.dumps(doc, indent=1, ensure_ascii=False)
        return '\r\n'.join(l + '  ' for l in t.split('\n')) + '\r\n\r\n'
    raise ValueError(form)


# ==================================================================== helpers

def _slug(msg, n=8):
    words = []
    for w in str(msg).replace("'", ' ').replace('"', ' ').split():
        w = ''.join(ch for ch in w if ch.isalpha() or ch in '_-')
        if w:
            words.append(w)
    return '-'.join(words[:n])[:60]


def exc_sig(e, src):
    """<Type>@<innermost tdda function>:<message slug>"""
    fn = '?'
    tb = e.__traceback__
    base = os.path.join(src, 'tdda')
    while tb is not None:
        code = tb.tb_frame.f_code
        if os.path.abspath(code.co_filename).startswith(base):
            fn = getattr(code, 'co_qualname', code.co_name)
        tb = tb.tb_next
    return '%s@%s:%s' % (type(e).__name__, fn, _slug(e))


def offset_class(minutes):
    """class of a UTC offset, for signatures"""
    if minutes == 0:
        return 'utc'
    return '%s-%s' % ('east' if minutes > 0 else 'west',
                      'whole-hours' if minutes % 60 == 0 else 'fractional')


def tz_class(s):
    """'' for a naive date string (or anything else), '@<offset class>' for
    one with a UTC offset"""
    p = spec.parse_instant(s)
    if isinstance(p, datetime.datetime) and p.tzinfo is not None:
        return '@' + offset_class(int(p.utcoffset().total_seconds() // 60))
    return ''


def ignorable_class(doc):
    """which ignorable keys a document has: comment-key / unknown-kind among
    a field's kinds, top-level-key; several joined by '+'"""
    out = set()
    for k in doc:
        if k not in ('fields', 'field_groups', 'creation_metadata'):
            out.add('top-level-key')
    f = doc.get('fields')
    if isinstance(f, dict):
        for fc in f.values():
            if isinstance(fc, dict):
                for k in fc:
                    if spec.is_comment_key(k):
                        out.add('comment-key')
                    elif k not in spec.KNOWN_KINDS:
                        out.add('unknown-kind')
    return '+'.join(sorted(out)) or 'none'


def family_tag(fam):
    """column family as named in signatures: the tz-aware families by the
    class of their offset"""
    if not fam.startswith('dttz'):
        return fam
    if fam in NAMED_ZONES:
        return 'dttz@named-' + {'dttzNF': 'west', 'dttzNP': 'east'}[fam] \
            + '-fractional'
    mins = {'dttzutc': 0, 'dttz0530': 330}.get(fam)
    if mins is None:
        mins = offset_minutes(fam[4:])
    return 'dttz@' + offset_class(mins)


def value_class(v):
    """coarse class of a constraint entry, for signatures"""
    value, precision, dictform = spec.constraint_value(v)
    if value is None:
        c = 'null'
    elif isinstance(value, bool):
        c = 'bool'
    elif isinstance(value, int):
        c = 'int'
    elif isinstance(value, float):
        c = 'nonfinite' if (math.isnan(value) or math.isinf(value)) \
            else 'float'
    elif isinstance(value, str):
        p = spec.parse_instant(value)
        c = 'datestr' + tz_class(value) \
            if isinstance(p, datetime.datetime) else 'str'
    elif isinstance(value, list):
        c = 'list'
    else:
        c = type(value).__name__
    if precision is not None:
        c += '+precision'
    elif dictform:
        c += '+dictform'
    return c


def has_linesep(x):
    if isinstance(x, str):
        return any(ch in x for ch in (LS, PS, NEL))
    if isinstance(x, list):
        return any(has_linesep(y) for y in x)
    if isinstance(x, dict):
        return any(has_linesep(k) or has_linesep(v) for k, v in x.items())
    return False


def snapshot(x):
    """type-sensitive, order-sensitive canonical form of a (supposedly plain
    JSON) value; anything that is not plain JSON data shows up as its type"""
    if isinstance(x, dict):
        return ('{', type(x).__name__,
                tuple((snapshot(k), snapshot(v)) for k, v in x.items()))
    if isinstance(x, (list, tuple)):
        return ('[', type(x).__name__, tuple(snapshot(v) for v in x))
    if isinstance(x, float):
        return ('float', repr(x))
    if x is None or isinstance(x, (bool, int, str)):
        return (type(x).__name__, x)
    return ('NOT-JSON', type(x).__name__, repr(x)[:60])


def snapshot_diff(a, b, path='$'):
    """path and kind of the first difference between two snapshots"""
    if a == b:
        return None
    if a[0] in '{[' and b[0] == a[0] and a[1] == b[1] \
            and len(a[2]) == len(b[2]):
        for i, (x, y) in enumerate(zip(a[2], b[2])):
            if x != y:
                if a[0] == '{':
                    if x[0] != y[0]:
                        return path, 'key-changed'
                    return snapshot_diff(x[1], y[1],
                                         '%s.%s' % (path, x[0][1]))
                return snapshot_diff(x, y, '%s[%d]' % (path, i))
    if b[0] == 'NOT-JSON':
        return path, 'became-%s' % b[1]
    if a[0] in '{[' and b[0] == a[0]:
        return path, 'entries-added-or-removed' if a[1] == b[1] \
            else 'container-type-changed'
    return path, 'value-changed'


def bk(kind):
    """min and max share their code paths: one signature for both"""
    return 'bound' if kind in ('min', 'max') else kind


def plain(x):
    if x is None:
        return None
    if isinstance(x, (bool, int, float, str)):
        return x
    try:
        if hasattr(x, 'item'):
            return plain(x.item())
    except Exception:
        pass
    try:
        return bool(x)
    except Exception:
        return repr(x)


class Zygote(object):
    """A process forked from the worker while it has only IMPORTED tdda and
    never called it.  It stays in that state and, per request, runs fn(req)
    in a child forked from itself (mc.fresh_fork): so a history can be
    executed from the process state 'imported, never called' at any time,
    whatever the worker itself has executed meanwhile.  The zygote ends when
    the worker closes the pipe or dies."""

    def __init__(self, fn):
        rq_r, rq_w = os.pipe()
        rs_r, rs_w = os.pipe()
        pid = os.fork()
        if pid == 0:
            try:
                os.close(rq_w)
                os.close(rs_r)
                self._serve(fn, rq_r, rs_w)
            except BaseException:
                pass
            finally:
                os._exit(0)
        os.close(rq_r)
        os.close(rs_w)
        self.pid = pid
        self.w = os.fdopen(rq_w, 'wb')
        self.r = os.fdopen(rs_r, 'rb')
        self.broken = False

    @staticmethod
    def _send(f, obj):
        data = pickle.dumps(obj)
        f.write(struct.pack('>I', len(data)) + data)
        f.flush()

    @staticmethod
    def _recv(f):
        head = f.read(4)
        if len(head) < 4:
            return None
        return pickle.loads(f.read(struct.unpack('>I', head)[0]))

    @classmethod
    def _serve(cls, fn, r, w):
        rf, wf = os.fdopen(r, 'rb'), os.fdopen(w, 'wb')
        FF.freeze()
        while True:
            req = cls._recv(rf)
            if req is None:
                return
            try:
                payload = ('ok', FF.run_fresh(fn, req[0]))
            except FF.TddaEscaped as e:
                payload = ('escaped', e.tname, e.rep, e.tb)
            except BaseException as e:
                payload = ('harness', ''.join(traceback.format_exception(
                    type(e), e, e.__traceback__))[-3000:])
            cls._send(wf, payload)

    def call(self, req):
        if self.broken:
            raise RuntimeError('harness: the pristine process is gone')
        try:
            self._send(self.w, (req,))
            payload = self._recv(self.r)
        except BaseException:
            # (a case timeout included) the dialogue is out of step
            self.close()
            raise
        if payload is None:
            self.close()
            raise RuntimeError('harness: the pristine process ended')
        if payload[0] == 'harness':
            raise RuntimeError('harness error in forked child:\n%s'
                               % payload[1])
        return payload

    def close(self):
        if self.broken:
            return
        self.broken = True
        for f in (self.w, self.r):
            try:
                f.close()
            except Exception:
                pass
        try:
            os.waitpid(self.pid, 0)
        except Exception:
            pass


# ====================================================================== check

class C09(Check):
    pid = 'C09'
    title = ('.tdda files round-trip: same text, same verdicts, unknown keys '
             'ignored')
    technique = ('explicit-state search (E3) over write/load histories of '
                 '.tdda texts on the real DatasetConstraints / verify_df, from '
                 'exhaustively enumerated discovered and hand-written start '
                 'states, against an independent model of the documented '
                 'file format')
    rule = ('cases = start states: (a) discover_df on every column of 0..3 '
            'rows over 20 column families (rows as multisets in quick; every '
            'row order and 4-row multisets in thorough), '
            'rex off/on, names and two-column frames; (b) every hand-written '
            'document of the format grammar: kind x value alphabet x entry '
            'form (scalar / {"value"} / {"value","precision"}) x type context, '
            'plus one deviation (ignorable key at kind or top level, null-'
            'valued other kind, field name, top-level shape, metadata, text '
            'form, second kind in both orders; thorough: third kind, every '
            'name); every 2-character string over JSON-structural characters '
            'and JSON look-alikes in every string carrier; rewrite histories '
            'of one path (1-3 steps x 5 documents x 3 load kinds); date bounds '
            'at all 10^6 microsecond values, naive and with UTC offset; date '
            'bounds at 24 UTC offsets (sign x hours x minutes) and Z, '
            'hand-written and discovered; ignorable keys at every position '
            'among a field\'s kinds; histories across documents (17 foreign '
            'documents x 7 routes, 1-2 steps, then 2 own documents observed '
            'by 16 observations each against a fresh process state).  '
            'Per start: BFS over {path, dict, tddafile} until closed '
            '(depth <= 3 quick / 4 thorough) and a 16-frame verify_df battery '
            'by every route; one dictionary object / one path used '
            'repeatedly and compared with a snapshot.  non-trivial = tdda wrote at least one text and '
            'the start has at least one constraint; distinct by start fields '
            'section (discovered) or document (hand-written)')
    assumptions = [
        'bounded: values, names and frames are those of the alphabets in '
        'mc/checks/c09.py; histories up to depth 3 (quick) / 4 (thorough); '
        '"any data" is the 16-frame battery (boundary values of the bound '
        'alphabets; epsilon 0 except 0.25 on one frame) plus value-level comparison of the written '
        'text with the input document',
        'files are written by the harness as UTF-8 bytes; tdda reads them with '
        'open(path) in a UTF-8 locale',
        'gray (never alarmed): Infinity/NaN literals vs strict JSON; date '
        'strings whose fraction is not exactly six digits or that are not '
        'YYYY-MM-DD[( |T)HH:MM:SS[.ffffff][+HH:MM|-HH:MM|Z]]; how a UTC offset '
        'is re-spelt; "#" keys among the field names '
        'with a non-dictionary value or inside a {"value":...} dictionary; '
        '"comment" inside a value dictionary; invalid type/sign/precision '
        'names (rejecting or accepting is fine, routes must agree); key and '
        'field order of the written text; whether null-valued constraints, '
        'unknown kinds and constraint-less fields are kept or dropped; '
        'creation_metadata.tddafile after a plain load by path',
        'python json module is the trusted parser; pandas 3.0.6',
    ]

    # ------------------------------------------------------------- layers
    def hashseeds(self, tier, verif_seed):
        return [verif_seed % 3]

    def layers(self, tier):
        L = [
            ('H0-single', 'hand-written: one field, one kind x value x form'),
            ('D0-column', 'discovered: one column, every family, rex off/on'),
            ('H1-ignorable', 'hand-written + one unknown kind / # key'),
            ('H2-nullkind', 'hand-written + one null-valued other kind'),
            ('H3-shape', 'names, field order, top-level shapes, metadata, '
                         'text forms'),
            ('H4-pair', 'two kinds on one field, both orders'),
            ('H5-gray', 'outside the documented format: routes must agree'),
            ('D1-frames', 'discovered: field names, many-category columns, '
                          'two-column frames'),
            ('S0-strings', 'every 2-character string over JSON-structural '
                           'characters, and JSON look-alikes, as field name, '
                           'allowed value, metadata value and expression'),
            ('W0-rewrite', 'histories: one path re-written and re-loaded '
                           '(load / verify_df / detect_df), against a fresh '
                           'path and the dictionary route'),
            ('F0-fraction', 'date bounds at every one of the 10^6 '
                            'microsecond values of one second, without and '
                            'with a UTC offset (1000 fields per document; '
                            'the offset goes round the offset alphabet)'),
            ('Z0-offsets', 'hand-written date bounds at every UTC offset '
                           'sign x {00,05,11} h x {00,15,30,45} min, and Z'),
            ('D2-offsets', 'discovered: tz-aware columns at every UTC offset '
                           'of the alphabet and in two named zones'),
            ('X0-cross', 'histories across documents: foreign documents '
                         '(extra top-level sections, unknown kinds, metadata) '
                         'used by 7 routes, then an unrelated document / '
                         'dictionary-built / constructor-built / discovered '
                         'set and objects created EARLIER are serialised and '
                         'verified; against a fresh process state'),
        ]
        if tier == 'thorough':
            L += [
                ('T0-column4', 'discovered: every other row order of the 2-3 row '
                               'columns; 4-row columns'),
                ('T1-named', 'every H0 document under every field name'),
                ('T2-triple', 'three kinds on one field, two orders'),
                ('T3-frames2', 'discovered: all ordered pairs of families'),
            ]
        return L

    def cases(self, tier, layer):
        thorough = tier == 'thorough'
        if layer == 'H0-single':
            for d in single_docs(tier):
                yield {'k': 'hand', 'doc': J(d), 'form': 'indent4'}
        elif layer == 'H1-ignorable':
            for d in ignorable_docs(tier):
                yield {'k': 'hand', 'doc': J(d), 'form': 'indent4'}
        elif layer == 'H2-nullkind':
            for d in nullkind_docs(tier):
                yield {'k': 'hand', 'doc': J(d), 'form': 'indent4'}
        elif layer == 'H3-shape':
            for d, form in shape_docs(tier):
                yield {'k': 'hand', 'doc': J(d), 'form': form}
        elif layer == 'H4-pair':
            for d in pair_docs(tier):
                yield {'k': 'hand', 'doc': J(d), 'form': 'indent4'}
        elif layer == 'H5-gray':
            for d in gray_docs(tier):
                yield {'k': 'hand', 'doc': J(d), 'form': 'indent4'}
        elif layer == 'S0-strings':
            for d, samples in string_cases(tier):
                yield {'k': 'hand', 'doc': J(d), 'form': 'indent4',
                       'samples': samples}
        elif layer == 'W0-rewrite':
            for h in rewrite_histories(tier):
                yield {'k': 'rewrite', 'hist': h}
        elif layer == 'F0-fraction':
            # the offset of the max bounds goes round the offset alphabet
            for i, start in enumerate(range(0, 1000000, FRACTION_BATCH)):
                yield {'k': 'frac', 'start': start, 'n': FRACTION_BATCH,
                       'off': UTC_OFFSETS[i % len(UTC_OFFSETS)]}
        elif layer == 'Z0-offsets':
            for d in offset_docs(tier):
                yield {'k': 'hand', 'doc': J(d), 'form': 'indent4'}
        elif layer == 'D2-offsets':
            rows = [[1], [2], [3], [1, 2], [1, 3], [2, 3], [0, 1, 3]]
            for fam in OFFSET_FAMILIES + sorted(NAMED_ZONES):
                for idxs in rows:
                    yield {'k': 'disc', 'cols': [['a', fam, idxs]], 'rex': 0}
        elif layer == 'X0-cross':
            for bi, hist in cross_histories(tier):
                yield {'k': 'cross', 'b': bi, 'hist': hist}
        elif layer == 'T1-named':
            for d in singles_named(tier):
                yield {'k': 'hand', 'doc': J(d), 'form': 'indent4'}
        elif layer == 'T2-triple':
            for d in triple_docs(tier):
                yield {'k': 'hand', 'doc': J(d), 'form': 'indent4'}
        elif layer == 'D0-column':
            # rows as multisets from 2 rows on (the discovered statistics do
            # not depend on row order; thorough adds every other order)
            for fam in FAMILY_ORDER:
                n = len(FAMILIES[fam])
                for idxs in index_tuples(n, 3, multiset_from=2):
                    for rex in ((0, 1) if fam in STRING_FAMILIES else (0,)):
                        yield {'k': 'disc', 'cols': [['a', fam, idxs]],
                               'rex': rex}
        elif layer == 'T0-column4':
            for fam in FAMILY_ORDER:
                n = len(FAMILIES[fam])
                rexes = (0, 1) if fam in STRING_FAMILIES else (0,)
                for r in (2, 3):
                    for idxs in itertools.product(range(n), repeat=r):
                        if list(idxs) != sorted(idxs):
                            for rex in rexes:
                                yield {'k': 'disc',
                                       'cols': [['a', fam, list(idxs)]],
                                       'rex': rex}
                if n <= 5:
                    for idxs in itertools.combinations_with_replacement(
                            range(n), 4):
                        for rex in rexes:
                            yield {'k': 'disc',
                                   'cols': [['a', fam, list(idxs)]],
                                   'rex': rex}
        elif layer == 'D1-frames':
            reps = [('i64', [0, 3]), ('f64x', [0, 2]), ('strobj', [4, 5]),
                    ('dtus', [1, 2]), ('bool', [0, 1])]
            for name in FIELD_NAMES[1:]:
                for fam, idxs in reps:
                    yield {'k': 'disc', 'cols': [[name, fam, idxs]],
                           'rex': 1 if fam == 'strobj' else 0}
            for n in (0, 1, 2, 19, 20, 21, 25):
                for rep in (0, 1):
                    for null in (0, 1):
                        for rex in (0, 1):
                            yield {'k': 'disc', 'cols':
                                   [['a', 'manycat', [n, rep, null]]],
                                   'rex': rex}
            fams = ['i64', 'f64x', 'strobj', 'dtus', 'boolobj', 'cat']
            for f1 in fams:
                for f2 in fams:
                    for (n1, n2) in (('b', 'a'), ('a', 'é')):
                        yield {'k': 'disc', 'cols': [[n1, f1, [1, 2]],
                                                     [n2, f2, [2, 1]]],
                               'rex': 1}
        elif layer == 'T3-frames2':
            for f1 in FAMILY_ORDER:
                for f2 in FAMILY_ORDER:
                    n1, n2 = len(FAMILIES[f1]), len(FAMILIES[f2])
                    for i1 in itertools.combinations_with_replacement(
                            range(min(n1, 2)), 2):
                        for i2 in itertools.combinations_with_replacement(
                                range(min(n2, 2)), 2):
                            yield {'k': 'disc',
                                   'cols': [['b c', f1, list(i1)],
                                            ['a', f2, list(i2)]],
                                   'rex': 1}

    # ------------------------------------------------------------- worker
    def setup_worker(self, tier):
        import warnings
        warnings.filterwarnings('ignore')
        FF.single_threaded_env()
        import pandas as pd
        import tdda.constraints.base as base
        import tdda.constraints.pd.constraints as pdc
        self.pd = pd
        self.base = base
        self.pdc = pdc
        self.src = os.path.abspath(os.environ.get('TDDA_SRC', '/repo'))
        self.tier = tier
        self.depth = 4 if tier == 'thorough' else 3
        self.oldcwd = os.getcwd()
        self.sandbox = tempfile.mkdtemp(prefix='tdda_mc_c09_', dir='/var/tmp')
        os.chdir(self.sandbox)
        self.bcols = battery_columns()
        self.bframes = {}
        self.ncase = 0
        self.cdir = '.'
        self.cross_refs = {}
        # up to here tdda has only been imported: the image the histories
        # across documents (X0) start from
        self.zygote = Zygote(self.child_cross)

    def teardown_worker(self):
        zy = getattr(self, 'zygote', None)
        if zy is not None:
            zy.close()
            self.zygote = None
        try:
            os.chdir(self.oldcwd)
        except Exception:
            pass
        sb = getattr(self, 'sandbox', None)
        if sb and os.path.isdir(sb):
            shutil.rmtree(sb, ignore_errors=True)
        self.sandbox = None

    # --------------------------------------------------- real operations
    def P(self, fname):
        """real path of a scratch file of the current case.  Every case has
        its own directory, so no path string is ever seen by tdda in two
        cases: a case behaves in a long-lived worker exactly as when it is
        replayed alone, whatever tdda may remember about paths."""
        return os.path.join(self.cdir, fname)

    def _write(self, fname, text):
        with open(self.P(fname), 'wb') as f:
            f.write(text.encode('utf-8', 'surrogatepass'))

    def apply_op(self, op, text):
        """-> ('ok', text2) | ('load', exc) | ('dump', exc)"""
        DC = self.base.DatasetConstraints
        try:
            if op == 'dict':
                d = json.loads(text)
                dc = DC()
                dc.initialize_from_dict(d)
            elif op == 'path':
                self._write('c.tdda', text)
                dc = DC(loadpath=self.P('c.tdda'))
            else:
                self._write('w.tdda', text)
                dc = DC(loadpath=self.P('w.tdda'))
        except Exception as e:
            return 'load', e
        try:
            if op == 'tddafile':
                return 'ok', dc.to_json(tddafile='w.tdda')
            return 'ok', dc.to_json()
        except Exception as e:
            return 'dump', e

    def frames_for(self, names):
        key = tuple(names)
        if key not in self.bframes:
            pd = self.pd
            out = []
            K = len(self.bcols)
            for i, (cid, col) in enumerate(self.bcols):
                data = {}
                for j, n in enumerate(names):
                    c = self.bcols[(i + 5 * j) % K][1]
                    if c is not None:
                        data[n] = c
                if not data:
                    df = pd.DataFrame({'zz_other': [1, 2]})
                else:
                    # columns of different length: pad by own index
                    df = pd.DataFrame(dict((n, c.reset_index(drop=True))
                                           for n, c in data.items()))
                out.append((cid, df))
            self.bframes[key] = out
        return self.bframes[key]

    def verdicts(self, route, arg, names, samples=None):
        """[(frame id, verdict map | 'EXC:Type')] for one route.
        route: 'dict' (arg = dictionary), 'path' (arg = text),
        'object' (arg = DatasetConstraints).  The dictionary route hands
        the SAME dictionary object to every call (as a caller holding one
        in-memory dictionary does); self.dict_damage says how it differs
        from its snapshot afterwards (None = untouched)."""
        out = []
        self.dict_damage = None
        if route == 'path':
            self._write('v.tdda', arg)
        if route == 'dict':
            thedict = json.loads(json.dumps(arg))
            before = snapshot(thedict)
        frames = self.frames_for(names)
        if samples:
            frames = frames + [('own', self.pd.DataFrame(dict(
                (n, self.pd.Series(list(samples), dtype=object))
                for n in names)))]
        for cid, df in frames:
            d = df.copy()
            eps = EPSILON if cid == 'ffuzz' else None
            try:
                if route == 'dict':
                    v = self.pdc.verify_df(d, thedict, epsilon=eps)
                elif route == 'path':
                    v = self.pdc.verify_df(d, self.P('v.tdda'), epsilon=eps)
                else:
                    pdv = self.pdc.PandasConstraintVerifier(
                        d, epsilon=eps, type_checking=None)
                    pdv.repair_field_types(arg)
                    v = pdv.verify(arg, VerificationClass=self.pdc.
                                   PandasVerification, report='all')
                m = {}
                for f, fr in v.fields.items():
                    m[f] = dict((k, plain(s)) for k, s in fr.items())
                out.append((cid, {'fields': m, 'passes': int(v.passes),
                                  'failures': int(v.failures)}))
            except Exception as e:
                out.append((cid, 'EXC:' + type(e).__name__))
        if route == 'dict':
            self.dict_damage = snapshot_diff(before, snapshot(thedict))
        return out

    # ------------------------------------------------------------ run_case
    def run_case(self, case):
        R = Res()
        buf_o, buf_e = io.StringIO(), io.StringIO()
        with contextlib.redirect_stdout(buf_o), \
                contextlib.redirect_stderr(buf_e):
            self.ncase += 1
            self.cdir = 'k%d' % self.ncase
            os.mkdir(self.cdir)
            try:
                if case['k'] == 'hand':
                    self.run_hand(R, case)
                elif case['k'] == 'rewrite':
                    self.run_rewrite(R, case)
                elif case['k'] == 'frac':
                    self.run_fraction(R, case)
                elif case['k'] == 'cross':
                    self.run_cross(R, case)
                else:
                    self.run_disc(R, case)
            finally:
                shutil.rmtree(self.cdir, ignore_errors=True)
                self.cdir = '.'
        # one report per signature and case
        seen, vs = set(), []
        for v in R.violations:
            if v['sig'] not in seen:
                seen.add(v['sig'])
                vs.append(v)
        R.violations = vs
        return R

    # ---- E3 ------------------------------------------------------------
    def explore(self, R, start, handwritten, doc, cls, ctx):
        """BFS over texts.  Returns dict(first=first tdda-written text or
        None, start_loadable=bool, rejected=bool)."""
        OPS = ('dict', 'path', 'tddafile')
        seen = {start: 0}
        frontier = [start]
        sections = {}       # fields section -> example (op, depth)
        valid = True
        first = None
        start_results = {}
        start_sections = {}
        R.states += 1
        while frontier:
            T = frontier.pop(0)
            depth = seen[T]
            written = (depth > 0) or not handwritten
            if depth >= self.depth:
                R.viol('closure:not-closed-at-depth-%d' % self.depth,
                       'search-closes', {'start': start[:400]},
                       {'depth': depth})
                break
            Thead, Tsec = spec.split_fields_section(T) if written \
                else (None, None)
            Tmeta = None
            if written:
                try:
                    Tmeta = json.loads(T).get('creation_metadata')
                except ValueError:
                    Tmeta = None
            for op in OPS:
                kind, res = self.apply_op(op, T)
                R.ev()
                if depth == 0:
                    start_results[op] = (kind, type(res).__name__
                                         if kind != 'ok' else None)
                if kind != 'ok':
                    es = exc_sig(res, self.src)
                    R.out('%s-raises:%s' % (kind, type(res).__name__))
                    if depth == 0 and handwritten and cls != 'doc' \
                            and kind == 'load':
                        continue        # gray document rejected: allowed
                    R.viol('raises:%s:%s' % (kind, es),
                           'loads-and-writes-without-raising'
                           if written or cls == 'doc'
                           else 'accepted-document-can-be-written',
                           {'op': op, 'depth': depth, 'text': T[:600],
                            'exception': repr(res)[:300]},
                           {'op': op, 'depth': depth})
                    continue
                T2 = res
                if first is None:
                    first = T2
                # -- validity of every written text
                probs, parsed, nonfinite = spec.text_problems(T2)
                if nonfinite:
                    R.unspec += 1
                if probs:
                    valid = False
                for (clause, detail) in probs:
                    feat = 'line-separator' if has_linesep(T) or \
                        has_linesep(ctx.get('values')) else 'other'
                    detail = dict(detail, op=op, depth=depth, input=T[:400],
                                  written=T2[:400])
                    R.viol('text:%s:%s' % (clause, feat), 'text-' + clause,
                           detail, {'op': op, 'depth': depth})
                h2, s2 = spec.split_fields_section(T2)
                if s2 is None:
                    R.viol('text:no-fields-section', 'text-has-fields',
                           {'written': T2[:400]}, {'op': op, 'depth': depth})
                    continue
                sections.setdefault(s2, (op, depth))
                if depth == 0:
                    start_sections[op] = s2
                # -- fixpoint on tdda-written texts
                if written and Tsec is not None:
                    if s2 != Tsec:
                        dcls, dfield = self.diff_class(Tsec, s2)
                        tag = ctx.get('tag', '-')
                        if 'famof' in ctx:      # discovered: the family of
                            tag = 'discovered-' + ctx['famof'].get(   # the
                                dfield, tag)    # column that changed
                        R.viol('fixpoint:%s:%s' % (dcls, tag),
                               'reload-rewrites-identical-fields-text',
                               {'op': op, 'depth': depth, 'before': Tsec[:500],
                                'after': s2[:500]}, {'op': op, 'depth': depth})
                    meta2 = parsed.get('creation_metadata') \
                        if isinstance(parsed, dict) else None
                    m1 = dict(Tmeta or {})
                    m2 = dict(meta2 or {})
                    had_tddafile = 'tddafile' in m1
                    if op == 'tddafile':
                        if m2.get('tddafile') != 'w.tdda':
                            R.viol('metadata:tddafile-not-recorded',
                                   'to_json-tddafile-recorded',
                                   {'meta': m2}, {'op': op, 'depth': depth})
                        m1.pop('tddafile', None)
                        m2.pop('tddafile', None)
                    elif op == 'path' and not had_tddafile:
                        m2.pop('tddafile', None)      # unspecified
                    if m1 != m2:
                        R.viol('metadata:changed:%s' % op,
                               'metadata-carried-unchanged',
                               {'before': m1, 'after': m2},
                               {'op': op, 'depth': depth})
                    must_be_identical = (
                        op == 'dict' or
                        (op == 'path' and had_tddafile) or
                        (op == 'tddafile' and
                         (Tmeta or {}).get('tddafile') == 'w.tdda'))
                    if must_be_identical and T2 != T and s2 == Tsec \
                            and m1 == m2:
                        R.viol('fulltext:%s' % op, 'full-text-identical',
                               {'before': T[:500], 'after': T2[:500]},
                               {'op': op, 'depth': depth})
                if T2 not in seen:
                    seen[T2] = depth + 1
                    R.states += 1
                    if parsed is not None:
                        frontier.append(T2)
        if len(sections) > 1:
            R.out('sections:%d' % len(sections))
        # route agreement on the start text
        kinds = set(start_results.values())
        if len(kinds) > 1:
            R.viol('routes-disagree:%s' % '/'.join(
                '%s=%s' % (op, start_results[op][1] or 'ok')
                for op in OPS), 'path-dict-reserialised-behave-the-same',
                {'start': start[:500], 'results': dict(
                    (op, list(v)) for op, v in start_results.items())})
        if len(set(start_sections.values())) > 1:
            base = start_sections.get('dict')
            other = [op for op in OPS if op in start_sections
                     and start_sections[op] != base]
            if base is not None and other:
                dcls, dfield = self.diff_class(base, start_sections[other[0]])
                # the later re-writes merely inherit this difference
                R.violations = [v for v in R.violations
                                if not v['sig'].startswith('fixpoint:')]
                R.viol('routes-disagree:text:dict!=%s:%s' % (other[0], dcls),
                       'path-dict-reserialised-behave-the-same',
                       {'start': start[:500], 'dict': base[:400],
                        other[0]: start_sections[other[0]][:400]})
        rejected = all(k[0] == 'load' for k in start_results.values())
        R.out('states:%d' % len(seen))
        return {'first': first, 'rejected': rejected,
                'loadable': all(k[0] == 'ok' for k in start_results.values()),
                'sections': len(sections), 'valid': valid}

    @staticmethod
    def diff_class(sec_a, sec_b):
        """(root-cause class of a difference between two fields sections,
        name of the first field that differs or None)"""
        try:
            a = json.loads('{' + sec_a)['fields']
            b = json.loads('{' + sec_b)['fields']
        except ValueError:
            return 'unparseable', None
        if a == b:
            if list(a) != list(b):
                return 'field-order', None
            return 'key-order-or-spelling', None
        if set(a) != set(b):
            return 'field-set', None
        out = []
        first = None
        for f in a:
            if first is None and (a[f] != b[f] or
                                  json.dumps(a[f]) != json.dumps(b[f])):
                first = f
            if set(a[f]) != set(b[f]):
                out.append('kinds:' + ','.join(sorted(set(a[f]) ^ set(b[f]))))
                continue
            for k in a[f]:
                if a[f][k] != b[f][k] or \
                        json.dumps(a[f][k]) != json.dumps(b[f][k]):
                    out.append('%s:%s->%s' % (
                        bk(k), value_class(a[f][k]).split('+')[0],
                        value_class(b[f][k]).split('+')[0].split('@')[0]))
        return ';'.join(sorted(set(out))[:3]) or 'other', first

    # ---- hand-written start -------------------------------------------
    def run_hand(self, R, case):
        doc = json.loads(case['doc'])
        form = case['form']
        cls, reason = spec.classify(doc)
        T0 = render(doc, form)
        fields = doc.get('fields') if isinstance(doc, dict) else None
        names = [n for n in fields] if isinstance(fields, dict) else []
        R.key = 'hand:' + form + ':' + case['doc']
        tag = 'hand'
        if isinstance(fields, dict) and any(
                isinstance(fc, dict) and isinstance(fc.get('type'), dict)
                for fc in fields.values()):
            tag = 'hand-type-in-dict-form'
        info = self.explore(R, T0, True, doc, cls, {'values': doc,
                                                    'tag': tag})
        if cls != 'doc':
            R.unspec += 1
            R.out('gray:%s:%s' % (reason, 'rejected' if info['rejected']
                                  else 'accepted'))
        if info['first'] is None or not info['loadable']:
            R.out('no-text')
            self.reuse(R, doc, T0, names or ['a'])
            return
        T1 = info['first']
        nexp = len(spec.expected_constraints(doc))
        R.nontrivial = nexp > 0
        # -- what the first written text must still say
        try:
            w = json.loads(T1)
        except ValueError:
            w = None
        if w is not None and cls == 'doc':
            probs, uns = spec.compare_written(doc, w)
            R.unspec += uns
            for (clause, d) in probs:
                k = d.get('kind')
                vc = ''
                if k and isinstance(fields, dict) and \
                        d.get('field') in fields and \
                        isinstance(fields[d['field']], dict) and \
                        k in fields[d['field']]:
                    vc = value_class(fields[d['field']][k])
                lost = clause in ('constraint-kept', 'constraint-invented')
                if lost and spec.has_ignorable(doc):
                    what = 'document-with-ignorable-key'
                elif lost and spec.has_nulls(doc):
                    what = 'document-with-null-valued-kind'
                else:
                    what = '%s:%s' % (bk(k), vc.split('+')[0])
                R.viol('content:%s:%s' % (clause, what),
                       'written-text-' + clause,
                       dict(d, input=T0[:500], written=T1[:500]))
        R.out('written:%d-constraints' % nexp)
        # -- the verdict battery
        if not names:
            names = ['a']
        names = names[:2]
        samples = case.get('samples')
        intact = self.reuse(R, doc, T0, names)
        A = self.verdicts('dict', doc, names, samples)
        damaged = self.dict_damage
        if not intact:
            return
        if damaged:
            # everything after the first call saw a different dictionary:
            # comparing those verdicts would only repeat this finding
            R.viol('caller-dict-modified:verify_df:%s' % damaged[1],
                   'callers-dictionary-is-not-modified',
                   {'where': damaged[0], 'what': damaged[1],
                    'input': T0[:500]})
            return
        B = self.verdicts('path', T0, names, samples)
        n = len(A)
        R.ev(2 * n, checked=n)
        self.compare_routes(R, 'dict', A, 'path', B, doc, T0, T1)
        if info['sections'] == 1 and info['valid'] and not R.violations:
            C = self.verdicts('path', T1, names, samples)
            R.ev(n)
            self.compare_routes(R, 'dict', A, 'reserialised', C, doc, T0, T1,
                                roottag=tag if tag != 'hand' else None)
        else:
            # the re-serialised text is already reported as unstable,
            # invalid or unloadable: its verdicts would only repeat that
            R.out('battery:reserialised-skipped')
        if spec.has_ignorable(doc):
            E = self.verdicts('dict', spec.strip_ignorable(doc), names,
                              samples)
            R.ev(n)
            # the root cause is the ignorable key, whichever constraint of
            # the document is the victim
            self.compare_routes(R, 'dict', A, 'ignorable-removed', E, doc,
                                T0, T1, known_only=True,
                                roottag=ignorable_class(doc))
        if spec.has_nulls(doc):
            nn = spec.strip_nulls(doc)
            N = self.verdicts('dict', nn, names, samples)
            R.ev(n)
            self.compare_routes(R, 'dict', A, 'nulls-removed', N, doc, T0,
                                T1, drop_null_kinds=True)
        for cid, m in A:
            if isinstance(m, str):
                R.out('verify:' + m)
            else:
                R.out('verdicts:p%d-f%d' % (m['passes'], m['failures']))

    # ---- the same dictionary / the same path used more than once ---------
    def reuse(self, R, doc, T0, names):
        """One dictionary object handed to initialize_from_dict twice, then
        to verify_df, detect_df, verify_df; one path loaded twice.  Clauses:
        the caller's dictionary is not modified; a second use gives what the
        first gave; loading does not change the file."""
        DC = self.base.DatasetConstraints
        names = (names or ['a'])[:2]
        thedict = json.loads(json.dumps(doc))
        before = snapshot(thedict)

        def unchanged(api):
            dmg = snapshot_diff(before, snapshot(thedict))
            if dmg:
                R.viol('caller-dict-modified:%s:%s' % (api, dmg[1]),
                       'callers-dictionary-is-not-modified',
                       {'api': api, 'where': dmg[0], 'what': dmg[1],
                        'input': T0[:500]})
            return not dmg

        def init():
            try:
                dc = DC()
                dc.initialize_from_dict(thedict)
                return 'ok', dc.to_json()
            except Exception as e:
                return 'raises', type(e).__name__

        r1 = init()
        ok = unchanged('initialize_from_dict')
        r2 = init()
        R.ev(2)
        if ok and r1 != r2:
            R.viol('second-use-differs:initialize_from_dict',
                   'second-use-of-a-dictionary-gives-the-same',
                   {'first': list(r1)[:2], 'second': list(r2)[:2],
                    'input': T0[:500]})
        # the same content as another mapping type (what json gives with
        # object_pairs_hook=OrderedDict): an equivalent form of the argument
        if ok:
            try:
                dc = DC()
                dc.initialize_from_dict(json.loads(
                    json.dumps(doc), object_pairs_hook=collections.OrderedDict))
                r3 = ('ok', dc.to_json())
            except Exception as e:
                r3 = ('raises', type(e).__name__)
            R.ev()
            if r3 != r1:
                R.viol('argument-form:initialize_from_dict:OrderedDict',
                       'equivalent-forms-of-the-argument-give-the-same',
                       {'dict': list(r1)[:2], 'OrderedDict': list(r3)[:2],
                        'input': T0[:500]})
        if not ok:
            return False
        # verify_df, detect_df, verify_df with the same dictionary object
        frame = self.frames_for(names)[0][1]

        def ver(fn):
            try:
                v = fn(frame.copy(), thedict)
                return dict((f, dict((k, plain(x)) for k, x in fr.items()))
                            for f, fr in v.fields.items())
            except Exception as e:
                return 'EXC:' + type(e).__name__
        v1 = ver(self.pdc.verify_df)
        ok = unchanged('verify_df')
        ver(self.pdc.detect_df)
        ok = ok and unchanged('detect_df')
        v2 = ver(self.pdc.verify_df)
        R.ev(3)
        if ok and v1 != v2:
            R.viol('second-use-differs:verify_df',
                   'second-use-of-a-dictionary-gives-the-same',
                   {'first': v1, 'second': v2, 'input': T0[:500]})
        # the same path loaded twice; the file is only read
        self._write('p.tdda', T0)
        with open(self.P('p.tdda'), 'rb') as f:
            bytes0 = f.read()

        def load():
            try:
                return 'ok', spec.split_fields_section(
                    DC(loadpath=self.P('p.tdda')).to_json())[1]
            except Exception as e:
                return 'raises', type(e).__name__
        p1, p2 = load(), load()
        R.ev(2)
        with open(self.P('p.tdda'), 'rb') as f:
            bytes1 = f.read()
        if p1 != p2:
            R.viol('second-use-differs:load-by-path',
                   'second-load-of-a-path-gives-the-same',
                   {'first': list(p1), 'second': list(p2),
                    'input': T0[:500]})
        if bytes0 != bytes1:
            R.viol('file-modified-by-load', 'loading-does-not-write',
                   {'input': T0[:500]})
        # the path as str and as pathlib.Path: equivalent forms
        ps = ver(lambda df, _: self.pdc.verify_df(df, self.P('p.tdda')))
        pp = ver(lambda df, _: self.pdc.verify_df(
            df, pathlib.Path(self.P('p.tdda'))))
        R.ev(2)
        if ps != pp:
            R.viol('argument-form:verify_df:pathlib.Path',
                   'equivalent-forms-of-the-argument-give-the-same',
                   {'str': ps, 'Path': pp, 'input': T0[:500]})
        return ok

    # ---- rewrite histories (E3, differential) --------------------------
    def run_rewrite(self, R, case):
        """History of (write document d to THE path, load it by kind k).
        After every step the observation must equal (i) the same load of the
        same content from a path never used before, and (ii) for kind
        'load', the dictionary route - i.e. what a fresh process would see:
        only the current content of the file counts."""
        pd = self.pd
        DC = self.base.DatasetConstraints
        frame = pd.DataFrame({'a': pd.Series([1, 2, 3], dtype='int64')})
        R.nontrivial = len(set(d for d, k in case['hist'])) > 1
        R.states += 1

        def observe(kind, path):
            try:
                if kind == 'load':
                    return spec.split_fields_section(
                        DC(loadpath=path).to_json())[1]
                fn = self.pdc.verify_df if kind == 'verify' \
                    else self.pdc.detect_df
                v = fn(frame.copy(), path)
                return dict((f, dict((k, plain(x)) for k, x in fr.items()))
                            for f, fr in v.fields.items())
            except Exception as e:
                return 'EXC:' + type(e).__name__
        for i, (di, ki) in enumerate(case['hist']):
            kind = LOAD_KINDS[ki]
            text = render(REWRITE_DOCS[di], 'indent4')
            self._write('rw.tdda', text)
            got = observe(kind, self.P('rw.tdda'))
            self._write('fresh%d.tdda' % i, text)
            want = observe(kind, self.P('fresh%d.tdda' % i))
            R.ev(2, checked=1)
            R.states += 1
            ok = got == want
            R.out('rewrite:%s:%s' % (kind, 'current' if ok else 'STALE'))
            if not ok:
                R.viol('rewrite:stale:%s' % kind,
                       'a-rewritten-path-loads-its-current-content',
                       {'step': i, 'history': [[d, LOAD_KINDS[k]]
                                               for d, k in case['hist']],
                        'file-now': text[:300], 'observed': got,
                        'fresh-path': want}, {'step': i})
                return
            if kind == 'load':
                dc = DC()
                dc.initialize_from_dict(json.loads(text))
                viadict = spec.split_fields_section(dc.to_json())[1]
                R.ev()
                if got != viadict:
                    # not a matter of history: the path route itself reads
                    # this content differently from the dictionary route
                    R.viol('routes-disagree:text:dict!=path:%s' %
                           self.diff_class(viadict, got)[0]
                           if isinstance(got, str) else 'raises',
                           'path-dict-reserialised-behave-the-same',
                           {'file': text[:300], 'dict': viadict[:300],
                            'path': got}, {'step': i})
                    return

    # ---- histories across different documents and objects (E3) ----------
    def child_cross(self, req):
        """Runs in a process that has imported tdda and never called it.
        Creates constraint-set objects for document B (loaded by path, from
        a dictionary, built through the constructors, discovered), then uses
        the foreign documents of the history by their routes, then observes:
        the EARLIER objects again, and B afresh by every route.  Returns
        {observation: text | verdict map | 'EXC:Type'}."""
        buf = io.StringIO()
        with contextlib.redirect_stdout(buf), contextlib.redirect_stderr(buf):
            return self._child_cross(req)

    def _child_cross(self, req):
        pd = self.pd
        base = self.base
        DC = base.DatasetConstraints
        os.chdir(req['cdir'])
        B = req['B']
        TB = render(B, 'indent4')
        with open('b.tdda', 'wb') as f:
            f.write(TB.encode('utf-8'))
        frame = pd.DataFrame({'a': pd.Series([1, 2, 5], dtype='int64'),
                              'b': pd.Series(['x', 'x', 'q'], dtype=object)})

        def guarded(fn):
            try:
                return fn()
            except Exception as e:
                return 'EXC:' + type(e).__name__

        def text(dc, **kw):
            return guarded(lambda: mask_times(dc.to_json(**kw)))

        def from_dict():
            dc = DC()
            dc.initialize_from_dict(json.loads(TB))
            return dc

        def built():
            fcs = []
            for name, fc in B['fields'].items():
                cs = [getattr(base, API_CLASSES[k])(v) for k, v in fc.items()
                      if k in API_CLASSES]
                fcs.append(base.FieldConstraints(name, cs))
            return DC(fcs)

        def verdicts(fn, arg):
            def run():
                v = fn(frame.copy(), arg)
                return json.dumps(
                    [[f, [[k, plain(x)] for k, x in fr.items()]]
                     for f, fr in v.fields.items()] +
                    [int(v.passes), int(v.failures)])
            return guarded(run)

        makers = [('loaded', lambda: DC(loadpath='b.tdda')),
                  ('from-dict', from_dict), ('built', built),
                  ('discovered',
                   lambda: self.pdc.discover_df(frame.copy(), inc_rex=True))]
        obs = {}
        early = {}
        for name, mk in makers:
            try:
                early[name] = mk()
            except Exception as e:
                early[name] = None
                obs['early-pre:' + name] = 'EXC:' + type(e).__name__
                continue
            obs['early-pre:' + name] = text(early[name])
        # ---- the history: foreign documents used by their routes
        outcomes = []
        for i, (A, route) in enumerate(req['hist']):
            fname = 'a%d.tdda' % i
            with open(fname, 'wb') as f:
                f.write(render(A, 'indent4').encode('utf-8'))
            adict = json.loads(json.dumps(A))

            def step():
                if route == 'load':
                    DC(loadpath=fname)
                elif route == 'load+write':
                    t = DC(loadpath=fname).to_json(tddafile=fname)
                    with open(fname, 'wb') as f:
                        f.write(t.encode('utf-8'))
                elif route == 'dict':
                    DC().initialize_from_dict(adict)
                elif route == 'verify-path':
                    self.pdc.verify_df(frame.copy(), fname)
                elif route == 'verify-dict':
                    self.pdc.verify_df(frame.copy(), adict)
                elif route == 'detect-path':
                    self.pdc.detect_df(frame.copy(), fname)
                elif route == 'detect-dict':
                    self.pdc.detect_df(frame.copy(), adict)
                else:
                    raise ValueError(route)
                return 'ok'
            outcomes.append(guarded(step))
        obs['#history'] = outcomes
        # ---- afterwards
        for name, mk in makers:
            if early[name] is not None:
                obs['early:' + name] = text(early[name])
            obs['new:' + name] = guarded(lambda: text(mk()))
        obs['new:loaded-tddafile'] = guarded(
            lambda: text(DC(loadpath='b.tdda'), tddafile='b.tdda'))
        obs['new:to_dict'] = guarded(lambda: mask_times(json.dumps(
            DC(loadpath='b.tdda').to_dict(), default=str)))
        obs['verdicts:verify-path'] = verdicts(self.pdc.verify_df, 'b.tdda')
        obs['verdicts:verify-dict'] = verdicts(self.pdc.verify_df,
                                               json.loads(TB))
        obs['verdicts:detect-path'] = verdicts(self.pdc.detect_df, 'b.tdda')
        with open('b.tdda', 'rb') as f:
            obs['file:b.tdda'] = f.read().decode('utf-8')
        return obs

    @staticmethod
    def cross_diff_class(a, b):
        """what differs between two observations (texts or verdict lists)"""
        if not (isinstance(a, str) and isinstance(b, str)):
            return 'other'
        if a.startswith('EXC:') or b.startswith('EXC:'):
            return 'raises'
        try:
            da, db = json.loads(a), json.loads(b)
        except ValueError:
            return 'text'
        if not (isinstance(da, dict) and isinstance(db, dict)):
            return 'verdicts'
        if set(da) != set(db):
            # (which keys: see the detail; one root cause, one signature)
            return 'top-level-sections'
        if da.get('creation_metadata') != db.get('creation_metadata'):
            return 'metadata'
        if da.get('fields') != db.get('fields'):
            return 'fields'
        if da != db:
            return 'top-level-sections'
        return 'spelling-or-order'

    def cross_call(self, R, sub, B, hist):
        d = os.path.abspath(os.path.join(self.cdir, sub))
        os.mkdir(d)
        payload = self.zygote.call({'cdir': d, 'B': B, 'hist': hist})
        R.ev(len(hist) + 20)
        if payload[0] == 'escaped':
            R.viol('uncaught:%s' % payload[1], 'no-internal-error',
                   {'exception': payload[2], 'traceback': payload[3]})
            return None
        return payload[1]

    def run_cross(self, R, case):
        """History across documents: foreign documents A1..An are used by
        their routes, then document B and objects made from it BEFORE the
        history are serialised / verified.  Clauses: (same-object) an object
        created earlier serialises after the history to the text it
        serialised to before; (fresh-state) every observation of B after the
        history equals the observation from a process in which the foreign
        documents were never used."""
        bi = case['b']
        B = OWN_DOCS[bi]
        hist = [[FOREIGN_DOCS[ai], r] for ai, r in case['hist']]
        R.key = 'cross:' + json.dumps([bi, case['hist']])
        R.nontrivial = True
        R.states += 1 + len(hist)
        if bi not in self.cross_refs:
            ref = self.cross_call(R, 'ref', B, [])
            if ref is None:
                return
            self.cross_refs[bi] = ref
        ref = self.cross_refs[bi]
        got = self.cross_call(R, 'run', B, hist)
        if got is None:
            return
        for o in got['#history']:
            R.out('foreign-use:' + o)
        hdesc = [[r, list(FOREIGN_DOCS[ai])] for ai, r in case['hist']]
        # -- the same object before and after
        bad = [k[6:] for k in got if k.startswith('early:')
               and got[k] != got.get('early-pre:' + k[6:])]
        if bad:
            k = bad[0]
            R.viol('cross-document:same-object:%s' % self.cross_diff_class(
                got['early-pre:' + k], got['early:' + k]),
                'an-object-serialises-the-same-after-other-documents-were-used',
                {'history': hdesc, 'objects': bad,
                 'before': got['early-pre:' + k][:600],
                 'after': got['early:' + k][:600]})
        # -- against the fresh state
        bad = [k for k in ref if k != '#history' and got.get(k) != ref[k]]
        R.checked += len(ref) - 1
        if bad:
            k = bad[0]
            R.viol('cross-document:fresh-state:%s' % self.cross_diff_class(
                ref[k], got.get(k)),
                'same-result-as-from-a-fresh-process-state',
                {'history': hdesc, 'observations': bad,
                 'fresh': str(ref[k])[:600],
                 'after-history': str(got.get(k))[:600]})
        R.out('cross:%s' % ('same' if not R.violations else 'DIFFERENT'))

    # ---- every microsecond ---------------------------------------------
    def run_fraction(self, R, case):
        """n date-typed fields; field i has min = base.ffffff and max = the
        same with a UTC offset (case['off']), ffffff = start+i: all in the
        spelling Python writes a datetime in.  One load + to_json must keep every instant
        (model: spec.parse_instant) and the text it wrote must reload to
        itself."""
        DC = self.base.DatasetConstraints
        fields = {}
        off = case.get('off', '+05:30')
        for us in range(case['start'], case['start'] + case['n']):
            frac = ('.%06d' % us) if us else ''
            fields['f%06d' % us] = {
                'type': 'date', 'min': FRACTION_BASE + frac,
                'max': FRACTION_BASE + frac + off}
        T0 = render({'fields': fields}, 'indent4')
        R.nontrivial = True
        R.states += 1
        dc = DC()
        dc.initialize_from_dict(json.loads(T0))
        T1 = dc.to_json()
        R.ev(1, checked=2 * case['n'])
        if T1 == T0:
            # identical text: same instants, and reloading it is reloading T0
            R.out('fractions:text-identical')
            return
        R.out('fractions:text-differs')
        bad = []
        w = json.loads(T1).get('fields') or {}
        for name, fc in fields.items():
            for kind in ('min', 'max'):
                wv = spec.constraint_value(w.get(name, {}).get(kind))[0]
                r = spec.same_value(kind, fc[kind], wv, True)
                if r is spec.UNSPEC:
                    R.unspec += 1
                elif not r:
                    bad.append([fc[kind], wv])
        if bad:
            offs = sorted(set('with-offset' + tz_class(b[0])
                              if tz_class(b[0]) else 'naive' for b in bad))
            R.viol('content:value-kept:bound:date-fraction:%s' %
                   '+'.join(offs), 'written-text-value-kept',
                   {'n_changed': len(bad), 'examples': bad[:6]})
            return
        dc2 = DC()
        dc2.initialize_from_dict(json.loads(T1))
        T2 = dc2.to_json()
        R.ev()
        if T2 != T1:
            R.viol('fixpoint:bound:date-fraction',
                   'reload-rewrites-identical-fields-text',
                   {'n': case['n'], 'start': case['start']})

    def compare_routes(self, R, na, A, nb, B, doc, T0, T1, known_only=False,
                       drop_null_kinds=False, lenient_raises=False,
                       sigtail=None, roottag=None):
        """Compare two routes' verdicts frame by frame; report ONE violation
        (preferring a frame where both routes gave verdicts).  With
        lenient_raises a frame on which either route raised has no verdict to
        compare and is counted as unspecified.  Returns True if equal."""
        fields = (doc.get('fields') if isinstance(doc, dict) else None) or {}
        best = None
        for (cid, ma), (_, mb) in zip(A, B):
            if isinstance(ma, str) or isinstance(mb, str):
                if ma != mb:
                    if lenient_raises:
                        R.unspec += 1
                    elif best is None:
                        best = (cid, None, 'raises', ma, mb)
                continue
            fa, fb = ma['fields'], mb['fields']
            diff = None
            for f in list(fa) + [x for x in fb if x not in fa]:
                ka = dict(fa.get(f, {}))
                kb = dict(fb.get(f, {}))
                if known_only:
                    ka = dict((k, v) for k, v in ka.items()
                              if k in spec.KNOWN_KINDS)
                    kb = dict((k, v) for k, v in kb.items()
                              if k in spec.KNOWN_KINDS)
                if drop_null_kinds:
                    fc = fields.get(f) if isinstance(fields.get(f), dict) \
                        else {}
                    for k in list(ka):
                        if k in fc and spec.is_null_valued(fc[k]):
                            del ka[k]
                for k in list(ka) + [x for x in kb if x not in ka]:
                    if ka.get(k, 'absent') != kb.get(k, 'absent'):
                        diff = (f, k, ka.get(k, 'absent'),
                                kb.get(k, 'absent'))
                        break
                if diff:
                    break
            if diff is None and not known_only and not drop_null_kinds:
                if (ma['passes'], ma['failures']) != \
                        (mb['passes'], mb['failures']):
                    diff = ('*', 'totals', [ma['passes'], ma['failures']],
                            [mb['passes'], mb['failures']])
            if diff:
                best = (cid,) + diff
                break
        if best is None:
            return True
        cid, f, k, va, vb = best
        fc = fields.get(f) if isinstance(fields.get(f), dict) else {}
        if sigtail is None:
            tail = value_class(fc[k]).split('+')[0] if k in fc else '-'
        else:
            # discovered start: name the family of the column concerned
            tail = 'discovered-' + sigtail.get(
                f, '+'.join(sorted(set(sigtail.values()))))
        sig = 'verdict:%s!=%s:%s:%s' % (na, nb, bk(k), tail)
        if roottag:
            # the document carries a feature that is a root cause of its own
            sig = 'verdict:%s!=%s:%s' % (na, nb, roottag)
        R.viol(sig,
               'identical-verdicts-by-every-route',
               {'frame': cid, 'field': f, 'kind': k, na: va, nb: vb,
                'input': T0[:600], 'written': (T1 or '')[:500]},
               {'frame': cid})
        return False

    # ---- discovered start ----------------------------------------------
    def run_disc(self, R, case):
        pd = self.pd
        data = {}
        for (name, fam, idxs) in case['cols']:
            if fam == 'manycat':
                data[name] = manycat_column(*idxs)
            else:
                data[name] = build_column(fam, idxs)
        df = pd.DataFrame(dict((k, c.reset_index(drop=True))
                               for k, c in data.items()))
        names = list(data)
        try:
            C0 = self.pdc.discover_df(df.copy(), inc_rex=bool(case['rex']))
        except Exception as e:
            # discovery itself failing is C01's business, not a round trip
            R.ev()
            R.out('discover-raises:%s' % type(e).__name__)
            R.unspec += 1
            return
        R.ev()
        if C0 is None:
            R.out('discover-none')
            return
        try:
            T0 = C0.to_json()
        except Exception as e:
            R.viol('raises:dump:%s' % exc_sig(e, self.src),
                   'discovered-set-can-be-written',
                   {'case': case, 'exception': repr(e)[:300]})
            return
        # validity of the start text itself (tdda wrote it)
        probs, parsed, nonfinite = spec.text_problems(T0)
        if nonfinite:
            R.unspec += 1
        vals = [FAMILIES[f][i] for (_, f, ix) in case['cols']
                if f != 'manycat' for i in ix] + names
        for (clause, detail) in probs:
            feat = 'line-separator' if has_linesep(vals) else 'other'
            R.viol('text:%s:%s' % (clause, feat), 'text-' + clause,
                   dict(detail, written=T0[:500]), {'op': 'discover'})
        h, s = spec.split_fields_section(T0)
        R.key = 'disc:%d:%s' % (case['rex'], s)
        R.nontrivial = True
        R.out('discovered:%s' % '+'.join(
            sorted(set(k for fc in C0.fields.values()
                       for k in fc.constraints))))
        if parsed is None:
            return
        famof = dict((n, family_tag(f)) for (n, f, _) in case['cols'])
        fam = '+'.join(sorted(set(famof.values())))
        info = self.explore(R, T0, False, None, 'doc',
                            {'values': vals, 'tag': fam, 'famof': famof})
        # (explore compares every re-write with its input, the start text
        # included: a discovered set must be re-written identically at once)
        O = self.verdicts('object', C0, names[:2])
        B = self.verdicts('path', T0, names[:2])
        A = self.verdicts('dict', parsed, names[:2])
        k = len(O)
        R.ev(3 * k, checked=3 * k)
        if self.compare_routes(R, 'object', O, 'path', B, None, T0, None,
                               lenient_raises=True,
                               sigtail=famof):
            self.compare_routes(R, 'object', O, 'dict', A, None, T0, None,
                                lenient_raises=True,
                                sigtail=famof)
        self.compare_routes(R, 'path', B, 'dict', A, None, T0, None,
                            sigtail=famof)
        for cid, m in O:
            if isinstance(m, str):
                R.out('verify:' + m)
            else:
                R.out('verdicts:p%d-f%d' % (m['passes'], m['failures']))


CHECK = C09()
