"""
C14 - rexpy results depend only on the multiset of examples and the seed.

Four explorations of the REAL tdda.rexpy code (DESIGN.md 4/C14):

 (a) E1  every example set up to size 3 (quick) / 4 (thorough): all
         permutations, list / frequency dict / zero-count dict / pandas
         Series (object, categorical, two columns) forms, every element
         repeated, repeated call, seeded call: identical list of expressions.
 (b) E3  BFS over histories of extract() calls that share the module-level
         regex memo (and the global generator): extract(X) after any history
         == extract(X) from a cleared memo.
 (c) seed / PRNG clause on inputs that reach sampling: with the real `random`
         (two pre-states, repeats: same result, getstate() unchanged) and with
         FakeRandom (E2, every answer of every sample() call: each draw lies
         inside a save / seed(n) / restore bracket).
 (d) PYTHONHASHSEED in {0,1,2}: the same jobs in three child interpreters must
         give identical results.

The oracle is purely differential / invariant: no rexpy output is predicted.
"""
import contextlib
import io
import itertools
import json
import os
import subprocess
import sys

from mc.engine import Check, Res, explore_choices, VERIF
from mc import rex14_alphabet as AB

# ---------------------------------------------------------------- E3 menus

MENUS = [
    [['a'], ['a', 'b'], ['a1', 'b2'], ['A', 'a'], ['1', '22'],
     ['ab', 'a1', 'A']],
    [['-'], ['.'], ['-', '.'], ['a-b'], ['a-b', 'c-d'], ['a.b', 'a-b']],
    [[' a'], ['a '], ['a b', 'c d'], ['é'], ['aé', 'b'], [' ', 'a']],
    [['^'], [']'], ['\\'], ['^', ']'], ['a^b'], ['_', 'a_b']],
    [['a'], ['-'], ['a-b', 'c-d-e'], ['AB12', 'ab12'], ['1.2.3'],
     ['x_y', 'a b']],
    [['', 'a'], ['EH1 2AB', 'G12 8QQ'], ['a1b', 'a1'], ['12', '1'],
     ['a--b', 'a-b'], ['٣', '1']],
]
# an option point of a history op: option id, or seeded sampling ('S', seed)
OPT_TRIPLES = [
    [0, 1, 4], [0, 2, ['S', 0]], [3, 5, 6], [0, 7, ['S', 1]],
    [1, 2, 3], [4, 5, ['S', 0]],
]
SAMPLING_SIZE = {'do_all': 1, 'do_all_exceptions': 1,
                 'max_sampled_attempts': 1}

HS_BATCH = 1200

# E3 'memoopts': every keyword of extract() at one non-default value
KW_POINTS = [
    ['default', {}],
    ['tag', {'tag': True}],
    ['encoding', {'encoding': 'utf-8'}],            # examples given as bytes
    ['as_object', {'as_object': True}],
    ['extra_letters', {'extra_letters': '_-.'}],
    ['full_escape', {'full_escape': True}],
    ['remove_empties', {'remove_empties': True}],
    ['strip', {'strip': True}],
    ['variableLengthFrags', {'variableLengthFrags': True}],
    ['max_patterns', {'max_patterns': 1}],
    ['min_diff_strings_per_pattern', {'min_diff_strings_per_pattern': 2}],
    ['min_strings_per_pattern', {'min_strings_per_pattern': 2}],
    ['size', {'size': 'SAMPLING', 'seed': 0}],      # Size(...) built at call
    ['seed', {'seed': 1}],
    ['dialect', {'dialect': 'perl'}],
    ['verbose', {'verbose': 1}],
]
# example sets that share constant fragments made of the characters whose
# treatment the options change (space, - _ . and punctuation to be escaped)
KW_MENUS = [
    [['a b', 'c d'], ['x y z'], ['New York', 'Santa Fe']],
    [['a-b', 'c-d'], ['x_y', 'x_z', ''], ['a.b', ' a.c ']],
    [['$1', '$22'], ['(a)', '(b)', ' (a)'], ['a+b', 'a+c', 'x y']],
]

# wide sets: default-Size thresholds (do_all = 100, do_all_exceptions = 4000)
BIG_KS = [100, 101, 4000, 4001]

# pruning option points: they make frequency matter by design, so the
# repeat-invariance clause is void under them - but the SAME multiset in any
# form / order must still give the same list (form-equality clauses only)
PRUNE_POINTS = [{'min_strings_per_pattern': 2}, {'max_patterns': 1},
                {'min_strings_per_pattern': 3, 'max_patterns': 2}]

# an unrelated call made in the middle of every set case
FOREIGN = (['q_9-', 'Z.z', ' _ ', 'é-é'],
           {'extra_letters': '_-.', 'dialect': 'perl', 'tag': True,
            'strip': True})


def _set_cases(alpha, n, opts):
    for o in opts:
        for xs in AB.subsets(alpha, n):
            yield {'k': 'set', 'x': list(xs), 'o': o}


def set_layer_cases(tier, layer):
    th = tier == 'thorough'
    allo = range(len(AB.OPTIONS))
    if layer == 'set0':
        return _set_cases([], 0, allo)
    if layer == 'set1':
        return _set_cases(AB.A_PAIR_T, 1, allo)
    if layer == 'set2':
        return _set_cases(AB.A_PAIR_T if th else AB.A_PAIR_Q, 2, [0])
    if layer == 'set2opt':
        return _set_cases(AB.A_OPT_T if th else AB.A_OPT_Q, 2, allo[1:])
    if layer == 'set3':
        return _set_cases(AB.A_TRIPLE_T if th else AB.A_TRIPLE_Q, 3, [0])
    if layer == 'set3opt':
        return _set_cases(AB.A_TRIPLE_Q, 3, allo[1:])
    if layer == 'set4':
        return _set_cases(AB.A_QUAD, 4, [0, 1])
    raise KeyError(layer)


def hs_sources(tier):
    return ['set0', 'set1', 'set2', 'set2opt', 'set3']


def eff_tier(tier):
    """thorough explores the full space under PYTHONHASHSEED=0 and repeats
    the quick space under hash seeds 1 and 2"""
    if tier == 'thorough' and os.environ.get('PYTHONHASHSEED') in ('1', '2'):
        return 'quick'
    return tier


class C14(Check):
    pid = 'C14'
    title = ('rexpy results depend only on the multiset of examples and the '
             'seed')
    technique = ('bounded exhaustive enumeration on the real rexpy: E1 all '
                 'permutations x input forms x repeats of every small example '
                 'set; E3 BFS over call histories sharing the regex memo; E2 '
                 'every answer of random.sample behind a FakeRandom seam plus '
                 'the real generator from two pre-states; child interpreters '
                 'under PYTHONHASHSEED 0/1/2')
    rule = ('set layers: one case per (example set, option point), all n! '
            'orders + dict/zero-count dict/Series/categorical/two-Series forms '
            '+ bytes+encoding list and dict forms + tuple, generator, '
            'Counter, OrderedDict, dict.keys() view, bytes dict with a '
            'zero-count entry + under 1-2 of 3 pruning option points '
            '(min_strings_per_pattern, max_patterns) the same multiset WITH '
            'repeats as list, reversed list, dict, Counter, zero-count dict, '
            'bytes list, bytes dict, bytes zero-count dict (form equality '
            'only, no repeat invariance) + (default options) every '
            'pandas form: object, str and string dtype, non-default integer '
            'and string index, categorical with categories == values, with '
            'one unused category first, two unused last (ordered), after '
            'row selection (object and categorical), two-Series lists '
            'incl. a categorical with an unused category '
            '+ each element repeated x2, x3 + all doubled + repeated call + '
            'call after an unrelated call in a pristine module + seeded calls '
            'from two generator pre-states, non-trivial = at least two distinct examples and a '
            'non-empty result; wide layer: one case per (value family, '
            'template, widening value, K, option point) with K distinct '
            'values in one position for K either side of each size constant '
            'of rexpy (max_strings_in_group 10/11 -> K 10..13, '
            'max_punc_in_group 5 -> K 4..7, MAX_VRLE_RANGE 2 -> run lengths '
            '1..K for K 2..5, MAX_GROUPS 99 -> 98..101 class runs, default '
            'Size do_all 100 / do_all_exceptions 4000 -> 100, 101, 4000, 4001 '
            'examples); K! orders cannot be enumerated, so a deviation-bounded '
            'set is: identity, reverse, every rotation, every single adjacent '
            'transposition, widening value moved to every position (<= 3K), '
            'plus dict / repeated dict / repeated list / Series forms of four '
            'of them; memoopts layer: one case per (3-set menu, unordered '
            'pair of the 16 option points = every extract() keyword at one '
            'non-default value + default) = 6 ops, BFS depth <= 3, i.e. at '
            'most two distinct option points per history; memo layer: one case per (6-set menu, 3 option '
            'points) = 18 ops, BFS depth<=3 (4 thorough, reduced menu), state '
            '= fingerprint of every state-carrying global / class attribute '
            'of the rexpy module + global PRNG state; prng layers: one '
            'case per (set of 3-5 examples, Size point, seed), non-trivial = '
            'at least one draw from the generator happened; hashseed layer: '
            'batches of jobs run in three child interpreters')
    assumptions = [
        'strings over the alphabets in mc/rex14_alphabet.py (<= 3 characters '
        'plus a list of structured examples); sets of <= 3 (quick) / <= 4 '
        '(thorough) distinct examples; 8 option points; pruning options '
        '(max_patterns, min_strings_per_pattern) make frequency matter by '
        'design: under them only the clauses that keep the multiset fixed '
        '(order, list / dict / Counter / bytes forms, zero-count entries) '
        'are checked, not repeat invariance; in the pairs layer with default '
        'options the pruning points are applied to pairs over the 40-string '
        'options alphabet',
        'garbage collection is an owned event: the automatic collector is '
        'off inside a case and gc.collect() runs at the start of the case, at '
        'every from-scratch reset and in the probe after each seeded call '
        '(the caller draws a number, gc.collect(), the generator must not '
        'have moved) - "the state is the same after the call as before it" '
        'is read as: and the call does not change it later either',
        'seeded sampled calls: order invariance is checked on the reversed '
        'and the rotated input (sets of 3-6 examples); the signature says '
        'whether the differing results leave examples unmatched (then the '
        'root cause is the incomplete final extraction reported by C03)',
        'unseeded sampled calls are random by design: no clause',
        'every case runs in a fresh instance of the rexpy module (source '
        're-executed into a new namespace), so all module-level state starts '
        'pristine; inside a history the from-scratch state restores every '
        'dict / list / set / scalar global and class attribute of that module '
        'to its pristine value (found by introspection, so a new cache is '
        'covered too) and random.seed(4242)',
        'a case that uses more than 20 s (90 s for history / child-process '
        'cases) of CPU is reported as uncaught:CaseTimeout; after 3 such '
        'time-outs a worker stops executing further cases',
        'None inside a list and lone surrogates are outside the domain; None '
        'in a Series is documented as ignored and is included',
    ]

    # The statement and its quantifier ("all permutations ... x Size settings
    # that force sampling") make order-invariance a must-clause for seeded
    # sampled calls too.  Set to False to count it as unspecified instead.
    SAMPLED_PERM_IS_VIOLATION = True

    def hashseeds(self, tier, verif_seed):
        return [0, 1, 2] if tier == 'thorough' else [verif_seed % 3]

    # ------------------------------------------------------------- layers
    def layers(self, tier):
        L = [('set0', 'no example at all (empty list/dict/Series, zero '
                      'counts, removed empties) x 8 option points'),
             ('set1', 'single example x 8 option points: forms, repeats, '
                      'seeded call'),
             ('set2', 'pairs, default options: + both orders'),
             ('set2opt', 'pairs x 7 non-default option points'),
             ('set3', 'triples, default options: all 6 orders'),
             ('wide', 'sets with K distinct values in one position, K either '
                      'side of every size constant in rexpy; bounded orders'),
             ('memo', 'E3: histories of extract() calls sharing the memo'),
             ('memoopts', 'E3: histories over every extract() keyword, two '
                          'option points per history, depth <= 3'),
             ('prng', 'seeded sampled calls, real generator, 2 pre-states'),
             ('prngfake', 'E2: every random.sample answer, bracket invariant'),
             ('hashseed', 'same jobs under PYTHONHASHSEED 0,1,2 (children)')]
        if tier == 'thorough':
            # the two largest layers last: a budget cap then costs least
            L += [('set3opt', 'triples x 7 non-default option points'),
                  ('set4', 'quadruples, all 24 orders, 2 option points')]
        return L

    def cases(self, tier, layer):
        full = tier
        tier = eff_tier(tier)
        if tier != full and layer in ('set3opt', 'set4', 'hashseed'):
            return              # (hashseed children cover all three seeds)
        th = tier == 'thorough'
        if layer.startswith('set'):
            for c in set_layer_cases(tier, layer):
                yield c
        elif layer == 'wide':
            for c in self.wide_cases(th):
                yield c
        elif layer == 'memoopts':
            n = len(KW_POINTS)
            for mi in range(len(KW_MENUS)):
                for a in range(n):
                    for b in range(a + 1, n):
                        yield {'k': 'kw', 'menu': mi, 'a': a, 'b': b,
                               'depth': 3}
        elif layer == 'memo':
            triples = OPT_TRIPLES if th else OPT_TRIPLES[:2]
            for mi in range(len(MENUS)):
                for ti, t in enumerate(triples):
                    if not th:
                        t = OPT_TRIPLES[(mi + ti * 3) % len(OPT_TRIPLES)]
                    yield {'k': 'memo', 'menu': mi, 'opts': t, 'depth': 3,
                           'nsets': 6}
            if th:
                for mi in range(len(MENUS)):
                    for t in ([0, 4], [1, ['S', 0]]):
                        yield {'k': 'memo', 'menu': mi, 'opts': t,
                               'depth': 4, 'nsets': 4}
        elif layer in ('prng', 'prngfake'):
            fake = layer == 'prngfake'
            if fake:
                sizes = (3, 4, 5) if th else (3, 4)
                seeds = [0, 1] if th else [0]
            else:
                sizes = (3, 4, 5, 6) if th else (3, 4, 5)
                seeds = [0, 1, 12345678] if th else [0, 1]
            for n in sizes:
                for xs in AB.subsets(AB.A_SAMPLED, n):
                    for si in range(len(AB.SIZE_POINTS)):
                        for seed in seeds:
                            c = {'k': 'fake' if fake else 'prng',
                                 'x': list(xs), 'size': si, 'seed': seed}
                            if fake and th:
                                c['orders'] = True
                            yield c
        elif layer == 'hashseed':
            for src in hs_sources(tier):
                n = sum(1 for _ in set_layer_cases(tier, src))
                for lo in range(0, n, HS_BATCH):
                    yield {'k': 'hs', 'src': src, 'tier': tier, 'lo': lo,
                           'hi': min(n, lo + HS_BATCH)}
        else:
            raise KeyError(layer)

    def wide_cases(self, th):
        for fi, fam in enumerate(AB.WIDE_FAMILIES):
            name, const, lim, Ks, gen, wideners, tpls = fam
            for ti, tpl in enumerate(tpls):
                for w in wideners:
                    for K in Ks:
                        opts = [0, 1, 2] if (ti == 1 or th) else [0]
                        for o in opts:
                            yield {'k': 'wide', 'fam': fi, 'tpl': ti, 'w': w,
                                   'K': K, 'o': o}
        # MAX_GROUPS = 99: examples with 98..101 character-class runs
        for R in (98, 99, 100, 101):
            for tok in (['a', '-'], ['a1', '-'], ['a', ' ']):
                for o in ([0, 1, 4] if th else [0, 4]):
                    yield {'k': 'wide', 'long': R, 'tok': tok, 'o': o}
        for K in BIG_KS:
            yield {'k': 'wide', 'big': K}

    # -------------------------------------------------------------- worker
    def setup_worker(self, tier):
        import random
        import pandas as pd
        import tdda.rexpy.rexpy as orig
        self.tier = tier
        self.random = random
        self.pd = pd
        self.src_path = orig.__file__
        with open(self.src_path, encoding='utf-8') as f:
            self.code = compile(f.read(), self.src_path, 'exec')
        self.rexpy = self.fresh_module()
        self.real_random = random
        # Garbage collection is made a deterministic, owned event: everything
        # alive now (pandas, numpy, the engine) is moved out of the
        # collector's sight, inside a case the automatic collector is off
        # and gc.collect() runs at stated points only (start of the case,
        # every from-scratch reset, and the probes after seeded calls).  A
        # finalizer in rexpy therefore runs at the same point in the worker
        # and in a replay.
        import gc
        self.gc = gc
        gc.collect()
        gc.freeze()

    def fresh_module(self):
        """A new instance of the rexpy module (its source executed into a
        fresh namespace): every case starts from pristine module state,
        whatever that state consists of, so a case replays alone exactly as it
        ran in the worker."""
        import types
        m = types.ModuleType('tdda.rexpy.rexpy')
        m.__file__ = self.src_path
        m.__package__ = 'tdda.rexpy'
        exec(self.code, m.__dict__)
        m.__mc_pristine__ = AB.state_snapshot(m)
        return m

    def teardown_worker(self):
        pass

    def reset(self):
        """from-scratch state inside a case: every state-carrying global /
        class attribute of the (per-case fresh) rexpy module put back to its
        pristine value, fixed generator state"""
        rx = self.rexpy
        AB.state_restore(rx, rx.__mc_pristine__)
        rx.random = self.real_random
        self.gc.collect()
        self.random.seed(4242)

    def call(self, fn, *a, **kw):
        """run a rexpy entry point; returns a JSON-able observation"""
        out = io.StringIO()
        try:
            with contextlib.redirect_stdout(out), \
                    contextlib.redirect_stderr(out):
                r = fn(*a, **kw)
            if hasattr(r, 'results'):           # as_object=True
                r = r.results.rex if r.results else []
            return list(r)
        except Exception as e:
            return ['!exception', type(e).__name__]

    def ex(self, examples, opts, **kw):
        k = dict(opts)
        k.update(kw)
        return self.call(self.rexpy.extract, examples, **k)

    def run_case(self, case):
        if AB.Watchdog.tripped():
            R = Res()
            R.unspec += 1
            R.out('not-run:after-%d-timeouts' % AB.Watchdog.max_trips)
            return R
        with AB.Watchdog(90 if case['k'] in ('memo', 'hs', 'fake', 'kw', 'wide')
                         else 20):
            return self.run_case_(case)

    def run_case_(self, case):
        self.rexpy = self.fresh_module()
        self._late = set()
        gc = self.gc
        gc.collect()        # what earlier cases left behind is finalised here
        gc.disable()
        try:
            return self.run_case__(case)
        finally:
            gc.enable()

    def gc_probe(self, R, before, detail, sub, holder=None):
        """'the state of the global generator is the same after the call as
        before it' - and stays what the caller makes of it: the caller draws
        a number, then whatever the seeded call left behind is finalised
        (the Extractor returned under as_object=True, held in `holder`, is
        dropped; gc.collect()); the generator must not move.  `before` = the
        state before the seeded call (names the jump in the signature)."""
        rnd = self.random
        rnd.random()
        mark = rnd.getstate()
        if holder is not None:
            del holder[:]           # the caller drops the returned object
        self.gc.collect()
        now = rnd.getstate()
        R.ev(0, checked=1)
        if now == mark:
            rnd.setstate(before)    # (the probe itself leaves no trace)
            return True
        sig = ('seeded:state-changes-after-return:on-garbage-collection:%s'
               % ('back-to-pre-call-state' if now == before else 'other'))
        if sig not in self._late:
            self._late.add(sig)
            R.out('differs:state-after-return')
            R.viol(sig, 'global-state-restored',
                   dict(detail, then='random.random(); gc.collect()',
                        observed='random.getstate() changed during '
                                 'gc.collect()'), sub)
        return False

    def run_case__(self, case):
        k = case['k']
        if k == 'set':
            return self.run_set(case)
        if k == 'memo':
            return self.run_memo(case)
        if k == 'wide':
            return self.run_wide(case)
        if k == 'kw':
            return self.run_kw(case)
        if k == 'prng':
            return self.run_prng(case)
        if k == 'fake':
            return self.run_fake(case)
        if k == 'hs':
            return self.run_hs(case)
        raise KeyError(k)

    # ------------------------------------------------------------ (a) E1
    def run_set(self, case):
        R = Res()
        xs, o = case['x'], case['o']
        opts = AB.OPTIONS[o]
        n = len(xs)
        pd = self.pd
        self.reset()
        given = list(xs)
        base = self.ex(given, opts)
        R.ev()
        R.nontrivial = n >= 2 and len(base) > 0 and base[0] != '!exception'
        sh = AB.shapes(xs)
        R.out('rex=%d/%d:%s' % (len(base), n, sh)
              if base[:1] != ['!exception'] else 'exc:%s' % base[1])

        GROUP = {'perm': 'order', 'dict': 'form', 'series': 'form',
                 'categorical': 'form', 'two-series': 'form',
                 'bytes-list': 'form', 'bytes-dict': 'form',
                 'repeat-list': 'repeat', 'repeat-dict': 'repeat'}

        def cmp(family, got, inp, reordered_input=False, base=base,
                opts=opts, base_inp=xs):
            R.ev()
            if got != base:
                R.out('differs:%s' % family)
                group = GROUP.get(family, family)
                if family.startswith('form:'):
                    group = ('form:bytes-dict' if 'bytes-dict' in family
                             else family)
                if family.startswith('pandas:'):
                    group = 'form:' + family
                    if 'unused' in family or 'categorical-row' in family \
                            or family.endswith('two-series-categorical'):
                        group = 'form:pandas:categorical-unused-categories'
                elif reordered_input and group == 'form':
                    group = 'order'
                kind = ('reordered' if sorted(map(str, got))
                        == sorted(map(str, base)) else 'different')
                R.viol('%s:%s:%s' % (group, kind,
                                     'pruning-options' if opts is not
                                     AB.OPTIONS[o] else 'default-options'
                                     if o == 0 else 'non-default-options'),
                       'same-multiset-same-result',
                       {'examples': xs, 'options': opts, 'variant': family,
                        'input': inp, 'got': got, 'base_input': base_inp,
                        'base': base, 'shapes': sh},
                       family if opts is AB.OPTIONS[o] else
                       [family, sorted(opts.items() - AB.OPTIONS[o].items())])

        # repeated call, with the very list object of the first call
        cmp('repeat-call', self.ex(given, opts),
            {'the list object of the first call, now': list(given)})
        for p in itertools.permutations(range(n)):
            if list(p) == list(range(n)):
                continue
            inp = [xs[i] for i in p]
            cmp('perm', self.ex(inp, opts), inp)
        orders = [list(xs)] + ([list(reversed(xs))] if n > 1 else [])
        for inp in orders:
            d = dict((s, 1) for s in inp)
            cmp('dict', self.ex(d, opts), {'dict': inp}, inp != list(xs))
        extra = [s for s in ('q-q', 'zz', 'Q') if s not in xs][0]
        d = {extra: 0}
        d.update((s, 1) for s in xs)
        cmp('dict-zero-count', self.ex(d, opts), {'dict': d})
        # every other form of the examples argument (the statement: the
        # result depends only on which strings were supplied and how often)
        for label, arg, desc, reord in self.arg_forms(xs, [1] * n, extra,
                                                      False):
            cmp('form:' + label, self.ex(arg, opts), desc, reord)
        if n == 0 and opts.get('remove_empties'):
            for inp in ([''], ['', ''], {'': 2}):
                cmp('only-removed-empties', self.ex(inp, opts),
                    inp if isinstance(inp, list) else {'dict': inp})
        for v in AB.repeat_vectors(n):
            inp = AB.round_robin(xs, v)
            cmp('repeat-list', self.ex(inp, opts), inp)
            d = dict(zip(xs, v))
            cmp('repeat-dict', self.ex(d, opts), {'dict': d})
        # bytes + encoding forms of the same strings (every option point)
        enc = [x.encode('utf-8') for x in xs]
        cmp('bytes-list', self.ex(list(enc), opts, encoding='utf-8'),
            {'bytes, encoding=utf-8': xs})
        cmp('bytes-dict', self.ex(dict((b, 2) for b in reversed(enc)), opts,
                                  encoding='utf-8'),
            {'bytes dict x2, reversed, encoding=utf-8': xs}, True)
        encx = extra.encode('utf-8')
        d = {encx: 0}
        d.update((b, 1) for b in enc)
        cmp('form:bytes-dict-zero-count',
            self.ex(d, opts, encoding='utf-8'),
            {'bytes dict, encoding=utf-8': dict([(extra, 0)]
                                                + [(x, 1) for x in xs])})
        if o == 0:
            for label, cols, desc, reord in self.pandas_forms(xs):
                cmp(label, self.call(self.rexpy.pdextract, cols), desc, reord)
        # pruning options: the same multiset (with repeats) in every form and
        # order gives the same list (no repeat-invariance clause here)
        if n and (o or n != 2 or all(x in AB.A_OPT for x in xs)):
            if o == 0 and n > 1:
                skip = sum(map(len, xs)) % 3
                pts = [pt for i, pt in enumerate([(0, False), (1, True),
                                                  (2, False)]) if i != skip]
            else:
                pts = [((o + n) % len(PRUNE_POINTS), bool(o % 2))]
            for pi, rev in pts:
                popts = dict(opts)
                popts.update(PRUNE_POINTS[pi])
                v = [1 + i % 3 for i in range(n)]
                if rev:
                    v = v[::-1]
                if n == 1:
                    v = [2 if rev else 1]
                ml = AB.round_robin(xs, v)
                pbase = self.ex(list(ml), popts)
                R.ev()
                R.out('prune%d:rex=%d' % (pi, len(pbase)))
                cmp('form:list-reversed', self.ex(ml[::-1], popts),
                    ml[::-1], True, pbase, popts, ml)
                for label, arg, desc, reord in self.arg_forms(xs, v, extra,
                                                              True):
                    cmp('form:' + label, self.ex(arg, popts), desc, reord,
                        pbase, popts, ml)
                for label, arg, desc, reord in self.bytes_forms(xs, v,
                                                                extra):
                    cmp('form:' + label,
                        self.ex(arg, popts, encoding='utf-8'), desc, reord,
                        pbase, popts, ml)
        # an unrelated call with other options made first, in a pristine
        # module instance, changes nothing
        keep = self.rexpy
        self.rexpy = self.fresh_module()
        self.reset()
        self.ex(list(FOREIGN[0]), FOREIGN[1])
        R.ev()
        cmp('after-unrelated-call', self.ex(list(xs), opts),
            {'first': list(FOREIGN), 'then': xs})
        self.rexpy = keep
        # seeded call on an input that needs no sampling: reproducible from
        # two pre-states, generator untouched
        rnd = self.random
        seeded = []
        for pre in (100, 200):
            rnd.seed(pre)
            before = rnd.getstate()
            holder = None
            if pre == 100:
                seeded.append(self.ex(list(xs), opts, seed=1))
            else:
                # the same through as_object=True, the caller keeping the
                # Extractor for a while
                holder = []

                def keep():
                    holder.append(self.rexpy.extract(
                        list(xs), as_object=True, seed=1, **opts))
                    return holder[0]
                seeded.append(self.call(keep))
            R.ev()
            if rnd.getstate() != before:
                R.out('differs:seeded-state')
                R.viol('seeded-unsampled:state:%s'
                       % ('no-examples' if not base else 'examples'),
                       'global-state-restored',
                       {'examples': xs, 'options': opts, 'seed': 1,
                        'pre': 'random.seed(%d)' % pre}, 'seeded-state')
            else:
                self.gc_probe(R, before,
                              {'examples': xs, 'options': opts, 'seed': 1,
                               'pre': 'random.seed(%d)' % pre,
                               'as_object': holder is not None},
                              'seeded-state-later', holder)
        if seeded[0] != seeded[1]:
            R.out('differs:seeded')
            R.viol('seeded-unsampled:result:%s' % sh,
                   'seeded-result-reproducible',
                   {'examples': xs, 'options': opts, 'seed': 1,
                    'after random.seed(100)': seeded[0],
                    'after random.seed(200), as_object=True': seeded[1]},
                   'seeded')
        return R

    def arg_forms(self, xs, v, extra, counts):
        """(label, examples argument, description, reordered?) for the
        multiset xs x v in forms other than the plain list.  counts=False
        (all frequencies 1; the plain dict and zero-count dict forms are
        compared elsewhere): tuple, one-shot iterable, dict subclasses, dict
        view; counts=True: the forms that carry frequencies"""
        import collections
        ml = AB.round_robin(xs, v)
        pairs = list(zip(xs, v))
        rp = pairs[::-1]
        out = [('Counter', collections.Counter(dict(rp)), {'Counter': rp},
                len(xs) > 1)]
        if counts:
            z = [(extra, 0)] + pairs
            out += [('dict-with-counts', dict(pairs), {'dict': pairs}, False),
                    ('dict-zero-count-entry', dict(z), {'dict': z}, False)]
        else:
            out += [('tuple', tuple(ml), {'tuple': ml}, False),
                    ('generator', (x for x in ml), {'generator': ml}, False),
                    ('OrderedDict', collections.OrderedDict(rp),
                     {'OrderedDict': rp}, len(xs) > 1),
                    ('dict-keys-view', dict(pairs).keys(),
                     {'dict.keys()': xs}, False)]
        return out

    def bytes_forms(self, xs, v, extra):
        """the same multiset as encoded strings (extract(..., encoding=))"""
        e = lambda t: t.encode('utf-8')
        ml = AB.round_robin(xs, v)
        pairs = list(zip(xs, v))
        bp = [(e(x), f) for x, f in pairs]
        z = [(extra, 0)] + pairs
        return [('bytes-list', [e(x) for x in ml], {'bytes list': ml}, False),
                ('bytes-dict', dict(bp[::-1]), {'bytes dict': pairs[::-1]},
                 len(xs) > 1),
                ('bytes-dict-zero-count-entry',
                 dict([(e(extra), 0)] + bp), {'bytes dict': z}, False)]

    def pandas_forms(self, xs):
        """(label, argument for pdextract, description, reordered?) for every
        pandas form of the strings xs; all must agree with extract(list(xs)).
        Unused categories / deselected rows hold strings that are NOT
        supplied."""
        pd = self.pd
        n = len(xs)
        xs = list(xs)
        rev = xs[::-1]
        extras = [e for e in ('n/a', 'Q 9_', '~~', 'zz9') if e not in xs][:2]
        out = []

        def add(label, cols, desc, reord=False):
            out.append(('pandas:' + label, cols, desc, reord))

        for inp in ([xs] + ([rev] if n > 1 else [])):
            col = inp[:1] + [None] + inp[1:] + inp[:1]
            add('object', pd.Series(col, dtype=object), {'object': col},
                inp != xs)
        add('str-dtype', pd.Series(xs + xs[:1], dtype='str'),
            {'dtype str': xs + xs[:1]})
        add('string-dtype', pd.Series(xs + [None], dtype='string'),
            {'dtype string': xs + [None]})
        add('index', pd.Series(xs + [None], dtype=object,
                               index=[100 - 7 * i for i in range(n + 1)]),
            {'object, index 100,93,..': xs + [None]})
        add('str-index', pd.Series(rev, dtype=object,
                                   index=['r%d' % i for i in range(n)]),
            {'object, string index': rev}, n > 1)
        if n:
            add('categorical', pd.Series(pd.Categorical(xs + xs[:1])),
                {'categorical': xs + xs[:1]})
            add('categorical-unused-first',
                pd.Series(pd.Categorical(xs, categories=extras[:1] + xs)),
                {'categorical': xs, 'categories': extras[:1] + xs})
            add('categorical-unused-last-ordered',
                pd.Series(pd.Categorical(rev + [None],
                                         categories=xs + extras,
                                         ordered=True)),
                {'categorical ordered': rev + [None],
                 'categories': xs + extras}, n > 1)
            full = pd.Series(pd.Categorical([extras[0]] + xs + [extras[1]]))
            add('categorical-row-selection', full[1:n + 1],
                {'categorical': [extras[0]] + xs + [extras[1]],
                 'selected rows': '1..%d' % n})
        obj = pd.Series([extras[0]] + xs + [None, extras[1]], dtype=object)
        mask = [False] + [True] * n + [True, False]
        add('object-row-selection', obj[mask],
            {'object': [extras[0]] + xs + [None, extras[1]],
             'mask': mask})
        h = (n + 1) // 2
        add('two-series', [pd.Series(xs[:h] + [None], dtype=object),
                           pd.Series(xs[h:] + xs[:1], dtype=object)],
            {'series': [xs[:h] + [None], xs[h:] + xs[:1]]})
        if n:
            add('two-series-categorical',
                [pd.Series(xs[:h], dtype=object),
                 pd.Series(pd.Categorical(xs[h:] + xs[:1],
                                          categories=xs + extras[:1]))],
                {'series': [xs[:h], {'categorical': xs[h:] + xs[:1],
                                     'categories': xs + extras[:1]}]})
        return out

    # ------------------------------------------------------------ (b) E3
    def op_run(self, op, R=None):
        xs, o = op
        if isinstance(o, list):
            Size = self.rexpy.Size
            return self.seeded_op(R, list(xs), {'size': Size(**SAMPLING_SIZE),
                                                'seed': o[1]}, list(op))
        return self.ex(list(xs), AB.OPTIONS[o])

    def seeded_op(self, R, inp, kw, shown):
        """a seeded call inside a history: besides its result (compared by
        the caller) the generator must be as before, and stay so"""
        rnd = self.random
        before = rnd.getstate()
        r = self.call(self.rexpy.extract, inp, **kw)
        if R is not None:
            det = {'op': shown, 'sampling_size': SAMPLING_SIZE}
            if rnd.getstate() != before:
                sig = 'history:seeded-op:state-not-restored'
                if sig not in self._late:
                    self._late.add(sig)
                    R.viol(sig, 'global-state-restored', det, 'seeded-op')
            else:
                self.gc_probe(R, before, det, 'seeded-op-later')
        return r

    def canon(self):
        return (AB.state_fingerprint(self.rexpy),
                hash(self.random.getstate()))

    def run_memo(self, case):
        R = Res()
        sets = MENUS[case['menu']][:case['nsets']]
        ops = [(xs, o) for xs in sets for o in case['opts']]
        depth = case['depth']
        ref = []
        for op in ops:
            self.reset()
            ref.append(self.op_run(op))
            R.evals += 1
        self.reset()
        seen = {self.canon()}
        frontier = [()]
        transitions = 0
        maxdepth = 0
        bad = set()
        while frontier:
            nxt = []
            for hist in frontier:
                if len(hist) >= depth:
                    continue
                for i, op in enumerate(ops):
                    self.reset()
                    for j in hist:
                        self.op_run(ops[j], R)
                    real = self.op_run(op, R)
                    R.evals += len(hist) + 1
                    transitions += 1
                    if real != ref[i]:
                        sampling = isinstance(op[1], list)
                        prior_sampling = any(isinstance(ops[j][1], list)
                                             for j in hist)
                        if sampling:
                            sig = ('history:seeded-sampled-op-after-%s'
                                   % ('sampled-call' if prior_sampling
                                      else 'unsampled-calls'))
                        else:
                            sig = 'history:memo:%s:%s' % (
                                op[1], AB.shapes(op[0]))
                        if sig not in bad:
                            bad.add(sig)
                            R.viol(sig, 'independent-of-preceding-calls',
                                   {'history': [list(ops[j]) for j in hist],
                                    'op': list(op), 'got': real,
                                    'from_cleared_memo': ref[i],
                                    'sampling_size': SAMPLING_SIZE},
                                   [list(hist), i])
                    k = self.canon()
                    if k not in seen:
                        seen.add(k)
                        nxt.append(hist + (i,))
                        maxdepth = max(maxdepth, len(hist) + 1)
            frontier = nxt
        R.states = len(seen)
        R.transitions = transitions
        R.checked = transitions
        R.nontrivial = len(seen) > 1
        R.out('memo:states=%d:depth=%d:%s' % (len(seen), maxdepth,
                                              'differs' if bad else 'same'))
        return R

    # ------------------------------------------------ (a') wide sets
    def run_wide(self, case):
        R = Res()
        pd = self.pd
        self.reset()
        if 'big' in case:
            return self.run_big(R, case['big'])
        o = case['o']
        opts = AB.OPTIONS[o]
        if 'long' in case:
            Rn, tok = case['long'], case['tok']
            tok2 = [tok[0].replace('a', 'b'), tok[1]]
            xs = [AB.long_string(Rn, tok), AB.long_string(Rn, tok2),
                  AB.long_string(Rn, tok, '\n' if tok[1] != ' ' else '_'),
                  tok[0] + tok[1] + tok[0]]
            K, wpos = len(xs), len(xs) - 1
            const, beyond, fam = 'MAX_GROUPS', Rn > 99, 'long:%s' % ''.join(tok)
            detail = {'runs': Rn, 'tokens': tok}
        else:
            f = AB.WIDE_FAMILIES[case['fam']]
            K = case['K']
            xs = AB.wide_examples(f, K, case['w'], f[6][case['tpl']])
            wpos = K - 1
            const, beyond, fam = f[1], K > f[2], f[0]
            detail = {'family': fam, 'K': K, 'widening_value': xs[-1]}
        if len(set(xs)) != len(xs):
            raise RuntimeError('wide family yields duplicates: %r' % (xs,))
        base = self.ex(list(xs), opts)
        R.ev()
        R.nontrivial = base[:1] != ['!exception'] and len(base) > 0
        R.out('wide:%s:%s:%s:rex=%d' % (fam, const, 'beyond' if beyond
                                        else 'within', len(base)))

        def cmp(group, label, got, inp):
            R.ev()
            if got != base:
                kind = ('reordered' if sorted(map(str, got))
                        == sorted(map(str, base)) else 'different')
                short = inp if len(str(inp)) < 600 else str(inp)[:600]
                R.viol('wide:%s:%s:%s:%s' % (group, kind, const,
                                             'beyond' if beyond else 'within'),
                       'same-multiset-same-result',
                       dict(detail, examples=xs if len(str(xs)) < 600 else
                            [x[:40] for x in xs], options=opts, variant=label,
                            input=short, got=[g[:200] for g in got],
                            base=[g[:200] for g in base]), label)

        orders = AB.orders_bounded(K, wpos)
        for label, p in orders:
            if label == 'identity':
                continue
            inp = [xs[i] for i in p]
            cmp('order', label, self.ex(inp, opts), inp)
        for label, p in orders:
            if label not in ('identity', 'reverse', 'widener@0',
                             'rotate1'):
                continue
            inp = [xs[i] for i in p]
            grp = 'form' if label == 'identity' else 'order'
            cmp(grp, 'dict:' + label, self.ex(dict((x, 1) for x in inp), opts),
                {'dict': inp})
            d = dict((x, 2) for x in inp)
            d[xs[wpos]] = 3
            cmp('repeat' if label == 'identity' else 'order',
                'repeat-dict:' + label, self.ex(d, opts), {'dict': d})
            rep = inp + [xs[wpos]] * 2 + inp[:2]
            cmp('repeat' if label == 'identity' else 'order',
                'repeat-list:' + label, self.ex(rep, opts), rep)
            if o == 0:
                col = inp[:1] + [None] + inp[1:] + inp[:1]
                cmp(grp, 'series:' + label,
                    self.call(self.rexpy.pdextract,
                              pd.Series(col, dtype=object)), {'series': col})
        return R

    def run_big(self, R, K):
        """default Size: do_all = 100, do_all_exceptions = 4000 (sampling
        starts above 4000 distinct examples)"""
        rnd = self.random
        xs = ['k%04d' % i for i in range(K - 1)] + ['kx%03d' % 7]
        sampled = K > 4000
        variants = [('identity', list(xs)), ('reverse', xs[::-1]),
                    ('rotate1', xs[1:] + xs[:1]),
                    ('widener@0', xs[-1:] + xs[:-1])]
        obs = []
        for label, inp in variants:
            for pre in ((100, 200) if label == 'identity' else (100,)):
                self.reset()
                rnd.seed(pre)
                rec = AB.RecRandom()
                self.rexpy.random = rec
                before = rnd.getstate()
                try:
                    r = self.ex(inp, {}, seed=0)
                finally:
                    self.rexpy.random = self.real_random
                R.ev()
                faults = AB.bracket_faults(rec.log, 0)
                root = '+'.join(faults) or 'no-bracket-fault'
                det = {'examples': 'k0000..k%04d + kx007 (%d strings)'
                       % (K - 2, K), 'order': label, 'seed': 0,
                       'size': 'default', 'pre': 'random.seed(%d)' % pre}
                if faults:
                    R.viol('seeded-sampled:%s' % root,
                           'draws-inside-seed-bracket',
                           dict(det, faults=faults), label)
                if rnd.getstate() != before:
                    R.viol('seeded-sampled:%s' % root,
                           'global-state-restored', det, label)
                else:
                    self.gc_probe(R, before, det, [label, 'state-later'])
                obs.append((label, pre, r, AB.n_draws(rec.log)))
        R.nontrivial = any(o[3] for o in obs) or not sampled
        R.out('big:K=%d:draws=%s:rex=%d' % (
            K, '>0' if any(o[3] for o in obs) else '0', len(obs[0][2])))
        for label, pre, r, nd in obs[1:]:
            if r != obs[0][2]:
                R.viol('wide:%s:%s:do_all_exceptions:%s' % (
                    'order' if label != 'identity' else 'prestate',
                    'different', 'beyond' if sampled else 'within'),
                    'same-multiset-same-result' if label != 'identity'
                    else 'seeded-result-reproducible',
                    {'K': K, 'variant': label, 'pre': pre, 'got': r,
                     'base': obs[0][2]}, label)
        if not sampled:
            self.reset()
            r = self.ex(list(xs), {})
            R.ev()
            if r != obs[0][2]:
                R.viol('wide:seed:different:do_all_exceptions:within',
                       'same-multiset-same-result',
                       {'K': K, 'unseeded': r, 'seeded': obs[0][2]}, 'unseeded')
        return R

    # ------------------------------------------ (b') E3 over all keywords
    def kw_run(self, xs, point):
        name, kw = point
        kw = dict(kw)
        inp = list(xs)
        if kw.get('size') == 'SAMPLING':
            kw['size'] = self.rexpy.Size(**SAMPLING_SIZE)
        if 'encoding' in kw:
            inp = [x.encode(kw['encoding']) for x in inp]
        if kw.get('seed') is not None:
            return self.seeded_op(self._R, inp, kw, [list(xs), point[1]])
        return self.call(self.rexpy.extract, inp, **kw)

    def run_kw(self, case):
        R = self._R = Res()
        sets = KW_MENUS[case['menu']]
        pts = [KW_POINTS[case['a']], KW_POINTS[case['b']]]
        ops = [(xs, pt) for xs in sets for pt in pts]
        depth = case['depth']
        ref = []
        for xs, pt in ops:
            self.reset()
            ref.append(self.kw_run(xs, pt))
            R.evals += 1
        self.reset()
        seen = {self.canon()}
        frontier = [()]
        transitions = 0
        maxdepth = 0
        bad = set()

        def fresh_run(hist_ops, op):
            self.reset()
            for h in hist_ops:
                self.kw_run(*h)
            R.evals += len(hist_ops) + 1
            return self.kw_run(*op)

        while frontier:
            nxt = []
            for hist in frontier:
                if len(hist) >= depth:
                    continue
                for i, op in enumerate(ops):
                    real = fresh_run([ops[j] for j in hist], op)
                    k = self.canon()
                    transitions += 1
                    if real != ref[i]:
                        # which option is essential?  (root-cause narrowing)
                        dflt = KW_POINTS[0]
                        hops = [ops[j] for j in hist]
                        # history calls whose option is essential: putting
                        # that one call back to default options cures it
                        ess = set()
                        for idx, h in enumerate(hops):
                            alt = list(hops)
                            alt[idx] = (h[0], dflt)
                            if h[1][0] != 'default' and \
                                    fresh_run(alt, op) == ref[i]:
                                ess.add(h[1][0])
                        hnames = sorted(ess)
                        h_ess = bool(ess)
                        # same history, op with default options
                        self.reset()
                        ref0 = self.kw_run(op[0], dflt)
                        r2 = fresh_run(hops, (op[0], dflt))
                        o_ess = (r2 == ref0)
                        sig = 'history:%s-then-%s' % (
                            '+'.join(hnames) if h_ess else '*',
                            op[1][0] if o_ess else '*')
                        if sig not in bad:
                            bad.add(sig)
                            R.viol(sig, 'independent-of-preceding-calls',
                                   {'history': [[h[0], h[1][1]] for h in hops],
                                    'op': [op[0], op[1][1]], 'got': real,
                                    'from_pristine_state': ref[i],
                                    'sampling_size': SAMPLING_SIZE},
                                   [list(hist), i])
                    if k not in seen:
                        seen.add(k)
                        nxt.append(hist + (i,))
                        maxdepth = max(maxdepth, len(hist) + 1)
            frontier = nxt
        R.states = len(seen)
        R.transitions = transitions
        R.checked = transitions
        R.nontrivial = len(seen) > 1
        R.out('kw:%s+%s:states=%d:depth=%d:%s' % (
            pts[0][0], pts[1][0], min(len(seen), 99), maxdepth,
            'differs' if bad else 'same'))
        return R

    # ------------------------------------------------- (c) real generator
    def run_prng(self, case):
        R = Res()
        xs, seed = case['x'], case['seed']
        pt = AB.SIZE_POINTS[case['size']]
        Size = self.rexpy.Size
        rnd = self.random
        obs = []
        faults = set()
        draws = 0
        unrestored = []
        runs = [('list', list(xs), 100), ('list', list(xs), 200),
                ('list', list(xs), 100),
                ('dict', dict((s, 1) for s in xs), 100),
                ('repeat-dict', dict((s, 2) for s in xs), 200)]
        for (form, inp, pre) in runs:
            self.reset()
            rnd.seed(pre)
            rec = AB.RecRandom()
            self.rexpy.random = rec
            before = rnd.getstate()
            try:
                r = self.ex(inp, {}, size=Size(**pt), seed=seed)
            finally:
                self.rexpy.random = self.real_random
            after = rnd.getstate()
            R.ev()
            obs.append(r)
            draws += AB.n_draws(rec.log)
            faults.update(AB.bracket_faults(rec.log, seed))
            if after != before:
                unrestored.append('%s after random.seed(%d)' % (form, pre))
            else:
                self.gc_probe(R, before,
                              {'examples': xs, 'size': pt, 'seed': seed,
                               'form': form, 'pre': 'random.seed(%d)' % pre},
                              'state-later')
        R.nontrivial = draws > 0
        root = '+'.join(sorted(faults)) or 'no-bracket-fault'
        detail = {'examples': xs, 'size': pt, 'seed': seed}
        if faults:
            R.viol('seeded-sampled:%s' % root, 'draws-inside-seed-bracket',
                   dict(detail, faults=sorted(faults)), 'bracket')
        if unrestored:
            R.viol('seeded-sampled:%s' % root, 'global-state-restored',
                   dict(detail, state_changed_by=unrestored), 'state')
        if any(o != obs[0] for o in obs[1:]):
            names = ['list@100', 'list@200', 'list@100 again', 'dict@100',
                     'dict x2 @200']
            R.viol('seeded-sampled:%s' % root, 'seeded-result-reproducible',
                   dict(detail, results=dict(zip(names, obs))), 'result')
        R.out('draws=%s:%s%s%s' % (
            '0' if not draws else '>0', root,
            ':state-changed' if unrestored else '',
            ':result-varies' if any(o != obs[0] for o in obs[1:]) else ''))
        # order of the examples under sampling (the quantifier names
        # permutations x Size settings that force sampling)
        if draws:
            variants = [list(reversed(xs)), list(xs[1:]) + list(xs[:1])]
            differs = None
            for inp in variants:
                self.reset()
                rnd.seed(100)
                rp = self.ex(inp, {}, size=Size(**pt), seed=seed)
                R.ev()
                if rp != obs[0] and differs is None:
                    differs = (inp, rp)
            if differs is None:
                R.out('sampled-perm:same')
            else:
                # independent look at the result: does it account for every
                # example?  (if not, the order dependence is a symptom of the
                # incomplete final extraction that C03 reports)
                import re
                def covers(rexes, s):
                    try:
                        return any(re.compile(r, re.U | re.S).fullmatch(s)
                                   for r in rexes)
                    except re.error:
                        return False
                incomplete = [s for s in xs
                              if not covers(obs[0], s)
                              or not covers(differs[1], s)]
                sig = ('seeded-sampled:order-dependent:%s'
                       % ('examples-left-unmatched' if incomplete
                          else 'all-examples-matched'))
                if self.SAMPLED_PERM_IS_VIOLATION:
                    R.out('sampled-perm:order-dependent')
                    R.viol(sig, 'same-multiset-same-result',
                           dict(detail, input=list(xs), result=obs[0],
                                reordered_input=differs[0],
                                reordered_result=differs[1],
                                unmatched_examples=incomplete), 'perm')
                else:
                    R.unspec += 1
                    R.out('sampled-perm:order-dependent(unspecified)')
        return R

    # ------------------------------------------------------ (c) E2 seam
    def run_fake(self, case):
        R = Res()
        xs, seed = case['x'], case['seed']
        pt = AB.SIZE_POINTS[case['size']]
        Size = self.rexpy.Size
        orders = bool(case.get('orders'))

        def run(chooser):
            self.reset()
            fake = AB.FakeRandom(chooser, orders=orders)
            self.rexpy.random = fake
            try:
                r = self.ex(list(xs), {}, size=Size(**pt), seed=seed)
            finally:
                self.rexpy.random = self.real_random
            return r, fake

        nexec = 0
        seen_sigs = set()
        results = set()
        draws = 0
        for choices, (r, fake) in explore_choices(run, bound=None,
                                                  max_execs=20000):
            nexec += 1
            R.ev()
            results.add(json.dumps(r))
            draws += AB.n_draws(fake.log)
            faults = AB.bracket_faults(fake.log, seed)
            root = '+'.join(faults) or 'no-bracket-fault'
            det = {'examples': xs, 'size': pt, 'seed': seed,
                   'sample_answers': choices, 'faults': faults,
                   'calls': [list(e) for e in fake.log][:40],
                   'final_state': list(fake.state),
                   'initial_state': ['U', 0]}
            sig = 'seeded-sampled:%s' % root
            if faults and (sig, 'b') not in seen_sigs:
                seen_sigs.add((sig, 'b'))
                R.viol(sig, 'draws-inside-seed-bracket', det, choices)
            if fake.state != ('U', 0) and (sig, 's') not in seen_sigs:
                seen_sigs.add((sig, 's'))
                R.viol(sig, 'global-state-restored', det, choices)
        if nexec >= 20000:
            raise RuntimeError('E2 execution cap hit: %r' % (case,))
        R.states = nexec
        R.nontrivial = draws > 0
        R.out('paths=%d:results=%d:%s' % (
            min(nexec, 50) if nexec < 50 else 50, min(len(results), 9),
            'fault' if seen_sigs else 'bracketed'))
        return R

    # ------------------------------------------------------ (d) hashseeds
    def run_hs(self, case):
        R = Res()
        jobs = [[c['x'], c['o']] for c in itertools.islice(
            set_layer_cases(case['tier'], case['src']), case['lo'],
            case['hi'])]
        payload = json.dumps({'jobs': jobs})
        procs = []
        for hs in (0, 1, 2):
            env = dict(os.environ)
            env['PYTHONHASHSEED'] = str(hs)
            env['PYTHONDONTWRITEBYTECODE'] = '1'
            env['TDDA_SRC'] = os.path.dirname(os.path.dirname(
                os.path.dirname(os.path.abspath(self.src_path))))
            procs.append(subprocess.Popen(
                [sys.executable, '-m', 'mc.rex14_child'], cwd=VERIF, env=env,
                stdin=subprocess.PIPE, stdout=subprocess.PIPE,
                stderr=subprocess.PIPE, text=True))
        outs = []
        for p in procs:
            so, se = p.communicate(payload, timeout=900)
            line = [l for l in so.splitlines() if l.startswith('RESULTS ')]
            if p.returncode != 0 or not line:
                raise RuntimeError('hash-seed child failed: %s' % se[-800:])
            outs.append(json.loads(line[0][8:])['results'])
        R.ev(3 * len(jobs), checked=len(jobs))
        nd = 0
        sigs = set()
        for j, (xs, o) in enumerate(jobs):
            rs = [outs[h][j] for h in range(3)]
            if rs[0] != rs[1] or rs[0] != rs[2]:
                nd += 1
                sig = 'hashseed:o%d:%s' % (o, AB.shapes(xs))
                if sig not in sigs and len(sigs) < 5:
                    sigs.add(sig)
                    R.viol(sig, 'independent-of-hash-seed',
                           {'examples': xs, 'options': AB.OPTIONS[o],
                            'PYTHONHASHSEED=0': rs[0],
                            'PYTHONHASHSEED=1': rs[1],
                            'PYTHONHASHSEED=2': rs[2]}, j)
        R.nontrivial = True
        R.out('hashseed:%s' % ('differs' if nd else 'same'))
        return R


CHECK = C14()
