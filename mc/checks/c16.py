"""
C16 - CSV files described by CSVW metadata load with the declared column
names, types and values (nulls included); every documented CSVW date/datetime
pattern is translated to a parsing format that reads back exactly the
instants written.

E1, two parts, both on real files in a per-worker sandbox under /var/tmp.

(a) pattern grammar.  One case = one date part of the grammar (order x
    separator x widths) with a list of time parts; inside, every time part x
    every boundary instant is formatted by the model's own UAX35 formatter,
    written as a CSV + CSVW metadata, loaded with tdda.serial.reader.
    csv2pandas, and also pushed through csvw_date_format_to_md_date_format +
    datetime.strptime (pandas' ISO8601 reader when the translation is the
    documented token 'ISO8601').  Plus one multi-row file per pattern with
    all instants and a null.

(b) tables.  One case = one small table (2-3 typed columns, 0-3 rows, nulls)
    x one dialect (delimiter, encoding, header mode, boolean spelling) x
    metadata form/layout x the way csv2pandas is told about the metadata.

(b') the same tables with the ARGUMENTS of csv2pandas varied: every keyword
    of its signature at a non-default value for which the statement still
    decides the outcome (layer b-opts), and every spelling of the two path
    arguments - absolute, ./x, dir/x, bare x, pathlib - with the worker
    chdir'ed accordingly (layer b-paths): same result for every equivalent
    form.

(h) E3, histories: two (thorough: three) loads in ONE process over tables
    whose metadata differ in one aspect (boolean spellings incl. swapped
    ones, delimiter, encoding, header mode, date formats, column set,
    metadata form/layout/route, csv2pandas options, data rows), on the same
    file names (rewritten between the loads) or on distinct ones.  Every
    history starts from the pristine module state (all module-level /
    class-level values and mutable default arguments of the imported tdda
    modules put back by introspection, functools caches cleared); oracle:
    every load agrees with the model AND the last load gives what the same
    load gives from the pristine state.

Oracle: mc.models.csvw_spec (no tdda, no pandas).
"""
import contextlib
import copy
import datetime
import inspect
import io
import itertools
import json
import os
import pathlib
import re
import shutil
import sys
import tempfile

from mc.engine import Check, Res
from mc.models import csvw_spec as S

# ------------------------------------------------------------------ alphabets

DELIMS = [',', '|', '\t', ';']
DELIM_NAME = {',': 'comma', '|': 'pipe', '\t': 'tab', ';': 'semicolon'}
ENCODINGS = ['utf-8', 'latin-1', 'utf-16']
HEADERS = list(S.HEADER_MODES)
BOOLFMTS = [None, 'Y|N', '1|0']
#: history layers (every history starts from the pristine module state, so
#: these are also loaded alone): spellings whose polarity is the other way
#: round in another table (N is "true" here, "false" there).  They are kept
#: out of the table layers, whose cases share a worker process on purpose
#: without resetting it, so that a verdict never depends on which cases a
#: worker happened to run before
BOOLFMTS_WIDE = BOOLFMTS + ['N|Y', 'T|F', 'F|T', '0|1', 'false|true']

#: csv2pandas keywords, each at ONE non-default value for which the statement
#: still decides the outcome (declared names / types / values win):
#:   mdtype-csvw            mdtype='csvw' (the metadata IS csvw)
#:   upgrade_possible_ints  True: documented for columns read as float
#:                          "as result of nulls"; a declared type wins
#:   upgrade_types-false    False: names, rows and values are still decided;
#:                          a dtype that is not the declared one is
#:                          unspecified (the caller asked not to upgrade)
#:   return_md              True: (frame, metadata)
#:   table_number           index of the case's table in the table group
#:   use_table_name         True: the table whose url ends with the file name
#:   verbosity-0            verbosity=0
#:   kw-neutral             **kw for read_csv at pandas' own defaults
#:   kw-redundant           **kw repeating what the metadata says (sep,
#:                          encoding)
OPTS_VALUE = ['upgrade_possible_ints', 'upgrade_types-false']
OPTS_OTHER = ['mdtype-csvw', 'return_md', 'table_number', 'use_table_name',
              'verbosity-0', 'kw-neutral', 'kw-redundant']
OPTS = OPTS_VALUE + OPTS_OTHER

#: spellings of a path argument.  cwd = the directory holding the files:
#: abs, dot (./x), bare (x), pathlib (Path(abs)), pathlib-bare (Path(x));
#: cwd = its parent: sub (dir/x)
PATHFORMS_HERE = ['abs', 'dot', 'bare', 'pathlib', 'pathlib-bare']
PATHFORMS_PARENT = ['sub']


def path_form_pairs(route):
    """(pathform, mdpathform) combinations that can share one cwd; 'abs'
    for the argument the route does not pass."""
    here = PATHFORMS_HERE
    if route in ('both', 'kwargs'):
        out = [(a, b) for a in here for b in here]
        out += [('sub', 'sub'), ('sub', 'abs'), ('abs', 'sub'),
                ('sub', 'pathlib'), ('pathlib', 'sub')]
    elif route == 'mdonly':
        out = [('abs', b) for b in here + PATHFORMS_PARENT]
    else:
        out = [(a, 'abs') for a in here + PATHFORMS_PARENT]
    return [x for x in out if x != ('abs', 'abs')]

D1 = '2000-02-29T00:00:00.000000'
D2 = '1969-12-31T00:00:00.000000'
D3 = '2024-01-12T00:00:00.000000'
T1 = '1999-12-31T23:59:59.000000'
T2 = '2003-04-05T06:07:00.000000'
T3 = '1970-01-01T00:00:00.000000'

#: column kinds: (kind name, CSVW type, format or None, non-null values)
KINDS_QUICK = [
    ('boolean', 'boolean', None, [True, False]),
    ('integer', 'integer', None, [0, 1, -7, 9007199254740993]),
    ('number', 'number', None, [1.5, -0.25, 3.0, 1e+16]),
    ('string', 'string', None,
     ['a', 'é', 'x<D>y', 'q"t', 'NA', '007', 'Y']),
    ('date-iso', 'date', None, [D1, D2]),
    # first value: day <= 12, so that guessing the format cannot work
    ('date-dmy', 'date', 'd/M/yyyy', [D3, D1]),
    ('datetime-iso', 'datetime', None, [T1, T3]),
    ('datetime-fmt', 'datetime', 'dd.MM.yyyy HH:mm', [T2, T1]),
]
KINDS_THOROUGH_EXTRA = {
    'integer': [-9223372036854775808, 100],
    'number': [0.1, -1e-07, 123456789.125],
    'string': ['true', '1', "it's", 'l1\nl2', 'null', 'ÿ×', '1.50',
               '"', '2000-01-01'],
    'date-iso': [D3],
    'datetime-iso': [T2],
}


def kinds(tier):
    out = []
    for (k, t, f, vals) in KINDS_QUICK:
        v = list(vals)
        if tier == 'thorough':
            v += KINDS_THOROUGH_EXTRA.get(k, [])
        out.append((k, t, f, v))
    if tier == 'thorough':
        out.append(('date-mdy2', 'date', 'MM-dd-yy', [D1, D2, D3]))
        out.append(('datetime-T', 'datetime', 'yyyy-MM-ddTHH:mm:ss.SSS',
                    ['1999-12-31T23:59:59.125000', T3]))
    return out


def vectors(vals, n, full):
    """Column vectors of length n.  full: every value alone / with a null on
    either side / with its cyclic successor, and all-null; lite: two."""
    if n == 0:
        return [[]]
    if n == 1:
        return ([[v] for v in vals] + [[None]]) if full \
            else [[vals[0]], [None]]
    k = len(vals)
    if n == 2:
        if not full:
            return [[vals[0], None], [None, vals[1 % k]]]
        out = []
        for i, v in enumerate(vals):
            out.append([v, None])
            out.append([None, v])
            out.append([v, vals[(i + 1) % k]])
        out.append([None, None])
        return out
    # n == 3
    if not full:
        return [[vals[0], None, vals[1 % k]], [None, vals[1 % k], None]]
    out = []
    for i, v in enumerate(vals):
        out.append([v, None, vals[(i + 1) % k]])
        out.append([None, v, None])
        out.append([v, vals[(i + 1) % k], vals[(i + 2) % k]])
    out.append([None, None, None])
    return out


def specs(tier, n, full):
    """[(kind, type, format, vector)]"""
    out = []
    for (k, t, f, vals) in kinds(tier):
        for vec in vectors(vals, n, full):
            out.append((k, t, f, vec))
    return out


NAMESETS = [['k', 'v', 'w'], ['Né', 'x y', 'A']]


def mk_table(colspecs, names=None):
    names = names or NAMESETS[0]
    cols = []
    for i, (k, t, f, vec) in enumerate(colspecs):
        c = {'name': names[i], 'kind': k, 'type': t}
        if f:
            c['format'] = f
        cols.append(c)
    n = len(colspecs[0][3])
    rows = [[cs[3][r] for cs in colspecs] for r in range(n)]
    return cols, rows


def has_bool(colspecs):
    return any(cs[1] == 'boolean' for cs in colspecs)


EOLS = ['\n', '\r\n']
BASE_DIALECT = {'delimiter': ',', 'encoding': 'utf-8', 'header': 'present',
                'boolformat': None, 'eol': '\n'}

#: column-description variants ("meta" dimension).  titles-<where>-<form>:
#: CSVW "titles" on all / the first / the last column, written as a string,
#: a list or a language map; the header row (when there is one) then holds
#: the first title, not the name.  virtual-last: a virtual column description
#: after the real ones.  noname-*: "name" left out, only "titles".
TITLE_OF = {'k': 'K title', 'v': 'Vtitle', 'w': 'W-title',
            'Né': 'Né title', 'x y': 'XY', 'A': 'A title'}
META_TITLES = ['titles-all-str', 'titles-all-list', 'titles-all-lang',
               'titles-first-str', 'titles-last-str', 'titles-all-langlist']
META_OTHER = ['virtual-last']
META_NONAME = ['noname-first', 'noname-all']
#: titles whose URL-encoding is the identity (name defaults to first title)
NONAME_TITLE = {'k': 'Ktitle', 'v': 'Vtitle', 'w': 'Wtitle'}


def apply_meta(cols, meta):
    """Column descriptions of the case with the meta variant applied."""
    cols = [dict(c) for c in cols]
    if meta == 'plain' or meta == 'virtual-last':
        return cols
    kind, where = meta.split('-')[0], meta.split('-')[1]
    idx = {'all': range(len(cols)), 'first': [0],
           'last': [len(cols) - 1]}[where]
    for i in idx:
        c = cols[i]
        if kind == 'noname':
            c['titles'] = NONAME_TITLE[c['name']]
            c['noname'] = True
            continue
        t = TITLE_OF[c['name']]
        form = meta.split('-')[2]
        c['titles'] = {'str': t, 'list': [t, 'Other ' + t],
                       'lang': {'en': t},
                       'langlist': {'en': [t, 'Other ' + t]}}[form]
    return cols


#: CSVW datatype names that tdda documents (table CSVW_TYPE_TO_MTYPE, taken
#: from the CSVW primer) as another spelling of a logical type:
#: (alias, logical type, a valid value)
ALIASES = (
    [(a, 'integer', 5) for a in (
        'long', 'int', 'short', 'byte', 'unsignedLong', 'unsignedInt',
        'unsignedShort', 'unsignedByte', 'nonNegativeInteger',
        'positiveInteger')] +
    [(a, 'integer', -7) for a in ('nonPositiveInteger', 'negativeInteger')] +
    [(a, 'number', 2.5) for a in ('double', 'decimal', 'float')] +
    [(a, 'string', '007') for a in (
        'normalizedString', 'anyURI', 'token', 'language', 'Name', 'NMTOKEN',
        'xml', 'html', 'json')] +
    [('dateTime', 'datetime', T1)])


def case_b(colspecs, dialect=None, names=None, form='base', layout='single',
           route='both', explicit=False, meta='plain', opt=None,
           pathform='abs', mdpathform='abs'):
    cols, rows = mk_table(colspecs, names)
    d = dict(BASE_DIALECT)
    d.update(dialect or {})
    c = {'part': 'b', 'cols': cols, 'rows': rows, 'dialect': d,
         'form': form, 'layout': layout, 'route': route,
         'explicit': explicit, 'meta': meta}
    # the argument dimensions are only written when they deviate (older
    # replay files stay valid)
    if opt is not None:
        c['opt'] = opt
    if pathform != 'abs':
        c['pathform'] = pathform
    if mdpathform != 'abs':
        c['mdpathform'] = mdpathform
    return c


def opt_allowed(opt, layout, route):
    """Combinations csv2pandas documents: use_table_name needs the data
    path; the second table of a group has to be asked for."""
    if opt == 'use_table_name' and route == 'mdonly':
        return False
    if layout == 'tables2-second' and opt not in ('table_number',
                                                  'use_table_name'):
        return False
    return True


def diagonal_tables(tier, ns=(0, 1)):
    """Each lite column spec next to its cyclic successor: every kind and
    every lite vector once in each position."""
    out = []
    for n in ns:
        lite = specs(tier, n, False)
        for i, a in enumerate(lite):
            out.append([a, lite[(i + 1) % len(lite)]])
    return out


def one_deviations():
    out = []
    for x in DELIMS[1:]:
        out.append({'delimiter': x})
    for x in ENCODINGS[1:]:
        out.append({'encoding': x})
    for x in HEADERS[1:]:
        out.append({'header': x})
    for x in BOOLFMTS[1:]:
        out.append({'boolformat': x})
    for x in EOLS[1:]:
        out.append({'eol': x})
    return out


def all_dialects(min_dev=0, max_dev=99, eols=('\n',)):
    for de, en, he, bo, eo in itertools.product(DELIMS, ENCODINGS, HEADERS,
                                                BOOLFMTS, eols):
        d = {'delimiter': de, 'encoding': en, 'header': he, 'boolformat': bo,
             'eol': eo}
        ndev = sum(1 for k in d if d[k] != BASE_DIALECT[k])
        if min_dev <= ndev <= max_dev:
            yield d


# ------------------------------------------------------------ histories (E3)

#: three 3-row tables for the history layers; the strings Y / N collide with
#: boolean spellings on purpose, x<D>y carries the delimiter
H_TABLES = [
    [('boolean', 'boolean', None, [True, False, None]),
     ('integer', 'integer', None, [1, None, -7]),
     ('string', 'string', None, ['Y', None, 'N'])],
    [('number', 'number', None, [3.0, None, 1.5]),
     ('date-dmy', 'date', 'd/M/yyyy', [D3, D1, None]),
     ('datetime-fmt', 'datetime', 'dd.MM.yyyy HH:mm', [None, T2, T1])],
    [('boolean', 'boolean', None, [False, True, True]),
     ('date-iso', 'date', None, [D1, None, D2]),
     ('string', 'string', None, ['a', 'é', 'x<D>y'])],
]
H_TABLE_SEQS = {2: [(0, 0), (1, 1), (2, 2), (0, 1), (1, 2), (2, 0)],
                3: [(0, 0, 0), (1, 1, 1), (2, 2, 2), (0, 1, 0), (1, 2, 1),
                    (2, 0, 2)]}

H_DATEFMTS = [['d/M/yyyy', 'dd.MM.yyyy HH:mm'],
              ['M/d/yyyy', 'MM.dd.yyyy HH:mm'],
              [None, None],
              ['yyyy-MM-dd', 'yyyy-MM-ddTHH:mm:ss'],
              ['dd.MM.yy', 'yyyy-MM-dd HH:mm:ss.SSS']]

#: (aspect, variants, what the last table needs); a variant is a dict of
#: 'dialect' / 'datefmt' / 'columns' / 'rows' / case_b keywords
H_ASPECTS = [
    ('bool', [{'dialect': {'boolformat': x}} for x in BOOLFMTS_WIDE],
     'boolean'),
    ('delimiter', [{'dialect': {'delimiter': x}} for x in DELIMS], None),
    ('encoding', [{'dialect': {'encoding': x}} for x in ENCODINGS], None),
    ('header', [{'dialect': {'header': x}} for x in HEADERS], None),
    ('datefmt', [{'datefmt': x} for x in H_DATEFMTS], 'temporal'),
    ('columns', [{'columns': x} for x in
                 ('asis', 'reversed', 'retyped', 'fewer', 'renamed')], None),
    ('rows', [{'rows': x} for x in ('asis', 'reversed', 'none', 'first')],
     None),
    ('meta', [{}, {'meta': 'titles-all-str'}, {'meta': 'virtual-last'},
              {'form': 'inline'}, {'layout': 'tables'}, {'layout': 'linked'},
              {'explicit': True}, {'route': 'mdonly'}, {'route': 'findmd'},
              {'route': 'kwargs'}, {'route': 'kwargs-dict'}],
     None),
    ('opt', [{}] + [{'opt': o} for o in (
        'upgrade_possible_ints', 'upgrade_types-false', 'return_md',
        'kw-redundant', 'table_number')], None),
    ('paths', [{}, {'pathform': 'bare', 'mdpathform': 'bare'},
               {'pathform': 'sub', 'mdpathform': 'sub'},
               {'pathform': 'dot', 'mdpathform': 'abs'}], None),
]


def h_label(variant):
    if not variant:
        return 'default'
    return ','.join('%s=%s' % (k, json.dumps(variant[k], sort_keys=True,
                                             ensure_ascii=True))
                    for k in sorted(variant))


def h_step(ti, variant):
    """The case_b of history table `ti` with the variant applied."""
    cs = [list(x) for x in H_TABLES[ti]]
    names = list(NAMESETS[0])
    v = dict(variant)
    datefmt = v.pop('datefmt', None)
    if datefmt is not None:
        for c in cs:
            if c[1] in ('date', 'datetime'):
                f = datefmt[0] if c[1] == 'date' else datefmt[1]
                c[2] = f
                c[0] = c[1] + ('-iso' if not f else '-fmt')
    how = v.pop('columns', 'asis')
    if how == 'reversed':
        cs.reverse()
        names = names[:len(cs)][::-1]
    elif how == 'retyped':
        cs = cs[1:] + cs[:1]
    elif how == 'fewer':
        cs = cs[:-1]
    elif how == 'renamed':
        names = list(NAMESETS[1])
    rows = v.pop('rows', 'asis')
    for c in cs:
        if rows == 'reversed':
            c[3] = c[3][::-1]
        elif rows == 'none':
            c[3] = []
        elif rows == 'first':
            c[3] = c[3][:1]
    dialect = dict(v.pop('dialect', {}))
    if has_bool(cs) and 'boolformat' not in dialect:
        dialect['boolformat'] = 'Y|N'
    return case_b([tuple(c) for c in cs], dialect, names=names, **v)


def h_applies(ti, needs):
    types = [c[1] for c in H_TABLES[ti]]
    if needs == 'boolean':
        return 'boolean' in types
    if needs == 'temporal':
        return 'date' in types or 'datetime' in types
    return True


def history_cases(length):
    """Every sequence of `length` variants of ONE aspect in which neighbours
    differ (and the identical repetition of the default), x table sequences
    x same / distinct file names."""
    for (aspect, variants, needs) in H_ASPECTS + [('same', [{}], None)]:
        idx = range(len(variants))
        seqs = [q for q in itertools.product(idx, repeat=length)
                if all(q[i] != q[i + 1] for i in range(length - 1))]
        if aspect == 'same':
            seqs = [(0,) * length]
        for q in seqs:
            for tis in H_TABLE_SEQS[length]:
                if not h_applies(tis[-1], needs):
                    continue
                for files in ('same', 'distinct'):
                    steps = []
                    for i, (ti, vi) in enumerate(zip(tis, q)):
                        st = h_step(ti, variants[vi])
                        if files == 'distinct':
                            st['stem'] = 't%d' % i
                        steps.append(st)
                    yield {'part': 'h', 'aspect': aspect, 'files': files,
                           'tables': list(tis),
                           'labels': [h_label(variants[vi]) for vi in q],
                           'steps': steps}


#: quick time shapes for the junction layers (fraction width and junction
#: separators are varied independently; thorough takes every shape)
SEP_TIME_SHAPES_QUICK = ('HH:mm', 'HH:mm:ss', 'HH:mm:ss.SSS')


# ---------------------------------------------------------------- the check

def parse_iso(s):
    return datetime.datetime.fromisoformat(s)


def msg_class(e):
    m = str(e).split('\n')[0]
    m = re.sub(r"'[^']*'|\"[^\"]*\"", '_', m)
    m = re.sub(r'\d+', '#', m)
    return '%s:%s' % (type(e).__name__, m[:48].strip())


class ReturnShape(Exception):
    """csv2pandas(return_md=True) did not return (frame, metadata)."""


_CONTAINERS = (dict, list, set, bytearray)


def _snap(obj):
    try:
        return copy.deepcopy(obj)
    except Exception:
        return copy.copy(obj)


class PristineState(object):
    """The state "tdda imported, nothing called yet", found BY INTROSPECTION
    of every imported tdda module: every module-level binding, every
    non-callable class attribute of the classes defined there, the contents
    of every mutable container among them and among the default arguments of
    the functions and methods defined there, and every functools cache.
    restore() puts all of it back without re-importing."""

    def __init__(self, prefix='tdda'):
        self.mods = [m for (n, m) in sorted(sys.modules.items())
                     if m is not None and (n == prefix or
                                           n.startswith(prefix + '.'))]
        self.names = {}        # module name -> {name: object}
        self.class_attrs = []  # (class, {attr: object})
        self.containers = []   # (live, saved)
        self.caches = []
        seen = set()
        for m in self.mods:
            mine = {}
            for (k, v) in list(vars(m).items()):
                if k.startswith('__') or inspect.ismodule(v):
                    continue
                mine[k] = v
                self._visit(v, m.__name__, seen)
            self.names[m.__name__] = mine

    def _visit(self, v, modname, seen):
        if id(v) in seen:
            return
        if isinstance(v, _CONTAINERS):
            seen.add(id(v))
            self.containers.append((v, _snap(v)))
        elif inspect.isclass(v) and v.__module__ == modname:
            seen.add(id(v))
            attrs = {}
            for (a, x) in list(vars(v).items()):
                f = getattr(x, '__func__', x)
                if inspect.isfunction(f) or hasattr(f, 'cache_clear'):
                    self._visit(f, f.__module__, seen)
                    continue
                if a.startswith('__') or callable(x) or \
                        isinstance(x, property):
                    continue
                attrs[a] = x
                if isinstance(x, _CONTAINERS):
                    self._visit(x, modname, seen)
            self.class_attrs.append((v, attrs))
        elif hasattr(v, 'cache_clear') and callable(v.cache_clear):
            seen.add(id(v))
            self.caches.append(v)
            w = getattr(v, '__wrapped__', None)
            if w is not None:
                self._visit(w, modname, seen)
        elif inspect.isfunction(v) and v.__module__ == modname:
            seen.add(id(v))
            for d in list(v.__defaults__ or ()) + \
                    list((v.__kwdefaults__ or {}).values()):
                if isinstance(d, _CONTAINERS):
                    self._visit(d, modname, seen)

    def restore(self):
        for m in self.mods:
            mine = self.names[m.__name__]
            for k in list(vars(m)):
                if k.startswith('__') or inspect.ismodule(vars(m)[k]):
                    continue
                if k not in mine:
                    delattr(m, k)
            for (k, v) in mine.items():
                if vars(m).get(k, None) is not v:
                    setattr(m, k, v)
        for (cls, attrs) in self.class_attrs:
            for a in list(vars(cls)):
                x = vars(cls)[a]
                if a.startswith('__') or callable(x) or \
                        isinstance(x, (staticmethod, classmethod, property)):
                    continue
                if a not in attrs:
                    delattr(cls, a)
            for (a, x) in attrs.items():
                if vars(cls).get(a, None) is not x:
                    setattr(cls, a, x)
        for (live, saved) in self.containers:
            fresh = _snap(saved)
            if isinstance(live, dict):
                live.clear()
                live.update(fresh)
            elif isinstance(live, set):
                live.clear()
                live.update(fresh)
            else:
                live[:] = fresh
        for c in self.caches:
            c.cache_clear()


class C16(Check):
    pid = 'C16'
    title = ('CSV files described by CSVW metadata load with the declared '
             'types and values')
    technique = ('bounded exhaustive enumeration of (CSVW date pattern x '
                 'boundary instant) and (small typed table x CSVW dialect x '
                 'metadata layout) on real files through '
                 'tdda.serial.reader.csv2pandas, compared with an own '
                 'UAX35 formatter / CSV writer / type table')
    rule = ('(a) cases = every date part of the documented grammar (d|dd x '
            'M|MM x yy|yyyy x orders dmy/mdy/ymd x separators - / . and the '
            'separator-free padded forms = 78; thorough: also space and '
            'mixed separators = 246, and the inline "format" spelling), each '
            'with no time part or {space,T} x {HH:mm, HH:mm:ss, .S, .SS, '
            '.SSS} (the canonical patterns), x 10 (quick) / 90 (thorough) '
            'boundary instants, through csvw_date_format_to_md_date_format '
            '+ strptime for every instant and through csv2pandas as one '
            'multi-row file with a null per pattern (date-only patterns and '
            'thorough: also one file per instant); separators at every '
            'junction (between date fields, date-time, hour-minute, '
            'minute-second, second-fraction) by a deviation bound on the '
            'pattern: every canonical pattern with ONE junction taking every '
            'other separator of {- / . : space T} (quick: date parts whose '
            'day and month widths agree, 42 of 78, x {none, HH:mm, HH:mm:ss, '
            'HH:mm:ss.SSS} = 6.7k patterns; thorough: all 246 date parts x '
            'all shapes, and TWO deviating junctions on the 78 x {none, '
            'HH:mm:ss.SSS}); the variants of one canonical pattern are '
            'loaded as columns of one file, and one file each if anything '
            'disagrees; (b) cases = tables of 2 (thorough: also 3) columns '
            'over 8 (thorough 10) column kinds boolean/integer/number/'
            'string/date x2 formats/datetime x2 formats (+ every datatype '
            'alias tdda documents) with 0-2 (thorough 0-3) rows and nulls x '
            'delimiter {, | tab ;} x encoding {utf-8, latin-1, utf-16} x '
            'header {present, "header": false, "headerRowCount": 0} x '
            'boolean format {default, Y|N, 1|0; histories: also N|Y, T|F, '
            'F|T} x line terminator {LF, CRLF} '
            'x column descriptions {plain, "titles" as string / list / '
            'language map on all or one column with the header row holding '
            'the title, "name" absent, trailing virtual column} x metadata '
            'form {datatype object, inline format} x layout {url+'
            'tableSchema, tables[], linked schema file, group of two tables} '
            'x lookup {csv+metadata path, metadata path only, findmd, '
            'gen_pandas_kwargs + pandas.read_csv with the metadata as path '
            'or as loaded document} x dialect defaults '
            '{omitted, all spelt out incl. "null": ""}, organised as base / '
            'one deviation / two deviations (thorough: more) layers; x every '
            'keyword of csv2pandas at one non-default value (b-opts) x every '
            'spelling of path / mdpath: absolute, ./x, dir/x, bare x, '
            'pathlib absolute and bare (b-paths); (h) E3 histories of 2 '
            '(thorough 3) loads in one process from the pristine module '
            'state, neighbours differing in one aspect {boolean spellings, '
            'delimiter, encoding, header mode, date formats, column set, '
            'rows, metadata form/layout/route, csv2pandas option, path '
            'spelling} x 6 table sequences x same (rewritten) / distinct '
            'file names, last load compared with the same load from the '
            'pristine state; '
            'non-trivial = at least one cell or instant for which the model '
            'says "must" was compared (tables: at least one non-null '
            'specified cell); every failing table is re-loaded with each '
            'configuration deviation put back to its default to name the '
            'deviations the failure needs')
    assumptions = [
        'pinned pandas 3.0.6 / python 3.12 strptime are the trusted readers '
        'behind the translated formats; the token ISO8601 is read with '
        'pandas.to_datetime(format="ISO8601")',
        'gray (unspecified): two-digit years outside 1969-2068; unpadded d/M '
        'next to another field without separator (not generated); strings '
        'in pandas\' default NA set (NA, null, ...): CSVW says they are '
        'strings, tdda pins them as nulls in testdata/nulls1.*',
        'not generated because CSVW defaults make them ambiguous: strings '
        'with leading/trailing blanks (trim), strings starting with # '
        '(commentPrefix), empty strings (equal to the null marker), '
        'single-column tables (a null row is a blank line), "header": false '
        'together with a contradicting "headerRowCount"; dialect properties '
        'outside the statement (skipRows, quoteChar, commentPrefix, trim, '
        '... ) are only ever written with their CSVW default values',
        'a column description without "name" (only "titles"): CSVW derives '
        'the name from the first title; tdda reports the description as a '
        'metadata error (md.errors) instead: a reported refusal is counted '
        'as unspecified, a silent load is compared with the CSVW reading',
        'with "titles" the header row holds the first title and the loaded '
        'column names must be the declared "name"s (tdda documents this by '
        'its test027/test011 expectations)',
        'dtype families accepted as "the declared type": boolean|bool, '
        'Int64|int64, float64|Float64, string|str, datetime64[any unit] '
        'without time zone',
        'thorough instants are a fixed alphabet: 9 years x 8 month/day pairs '
        'with six clock times in rotation + every clock time on one date; '
        'fractions below the pattern\'s digits are cut, not rounded (UAX35)',
        'bounds: 2-3 columns, 0-3 rows, the value alphabets listed in '
        'checks/c16.py',
        'argument forms: relative str paths (./x, dir/x, bare x; cwd set for '
        'the call) are paths like any other and must give the same result; '
        'a pathlib.Path that csv2pandas refuses (exception) is unspecified '
        '(tdda documents "path", the statement is silent), one it accepts '
        'must load the described table',
        'csv2pandas keywords: upgrade_possible_ints=True is documented for '
        'columns that are float "as result of nulls", a DECLARED type wins; '
        'with upgrade_types=False names, rows and values are decided but a '
        'dtype other than the declared one is unspecified; table groups with '
        'two tables are generated only with the case\'s table first, or '
        'second and asked for by table_number / use_table_name',
        'route gen_pandas_kwargs + pandas.read_csv ("as closely as possible"):'
        ' the dtype of a date/datetime column of a ZERO-row table is '
        'unspecified (no read_csv keyword can type an empty column)',
        'histories: "fresh state" = every module-level / class-level binding '
        'and mutable container (incl. mutable default arguments) of the '
        'imported tdda modules put back by introspection, functools caches '
        'cleared; state kept elsewhere (closures, C extensions) would only be '
        'seen by the absolute oracle, not by the differential clause',
        'boolean spellings that pandas itself reads with the OTHER polarity '
        '("0|1", "false|true": pandas\' built-in 1/true and 0/false win over '
        'true_values/false_values) are generated in the history layers (each '
        'also loaded alone); the silently wrong values they give on /repo are '
        'a recorded known finding',
    ]

    # -------------------------------------------------------------- layers
    def layers(self, tier):
        L = [('a-dates', 'date-only patterns x instants'),
             ('a-datetimes', 'date part x 10 time parts x instants'),
             ('a-sep1', 'every canonical pattern with ONE junction taking '
                        'every other separator of - / . : space T'),
             ('b-base', 'all 2-column tables, default dialect'),
             ('b-dev1', 'one dialect deviation x tables'),
             ('b-meta1', 'one metadata deviation (titles forms/placement, '
                         'name absent, virtual column, inline format, '
                         'layout, lookup route, explicit defaults) x every '
                         'header mode x tables'),
             ('b-aliases', 'every documented datatype alias'),
             ('b-dialects', 'every dialect with exactly 2 deviations '
                            '(thorough: >= 2) x lite tables'),
             ('b-opts', 'every keyword of csv2pandas at one non-default '
                        'value (mdtype, upgrade_types, upgrade_possible_ints, '
                        'return_md, table_number, use_table_name, verbosity, '
                        '**kw) x tables; x routes x layouts incl. groups of '
                        'two tables; the value-sensitive ones x one dialect '
                        'deviation'),
             ('b-paths', 'every spelling of path / mdpath (absolute, ./x, '
                         'dir/x, bare x, pathlib; cwd set accordingly) x '
                         'routes x layouts'),
             ('h-pairs', 'E3: two loads in one process over tables whose '
                         'metadata differ in one aspect, from the pristine '
                         'module state; last load == same load from the '
                         'pristine state')]
        if tier == 'thorough':
            L += [('a-inline', 'patterns given as inline "format"'),
                  ('a-sep2', 'canonical patterns with TWO junctions '
                             'deviating'),
                  ('b-meta2', 'every pair of metadata deviations (form, '
                              'layout, route, explicit defaults, titles '
                              'variants) x header modes'),
                  ('b-rows3', '3-row tables, default dialect and one '
                              'deviation'),
                  ('b-cols3', '3-column tables x every dialect with <= 2 '
                              'deviations'),
                  ('b-names', 'non-ASCII / spaced column names x every '
                              'dialect x titles'),
                  ('b-dialects-full', 'every dialect x full 1-row tables'),
                  ('h-triples', 'E3: three loads in one process')]
        return L

    def cases(self, tier, layer):
        if layer.startswith('a-'):
            dps = S.date_patterns(tier)
            tps = S.time_parts()
            if layer == 'a-dates':
                for dp in dps:
                    yield {'part': 'a', 'date': dp, 'times': [None],
                           'form': 'base', 'single': True}
            elif layer == 'a-datetimes':
                # quick: one multi-row file per pattern + every instant
                # through the translation; thorough: also one file per
                # instant
                for dp in dps:
                    for j in S.TIME_JOINS:
                        yield {'part': 'a', 'date': dp,
                               'times': [j + s for s in S.TIME_SHAPES],
                               'form': 'base',
                               'single': tier == 'thorough'}
            elif layer == 'a-inline':
                # how the format is spelt does not change its translation:
                # the 78 patterns of the quick grammar are enough here
                for dp in S.date_patterns('quick'):
                    yield {'part': 'a', 'date': dp, 'times': tps,
                           'form': 'inline', 'single': False}
            elif layer in ('a-sep1', 'a-sep2'):
                k = 1 if layer == 'a-sep1' else 2
                shapes = S.TIME_SHAPES if (tier == 'thorough' and k == 1) \
                    else SEP_TIME_SHAPES_QUICK if k == 1 \
                    else ('HH:mm:ss.SSS',)
                base = dps if k == 1 else S.date_patterns('quick')
                if tier != 'thorough':
                    # quick: day and month widths go together (d with M,
                    # dd with MM) x both year widths: 42 of the 78 date
                    # parts; thorough takes all of them
                    base = [dp for dp in base
                            if len(dp['d']) == len(dp['M'])]
                for dp in base:
                    yield {'part': 'a', 'date': dp, 'times': [None],
                           'form': 'base', 'single': False, 'junctions': k}
                    for j in S.TIME_JOINS:
                        for sh in shapes:
                            yield {'part': 'a', 'date': dp,
                                   'times': [j + sh], 'form': 'base',
                                   'single': False, 'junctions': k}
            return
        if layer.startswith('h-'):
            for c in history_cases(2 if layer == 'h-pairs' else 3):
                yield c
            return
        for c in self.cases_b(tier, layer):
            yield c

    def cases_b(self, tier, layer):
        if layer == 'b-opts':
            # (1) value-sensitive options x the tables of b-base
            # (quick: upgrade_types=False, whose dtype clause is weak, only
            # on the 0- and 1-row tables)
            for opt in OPTS_VALUE:
                for n in (0, 1, 2):
                    if n == 2 and opt == 'upgrade_types-false' and \
                            tier != 'thorough':
                        continue
                    sp = specs(tier, n, True)
                    lite = specs(tier, n, False)
                    if n < 2:
                        pairs = [(a, b) for a in sp for b in sp]
                    else:
                        pairs = [(a, b) for a in sp for b in lite] + \
                                [(b, a) for a in sp for b in lite]
                    for (a, b) in pairs:
                        yield case_b([a, b], opt=opt)
            # (2) ... x one dialect deviation x lite tables
            for opt in OPTS_VALUE:
                for dev in one_deviations():
                    for n in ((1, 2) if tier == 'thorough' else (1,)):
                        lite = specs(tier, n, False)
                        for a in lite:
                            for b in lite:
                                if 'boolformat' in dev and \
                                        not has_bool([a, b]):
                                    continue
                                yield case_b([a, b], dev, opt=opt)
            # (3) every option (and none) x route x layout x header mode
            heads = HEADERS if tier == 'thorough' else [HEADERS[0],
                                                        HEADERS[2]]
            for pair in diagonal_tables(tier):
                for opt in [None] + OPTS:
                    for route in ('both', 'mdonly', 'findmd'):
                        for layout in ('single', 'tables', 'tables2-first',
                                       'tables2-second', 'linked'):
                            if not opt_allowed(opt, layout, route):
                                continue
                            if layout == 'linked' and tier != 'thorough':
                                continue
                            if opt is None and layout in ('single', 'tables',
                                                          'linked'):
                                continue        # b-meta1 has these
                            for he in heads:
                                yield case_b(pair, {'header': he}, opt=opt,
                                             route=route, layout=layout)
        elif layer == 'b-paths':
            tables = diagonal_tables(tier, (0, 1, 2) if tier == 'thorough'
                                     else (0, 1))
            for pair in tables:
                for route in ('both', 'mdonly', 'findmd', 'kwargs'):
                    for layout in ('single', 'tables', 'linked'):
                        if route == 'kwargs' and layout == 'tables' and \
                                tier != 'thorough':
                            continue
                        for (pf, mf) in path_form_pairs(route):
                            yield case_b(pair, route=route, layout=layout,
                                         pathform=pf, mdpathform=mf)
        elif layer == 'b-base':
            for n in (0, 1, 2):
                sp = specs(tier, n, True)
                lite = specs(tier, n, False)
                if n < 2 or tier == 'thorough':
                    pairs = [(a, b) for a in sp for b in sp]
                else:
                    pairs = [(a, b) for a in sp for b in lite] + \
                            [(b, a) for a in sp for b in lite]
                for (a, b) in pairs:
                    yield case_b([a, b])
        elif layer == 'b-dev1':
            for dev in one_deviations():
                for n in (0, 1, 2):
                    full = specs(tier, n, True)
                    lite = specs(tier, n, False)
                    if n < 2:
                        pairs = [(a, b) for a in full for b in full]
                    elif tier == 'thorough':
                        pairs = [(a, b) for a in full for b in lite] + \
                                [(b, a) for a in full for b in lite]
                    else:
                        pairs = [(a, b) for a in lite for b in lite]
                    for (a, b) in pairs:
                        if 'boolformat' in dev and not has_bool([a, b]):
                            continue
                        yield case_b([a, b], dev)
        elif layer == 'b-meta1':
            metas = META_TITLES + META_OTHER if tier == 'thorough' \
                else META_TITLES[:4] + META_OTHER
            devs = [dict(meta=m) for m in metas] + \
                   [dict(form='inline'), dict(layout='tables'),
                    dict(layout='linked'), dict(route='mdonly'),
                    dict(route='findmd'), dict(explicit=True),
                    dict(route='kwargs'), dict(route='kwargs-dict')]
            for n in (0, 1):
                lite = specs(tier, n, False)
                for a in lite:
                    for b in lite:
                        bfs = BOOLFMTS[:2] if has_bool([a, b]) else [None]
                        for dev in devs:
                            # titles and explicit defaults touch the header
                            # handling: all three header modes; the others:
                            # present and headerRowCount 0 (thorough: all)
                            heads = HEADERS if ('meta' in dev or
                                                'explicit' in dev or
                                                tier == 'thorough') \
                                else [HEADERS[0], HEADERS[2]]
                            for he in heads:
                                for bf in bfs:
                                    if bf and dev.get('form') != 'inline':
                                        continue
                                    yield case_b([a, b],
                                                 {'header': he,
                                                  'boolformat': bf}, **dev)
                        for m in META_NONAME:
                            yield case_b([a, b], meta=m)
        elif layer == 'b-meta2':
            metas = ['plain'] + META_TITLES + META_OTHER
            for n in (0, 1):
                lite = specs('quick', n, False)
                for a in lite:
                    for b in lite:
                        bfs = BOOLFMTS[:2] if has_bool([a, b]) else [None]
                        for form, layout, route, ex, he, bf, m in \
                                itertools.product(
                                    ('base', 'inline'),
                                    ('single', 'tables', 'linked'),
                                    ('both', 'mdonly', 'findmd'),
                                    (False, True), HEADERS, bfs, metas):
                            ndev = ((form != 'base') + (layout != 'single') +
                                    (route != 'both') + ex + (m != 'plain'))
                            if ndev != 2:
                                continue
                            yield case_b([a, b], {'header': he,
                                                  'boolformat': bf},
                                         form=form, layout=layout,
                                         route=route, explicit=ex, meta=m)
        elif layer == 'b-aliases':
            partners = [('string', 'string', None, 'a'),
                        ('date-dmy', 'date', 'd/M/yyyy', D3)]
            for (alias, typ, val) in ALIASES:
                for vec in ([val], [None], [val, None], [None, val]):
                    for (pk, pt, pf, pv) in partners:
                        a = ('alias-' + typ, typ, None, vec)
                        b = (pk, pt, pf, [pv] * len(vec))
                        for pair, pos in (([a, b], 0), ([b, a], 1)):
                            c = case_b(pair)
                            c['cols'][pos]['decl'] = alias
                            yield c
        elif layer == 'b-dialects':
            mx = 99 if tier == 'thorough' else 2
            for d in all_dialects(min_dev=2, max_dev=mx,
                                  eols=EOLS if tier == 'thorough'
                                  else EOLS[:1]):
                for n in ((0, 1, 2) if tier == 'thorough' else (0, 1)):
                    lite = specs(tier, n, False)
                    for a in lite:
                        for b in lite:
                            if d['boolformat'] and not has_bool([a, b]):
                                continue
                            yield case_b([a, b], d)
        elif layer == 'b-rows3':
            for dev in [{}] + one_deviations():
                full = specs(tier, 3, True)
                lite = specs(tier, 3, False)
                for a in full:
                    for b in lite:
                        for pair in ([a, b], [b, a]):
                            if 'boolformat' in dev and not has_bool(pair):
                                continue
                            yield case_b(pair, dev)
        elif layer == 'b-cols3':
            for d in all_dialects(max_dev=2):
                for n in (0, 1):
                    lite = [s for s in specs('quick', n, False)]
                    for a in lite:
                        for b in lite:
                            for c in lite:
                                if d['boolformat'] and \
                                        not has_bool([a, b, c]):
                                    continue
                                if n and not (a[3][0] is None or
                                              c[3][0] is not None):
                                    # keep tables whose first column starts
                                    # with a null or whose last does not
                                    # (halves the product; both orders of
                                    # every kind triple still occur)
                                    continue
                                yield case_b([a, b, c], d)
        elif layer == 'b-names':
            for d in all_dialects():
                for n in (0, 1):
                    lite = specs('quick', n, False)
                    for a in lite:
                        for b in lite:
                            if d['boolformat'] and not has_bool([a, b]):
                                continue
                            for m in ('plain', 'titles-all-str'):
                                yield case_b([a, b], d, names=NAMESETS[1],
                                             meta=m)
        elif layer == 'b-dialects-full':
            for d in all_dialects(min_dev=2):
                full = specs(tier, 1, True)
                lite = specs(tier, 1, False)
                for a in full:
                    for b in lite:
                        for pair in ([a, b], [b, a]):
                            if d['boolformat'] and not has_bool(pair):
                                continue
                            yield case_b(pair, d)

    # -------------------------------------------------------------- worker
    def setup_worker(self, tier):
        import pandas as pd
        from tdda.serial.reader import csv2pandas, load_metadata
        from tdda.serial.csvw import csvw_date_format_to_md_date_format
        from tdda.serial.pandasio import gen_pandas_kwargs
        self.gen_pandas_kwargs = gen_pandas_kwargs
        self.pd = pd
        self.csv2pandas = csv2pandas
        self.load_metadata = load_metadata
        self.translate = csvw_date_format_to_md_date_format
        self.tier = tier
        self.home = os.getcwd()
        self.sandbox = tempfile.mkdtemp(prefix='tdda_mc_c16_', dir='/var/tmp')
        self.instants = S.instants(tier)
        # taken before the first call into tdda
        self.pristine = PristineState('tdda')
        self.last_digest = None

    def teardown_worker(self):
        home = getattr(self, 'home', None)
        if home:
            os.chdir(home)
        sb = getattr(self, 'sandbox', None)
        if sb and os.path.isdir(sb):
            shutil.rmtree(sb, ignore_errors=True)
        self.sandbox = None

    # ----------------------------------------------------------- real load
    def spell(self, fn, form):
        """(argument, cwd it needs or None) for the sandbox file `fn` spelt
        in path form `form`."""
        full = os.path.join(self.sandbox, fn)
        if form == 'abs':
            return full, None
        if form == 'dot':
            return './' + fn, self.sandbox
        if form == 'bare':
            return fn, self.sandbox
        if form == 'sub':
            return (os.path.basename(self.sandbox) + '/' + fn,
                    os.path.dirname(self.sandbox))
        if form == 'pathlib':
            return pathlib.Path(full), None
        if form == 'pathlib-bare':
            return pathlib.Path(fn), self.sandbox
        raise ValueError(form)

    @staticmethod
    def option_kwargs(opt, layout, delimiter, encoding):
        if opt is None:
            return {}
        return {
            'mdtype-csvw': {'mdtype': 'csvw'},
            'upgrade_possible_ints': {'upgrade_possible_ints': True},
            'upgrade_types-false': {'upgrade_types': False},
            'return_md': {'return_md': True},
            'table_number': {'table_number': S.table_index(layout)},
            'use_table_name': {'use_table_name': True},
            'verbosity-0': {'verbosity': 0},
            'kw-neutral': {'skipinitialspace': False, 'quotechar': '"'},
            'kw-redundant': {'sep': delimiter, 'encoding': encoding},
        }[opt]

    def load(self, columns, rows, delimiter=',', encoding='utf-8',
             header='present', form='base', layout='single', route='both',
             explicit=False, eol='\n', virtual_last=False,
             want_md_errors=False, opt=None, pathform='abs',
             mdpathform='abs', stem='t', clear=True):
        """Write csv + metadata into the sandbox, run the real csv2pandas.
        -> ('ok', frame) | ('raise', exception) | ('flagged', [errors])
        (the last only with want_md_errors: tdda's own metadata validation
        reports errors for this metadata file).  opt: one csv2pandas keyword
        at a non-default value; pathform / mdpathform: how the two path
        arguments are spelt (the cwd is set for the call and put back);
        stem: base name of the files; clear: empty the sandbox first."""
        if clear:
            for fn in os.listdir(self.sandbox):
                os.unlink(os.path.join(self.sandbox, fn))
        csvpath = os.path.join(self.sandbox, stem + '.csv')
        mdpath = os.path.join(self.sandbox, stem + '-metadata.json')
        with open(csvpath, 'wb') as f:
            f.write(S.csv_bytes(columns, rows, delimiter,
                                header == 'present', encoding, eol))
        with open(mdpath, 'w') as f:
            f.write(json.dumps(S.metadata(
                stem + '.csv', columns, delimiter, encoding, header, form,
                layout, explicit, virtual_last), indent=1,
                ensure_ascii=True))
        if layout == 'linked':
            with open(os.path.join(self.sandbox, S.SCHEMA_FILE), 'w') as f:
                f.write(S.schema_doc(columns, form, virtual_last))
        p_arg, cwd1 = self.spell(stem + '.csv', pathform)
        m_arg, cwd2 = self.spell(stem + '-metadata.json', mdpathform)
        cwds = set(x for x in (cwd1, cwd2) if x)
        if len(cwds) > 1:
            raise ValueError('harness: path forms %s / %s need two cwds'
                             % (pathform, mdpathform))
        kw = self.option_kwargs(opt, layout, delimiter, encoding)
        out, err = io.StringIO(), io.StringIO()
        try:
            with contextlib.redirect_stdout(out), \
                    contextlib.redirect_stderr(err):
                if want_md_errors:
                    md = self.load_metadata(mdpath, verbosity=0)
                    errs = list(getattr(md, 'errors', []) or [])
                    if errs:
                        return 'flagged', errs
                if cwds:
                    os.chdir(list(cwds)[0])
                if route == 'both':
                    df = self.csv2pandas(p_arg, m_arg, **kw)
                elif route == 'mdonly':
                    df = self.csv2pandas(mdpath=m_arg, **kw)
                elif route == 'findmd':
                    df = self.csv2pandas(p_arg, findmd=True, **kw)
                else:
                    # the documented two-step route: keyword arguments for
                    # pandas.read_csv generated from the metadata, given as
                    # a path or as the loaded JSON document
                    if route == 'kwargs':
                        spec = m_arg
                    elif route == 'kwargs-dict':
                        with open(mdpath) as f:
                            spec = json.load(f)
                    else:
                        raise ValueError(route)
                    before = copy.deepcopy(spec)
                    rkw = self.gen_pandas_kwargs(spec)
                    if spec != before:
                        raise ReturnShape('gen_pandas_kwargs changed the '
                                          'document it was given')
                    df = self.pd.read_csv(p_arg, **rkw)
            if opt == 'return_md':
                if not (isinstance(df, tuple) and len(df) == 2 and
                        isinstance(df[0], self.pd.DataFrame) and
                        hasattr(df[1], 'fields')):
                    return 'raise', ReturnShape(
                        'return_md=True returned %s' % type(df).__name__)
                df = df[0]
            return 'ok', df
        except Exception as e:
            return 'raise', e
        finally:
            os.chdir(self.home)

    def observed_cell(self, v):
        pd = self.pd
        if isinstance(v, pd.Timestamp):
            if v.tzinfo is not None:
                return ('tz-instant', str(v))
            if v.nanosecond:
                return ('ns-instant', str(v))
            return ('instant', v.to_pydatetime().isoformat(
                sep='T', timespec='microseconds'))
        if v is None or v is pd.NA or v is pd.NaT:
            return ('null',)
        if isinstance(v, float) and v != v:
            return ('null',)
        if isinstance(v, (bool,)) or type(v).__name__ in ('bool_', 'bool'):
            return ('bool', bool(v))
        if isinstance(v, int) or type(v).__name__.startswith(('int', 'uint')):
            return ('int', int(v))
        if isinstance(v, float) or type(v).__name__.startswith('float'):
            return ('float', float(v))
        if isinstance(v, str):
            return ('str', str(v))
        if isinstance(v, (datetime.datetime, datetime.date)):
            return ('pydate', str(v))
        return ('other:%s' % type(v).__name__, repr(v)[:60])

    # ------------------------------------------------------------ run_case
    def run_case(self, case):
        if case['part'] == 'a':
            return self.run_a(case)
        if case['part'] == 'h':
            return self.run_h(case)
        return self.run_b(case)

    # ---- part (a)
    def run_a(self, case):
        R = Res()
        dp = case['date']
        form = case['form']
        state = {'date_only_ok': None}

        def date_only_ok():
            """lazily: does the bare date pattern work on every instant?
            (only used to attribute a failure to the date or the time part)"""
            if state['date_only_ok'] is None:
                ok = True
                for t in self.instants:
                    if S.pattern_status(t, dp['pattern']) != 'must':
                        continue
                    if self.one_instant(dp['pattern'], 'date', form, t,
                                        None) is not None:
                        ok = False
                        break
                state['date_only_ok'] = ok
            return state['date_only_ok']

        single = case.get('single', True)
        k = case.get('junctions', 0)
        for tp in case['times']:
            base = 'date' if tp is None else 'datetime'
            if k:
                variants = S.junction_deviations(dp, tp, k)
            else:
                variants = [(dp['pattern'] + (tp or ''), None)]
            if k and self.batch_ok(R, variants, base, form):
                continue
            for (pattern, devs) in variants:
                if devs is None:
                    def sig(route, kind, tp=tp):
                        return self.sig_a(route, kind, dp, tp,
                                          tp is None or not date_only_ok(),
                                          form)
                else:
                    def sig(route, kind, tp=tp, devs=devs):
                        # the canonical pattern is checked by the other
                        # layers: name the deviating junction(s), the time
                        # shape and whether the date part has the ISO shape
                        return 'a:%s:%s:junction[%s]:%s:%s' % (
                            route, kind,
                            ','.join('%s=%s' % (j, S.SEP_NAME[x])
                                     for (j, x) in devs),
                            'isodate' if S.is_iso_date(dp) else 'otherdate',
                            'date-only' if tp is None else tp[1:])
                self.check_pattern(R, pattern, base, form, single, sig)
        return R

    def batch_ok(self, R, variants, base, form):
        """All variants of one canonical pattern at once: every instant
        through translation + strptime, and ONE csv file with one date
        column per variant (rows = the instants and a null).  True when
        everything agrees with the model; on any disagreement nothing is
        reported here and the caller checks the variants one by one (one
        file each) so that the signature names the junction."""
        musts = [t for t in self.instants
                 if S.pattern_status(t, variants[0][0]) == 'must']
        if not musts or any(
                S.pattern_status(t, p) != 'must'
                for (p, _) in variants for t in musts):
            return False
        notes = []
        for (pattern, _) in variants:
            for t in musts:
                if self.one_instant(pattern, base, form, t,
                                    'strptime') is not None:
                    return False
                notes.append(self.last_note)
        cols = [{'name': 'id', 'type': 'integer'}] + [
            {'name': 't%d' % i, 'type': base, 'format': p}
            for i, (p, _) in enumerate(variants)]
        rows = [[i] + [t] * len(variants) for i, t in enumerate(musts)]
        rows.append([len(musts)] + [None] * len(variants))
        st, got = self.load(cols, rows, form=form)
        if st != 'ok' or [str(c) for c in got.columns] != \
                [c['name'] for c in cols] or len(got) != len(rows):
            return False
        for c in cols[1:]:
            exp = [S.expected_cell(c, t) for t in musts] + [('null',)]
            obs = [self.observed_cell(v) for v in got[c['name']].tolist()]
            if exp != obs or not S.dtype_ok(base, str(got[c['name']].dtype)):
                return False
        n = len(variants) * len(musts)
        R.ev(n + 1, checked=n + len(variants))
        R.nontrivial = True
        for x in notes:
            R.out('a:strptime:ok:%s' % x)
        R.out('a:batch:ok:%d-patterns' % len(variants))
        if len(musts) < len(self.instants):
            R.unspec += (len(self.instants) - len(musts)) * len(variants)
            R.out('a:unspecified:yy-window')
        return True

    def check_pattern(self, R, pattern, base, form, single, sig):
        """One pattern x every instant: through the translation + strptime
        (always), as one csv file per instant (if `single`), and as one
        multi-row file with a null."""
        musts = []
        for t in self.instants:
            st = S.pattern_status(t, pattern)
            if st != 'must':
                R.unspec += 1
                R.out('a:unspecified:%s' % st)
                continue
            musts.append(t)
            R.nontrivial = True
            for route in (('csv2pandas', 'strptime') if single
                          else ('strptime',)):
                bad = self.one_instant(pattern, base, form, t, route)
                R.ev()
                if bad is None:
                    R.out('a:%s:ok:%s' % (route, self.last_note))
                    continue
                kind, detail = bad
                R.out('a:%s:%s' % (route, kind))
                R.viol(sig(route, kind), 'instant-read-back-exactly', detail,
                       {'pattern': pattern, 'instant': t.isoformat(),
                        'route': route})
        # all instants in one file, plus a null
        if not musts:
            return
        cols = [{'name': 'id', 'type': 'integer'},
                {'name': 't', 'type': base, 'format': pattern}]
        rows = [[i, t] for i, t in enumerate(musts)]
        rows.append([len(musts), None])
        st, got = self.load(cols, rows, form=form)
        R.ev()
        bad = None
        if st == 'raise':
            bad = ('raises:' + msg_class(got),
                   {'exception': repr(got)[:300]})
        else:
            exp = [S.expected_cell(cols[1], t) for t in musts] + \
                  [('null',)]
            obs = [self.observed_cell(v) for v in got['t'].tolist()] \
                if 't' in got.columns else None
            if obs is None or len(obs) != len(exp):
                bad = ('shape', {'columns': [str(c) for c in got.columns],
                                 'rows': len(got)})
            else:
                for e, o, t in zip(exp, obs, musts + [None]):
                    if e != o:
                        bad = ('multirow-' + self.kind_of_diff(e, o),
                               {'expected': e, 'observed': o,
                                'row_instant': str(t)})
                        break
                if bad is None and not S.dtype_ok(base,
                                                  str(got['t'].dtype)):
                    bad = ('dtype:%s' % got['t'].dtype, {})
        if bad is None:
            R.out('a:multirow:ok:%s' % got['t'].dtype)
        else:
            kind, detail = bad
            detail = dict(detail)
            detail['pattern'] = pattern
            detail['texts'] = [S.format_instant(t, pattern)
                               for t in musts][:12]
            R.out('a:multirow:%s' % kind)
            R.viol(sig('csv2pandas-multirow', kind),
                   'instant-read-back-exactly', detail,
                   {'pattern': pattern, 'route': 'multirow'})

    @staticmethod
    def kind_of_diff(e, o):
        if e[0] == 'instant' and o[0] == 'instant':
            return 'wrong[%s]' % ','.join(S.differing_fields(
                parse_iso(e[1]), parse_iso(o[1])))
        return 'wrong[%s->%s]' % (e[0], o[0])

    def one_instant(self, pattern, base, form, t, route):
        """None if the written instant is read back exactly, else
        (kind, detail).  route None = csv2pandas without bookkeeping."""
        text = S.format_instant(t, pattern)
        want = S.written_instant(t, pattern)
        e = ('instant', want.isoformat(sep='T', timespec='microseconds'))
        detail = {'pattern': pattern, 'text': text, 'expected': e[1]}
        if route in (None, 'csv2pandas'):
            cols = [{'name': 'id', 'type': 'integer'},
                    {'name': 't', 'type': base, 'format': pattern}]
            st, got = self.load(cols, [[1, t]], form=form)
            if st == 'raise':
                detail['exception'] = repr(got)[:300]
                return 'raises:' + msg_class(got), detail
            if list(got.columns) != ['id', 't'] or len(got) != 1:
                detail['columns'] = [str(c) for c in got.columns]
                return 'shape', detail
            o = self.observed_cell(got['t'].tolist()[0])
            detail['observed'] = o
            detail['dtype'] = str(got['t'].dtype)
            if o != e:
                return self.kind_of_diff(e, o), detail
            if not S.dtype_ok(base, str(got['t'].dtype)):
                return 'dtype:%s' % got['t'].dtype, detail
            self.last_note = str(got['t'].dtype)
            return None
        # translation + strptime
        try:
            fmt = self.translate(pattern)
        except Exception as ex:
            detail['exception'] = repr(ex)[:300]
            return 'translate-raises:' + type(ex).__name__, detail
        detail['translated'] = fmt
        try:
            if fmt == 'ISO8601':
                got = self.pd.to_datetime(text, format='ISO8601')
                o = self.observed_cell(got)
            else:
                got = datetime.datetime.strptime(text, fmt)
                o = ('instant', got.isoformat(sep='T',
                                              timespec='microseconds'))
        except Exception as ex:
            detail['exception'] = repr(ex)[:300]
            return 'raises:' + type(ex).__name__, detail
        detail['observed'] = o
        if o != e:
            return self.kind_of_diff(e, o), detail
        self.last_note = fmt
        return None

    @staticmethod
    def sig_a(route, kind, dp, tp, blame_date, form='base'):
        """root cause discriminator: which route, what went wrong (which
        fields differ / which exception), and the part of the pattern to
        blame: the date part's shape when the bare date pattern already
        fails, else the time part's shape (+ whether the date part has the
        ISO shape, the documented ISO8601 shortcut)."""
        if blame_date:
            where = 'date[%s,%s,%s%s%s]' % (dp['order'], dp['sep'], dp['d'],
                                            dp['M'], dp['y'])
        else:
            where = 'time[%s,%s]' % (S.time_name(tp),
                                     'isodate' if S.is_iso_date(dp)
                                     else 'otherdate')
        return 'a:%s:%s:%s%s' % (route, kind, where,
                                 '' if form == 'base' else ':form=' + form)

    # ---- part (b)
    def eval_b(self, case):
        """One real load of the case, compared with the model.
        -> (fails, info); fails = [{'key', 'col', 'clause', 'detail',
        'sub', 'out'}] (key = what went wrong, without the configuration),
        info = {'outs', 'unspec', 'nontrivial', 'n'}."""
        d = case['dialect']
        delim = d['delimiter']
        cols = []
        for c in case['cols']:
            c = dict(c)
            if c['type'] == 'boolean' and d['boolformat']:
                c['boolformat'] = d['boolformat']
            cols.append(c)
        meta = case.get('meta', 'plain')
        cols = apply_meta(cols, meta)
        eol = d.get('eol', '\n')
        noname = meta.startswith('noname')
        rows = []
        for r in case['rows']:
            row = []
            for c, v in zip(cols, r):
                if v is None:
                    row.append(None)
                elif c['type'] in ('date', 'datetime'):
                    row.append(parse_iso(v))
                elif c['type'] == 'string':
                    row.append(v.replace('<D>', delim))
                else:
                    row.append(v)
            rows.append(row)
        opt = case.get('opt')
        pathform = case.get('pathform', 'abs')
        mdpathform = case.get('mdpathform', 'abs')
        st, got = self.load(cols, rows, delim, d['encoding'], d['header'],
                            case['form'], case['layout'], case['route'],
                            case['explicit'], eol, meta == 'virtual-last',
                            want_md_errors=noname, opt=opt,
                            pathform=pathform, mdpathform=mdpathform,
                            stem=case.get('stem', 't'),
                            clear=not case.get('keep', False))
        # what was observed, canonically (for the differential clauses)
        if st == 'raise':
            self.last_digest = ['raise', type(got).__name__, msg_class(got)]
        elif st == 'flagged':
            self.last_digest = ['flagged']
        else:
            self.last_digest = [
                'ok', [c if isinstance(c, str) else repr(c)
                       for c in got.columns],
                [str(t) for t in got.dtypes],
                [[list(self.observed_cell(v)) for v in got[c].tolist()]
                 for c in got.columns]]
        n = len(rows)
        exp = [[S.expected_cell(c, v) for c, v in zip(cols, row)]
               for row in rows]
        info = {'outs': [], 'unspec': 0, 'n': n,
                'nontrivial': any(e[0] not in ('null', 'unspecified')
                                  for row in exp for e in row)}
        fails = []
        empty = ':empty' if n == 0 else ''
        detail = {'columns': cols, 'rows': case['rows'], 'dialect': d,
                  'form': case['form'], 'layout': case['layout'],
                  'route': case['route'], 'explicit': case['explicit'],
                  'meta': meta, 'opt': opt,
                  'csv2pandas_keywords': self.option_kwargs(
                      opt, case['layout'], delim, d['encoding']),
                  'pathform': pathform, 'mdpathform': mdpathform,
                  'column_descriptions': S.column_descriptions(
                      cols, case['form'], meta == 'virtual-last'),
                  'csv': S.csv_text(cols, rows, delim,
                                    d['header'] == 'present', eol)}
        if st == 'flagged':
            # "name" is absent: CSVW says the name is then the first title;
            # tdda's metadata validation reports the description as an
            # error instead of guessing: a reported refusal, unspecified
            info['unspec'] += 1
            info['nontrivial'] = False
            info['outs'].append('b:unspecified:name-absent-flagged')
            return [], info

        def fail(key, clause, extra, col=None, sub=None, out=None):
            dd = dict(detail)
            dd.update(extra)
            fails.append({'key': key, 'col': col, 'clause': clause,
                          'detail': dd, 'sub': sub})
            info['outs'].append(out or 'b:%s:%s' % (d['header'], key))

        if st == 'raise' and 'pathlib' in (pathform + mdpathform):
            # the statement does not say which objects may name a file;
            # tdda documents "path".  A refused pathlib.Path is unspecified,
            # one that is accepted has to load the described table
            info['unspec'] += 1
            info['nontrivial'] = False
            info['outs'].append('b:unspecified:pathlib-refused:%s:%s' % (
                'path' if 'pathlib' in pathform else 'mdpath',
                type(got).__name__))
            return [], info
        if st == 'raise':
            fail('raises:' + msg_class(got) + empty, 'loads-without-error',
                 {'exception': repr(got)[:300]})
            return fails, info
        names = [S.declared_name(c) for c in cols]
        obs_names = [c if isinstance(c, str) else repr(c)
                     for c in got.columns]
        if obs_names != names:
            fail('names' + empty, 'declared-column-names',
                 {'observed_names': obs_names})
            return fails, info
        if len(got) != n:
            fail('nrows', 'same-rows', {'observed_rows': len(got)})
            return fails, info
        temporal = ('date', 'datetime')
        for j, c in enumerate(cols):
            dn = str(got[S.declared_name(c)].dtype)
            if not S.dtype_ok(c['type'], dn) and \
                    opt == 'upgrade_types-false':
                # the caller asked tdda not to upgrade column types: which
                # dtype comes back then is not decided by the statement
                info['unspec'] += 1
                info['outs'].append('b:unspecified:upgrade_types-false:'
                                    '%s->%s' % (c['kind'], dn))
                continue
            if not S.dtype_ok(c['type'], dn) and n == 0 and \
                    c['type'] in temporal and \
                    case['route'].startswith('kwargs'):
                # gen_pandas_kwargs promises keyword arguments implementing
                # the metadata "as closely as possible": no read_csv keyword
                # types an EMPTY column as datetime (csv2pandas does it
                # afterwards), so this is not decided
                info['unspec'] += 1
                info['outs'].append('b:unspecified:kwargs-route-empty-'
                                    'temporal->%s' % dn)
                continue
            if not S.dtype_ok(c['type'], dn):
                shape = 'rows0' if n == 0 else \
                    'allnull' if all(r[j] is None for r in rows) else 'vals'
                if c['type'] in temporal:
                    # for date columns what the other columns are matters
                    # (the reader upgrades types via the dtype table of the
                    # non-date columns), the format does not
                    what = 'temporal[%s]' % (
                        'only-temporal-columns' if all(
                            x['type'] in temporal for x in cols)
                        else 'with-other-columns')
                else:
                    what = c['kind']
                fail('dtype:%s->%s:%s' % (what, dn, shape), 'declared-types',
                     {'column': c['name'], 'observed_dtype': dn,
                      'accepted': list(S.DTYPE_NAMES.get(
                          c['type'], ('datetime64[*]',)))},
                     col=j, sub={'column': j},
                     out='b:dtype:%s->%s' % (c['kind'], dn))
                continue
            obs = [self.observed_cell(v) for v in got[S.declared_name(c)].tolist()]
            for i in range(n):
                e, o = exp[i][j], obs[i]
                if e == S.UNSPEC:
                    info['unspec'] += 1
                    info['outs'].append(
                        'b:unspecified:na-string' if c['type'] == 'string'
                        else 'b:unspecified:date')
                    continue
                if e != o:
                    vc = self.value_class(c, rows[i][j], delim)
                    if e[0] == 'instant' and o[0] == 'instant':
                        how = self.kind_of_diff(e, o)
                    else:
                        how = '%s->%s' % (e[0], o[0])
                    fail('value:%s:%s:%s' % (c['kind'], vc, how),
                         'same-values-nulls-included',
                         {'column': c['name'], 'row': i, 'expected': e,
                          'observed': o}, col=j,
                         sub={'column': j, 'row': i},
                         out='b:value:%s:%s' % (c['kind'], vc))
        if not fails:
            info['outs'].append('b:ok:%s:%s:%s:%s:n%d:%s' % (
                d['header'], DELIM_NAME[delim], d['encoding'],
                d['boolformat'], n,
                ','.join(str(got[S.declared_name(c)].dtype) for c in cols)))
        return fails, info

    #: configuration dimensions, their default and how a deviation is named
    DIMS = [
        ('header', 'present', lambda v: v),
        ('delimiter', ',', lambda v: 'delim=' + DELIM_NAME[v]),
        ('encoding', 'utf-8', lambda v: 'enc=' + v),
        ('boolformat', None, lambda v: 'bool=' + v),
        ('eol', '\n', lambda v: 'eol=crlf'),
        ('meta', 'plain', lambda v: 'meta=' + ('titles' if v.startswith(
            'titles') else 'noname' if v.startswith('noname') else v)),
        ('form', 'base', lambda v: 'form=' + v),
        ('layout', 'single', lambda v: 'layout=' + v),
        ('route', 'both', lambda v: 'route=' + v),
        ('explicit', False, lambda v: 'explicit-defaults'),
        ('opt', None, lambda v: 'opt=' + v),
        ('pathform', 'abs', lambda v: 'path=' + v),
        ('mdpathform', 'abs', lambda v: 'mdpath=' + v),
    ]

    @staticmethod
    def get_dim(case, dim):
        if dim in BASE_DIALECT:
            return case['dialect'].get(dim, BASE_DIALECT[dim])
        return case.get(dim, [x[1] for x in C16.DIMS if x[0] == dim][0])

    @staticmethod
    def with_dim(case, dim, value):
        c = dict(case)
        if dim in BASE_DIALECT:
            c['dialect'] = dict(case['dialect'])
            c['dialect'][dim] = value
        else:
            c[dim] = value
        return c

    def run_b(self, case):
        R = Res()
        fails, info = self.eval_b(case)
        R.ev()
        R.nontrivial = info['nontrivial']
        R.unspec += info['unspec']
        for o in info['outs']:
            R.out(o)
        if fails:
            self.report_b(R, case, fails)
        return R

    def report_b(self, R, case, fails):
        devs = [(dim, self.get_dim(case, dim), name)
                for (dim, default, name) in self.DIMS
                if self.get_dim(case, dim) != default]
        # name only the deviations that are necessary for the failure: put
        # each one back to its default (one at a time, one more real load
        # each) and see whether the same failure is still there
        needed = dict((id(f), []) for f in fails)
        for (dim, val, name) in devs:
            default = [x[1] for x in self.DIMS if x[0] == dim][0]
            f2, _ = self.eval_b(self.with_dim(case, dim, default))
            R.ev()
            still = set((f['key'], f['col']) for f in f2)
            for f in fails:
                if (f['key'], f['col']) not in still:
                    needed[id(f)].append(name(val))
        # 'base': no deviation from the default configuration is needed
        ctxs = dict((k, ','.join(v) or 'base') for k, v in needed.items())
        for f in fails:
            R.viol('b:%s:%s' % (f['key'], ctxs[id(f)]), f['clause'],
                   f['detail'], f['sub'])

    # ---- part (h): histories
    def run_h(self, case):
        R = Res()
        steps = case['steps']
        aspect = case['aspect']
        # the history, from the pristine state
        self.pristine.restore()
        seen = []
        for i, st in enumerate(steps):
            if i and case['files'] == 'distinct':
                st = dict(st, keep=True)
            fails, info = self.eval_b(st)
            R.ev()
            seen.append((fails, info, self.last_digest))
            R.unspec += info['unspec']
        R.states = len(steps) + 1
        R.nontrivial = len(steps) > 1 and seen[-1][1]['nontrivial']
        history_dependent = False
        for i, st in enumerate(steps):
            fails, info, digest = seen[i]
            if i:
                # the same load from the pristine state
                self.pristine.restore()
                fails0, _ = self.eval_b(st)
                R.ev()
                fresh = self.last_digest
                if digest != fresh:
                    history_dependent = True
                    if fails:
                        what = ':'.join(fails[0]['key'].split(':')[:2])
                        clause = fails[0]['clause']
                    else:
                        what = 'differs-from-fresh[%s]' % (
                            'outcome' if digest[0] != fresh[0] else
                            'names' if digest[1] != fresh[1] else
                            'dtypes' if digest[2] != fresh[2] else 'values')
                        clause = 'same-result-as-from-fresh-state'
                    detail = {'aspect': aspect, 'history': case['labels'],
                              'tables': case['tables'],
                              'files': case['files'], 'step': i,
                              'after_history': digest, 'fresh': fresh}
                    if fails:
                        detail['load'] = fails[0]['detail']
                    R.viol('h:after-history[%s]:%s' % (aspect, what), clause,
                           detail, {'step': i})
                    continue
            if fails:
                # fails whatever ran before: reported as the table layers do
                self.pristine.restore()
                self.report_b(R, dict(st, keep=False), fails)
        # leave no trace for the cases that follow in this worker
        self.pristine.restore()
        R.out('h:%s:%s:%s' % (aspect, case['files'],
                              'history-dependent' if history_dependent else
                              '|'.join(o for o in seen[-1][1]['outs'])[:80]))
        return R

    @staticmethod
    def value_class(c, v, delim):
        if v is None:
            return 'null'
        if c['type'] == 'string':
            if v in S.PANDAS_NA_STRINGS:
                return 'na-string'
            if delim in v:
                return 'has-delimiter'
            if '"' in v:
                return 'has-quote'
            if '\n' in v:
                return 'has-newline'
            if any(ord(ch) > 127 for ch in v):
                return 'non-ascii'
            if re.match(r'^[0-9.]+$', v):
                return 'digits'
            if v in ('Y', 'N', 'true', 'false'):
                return 'bool-like'
            return 'plain'
        if c['type'] == 'integer':
            return 'big' if abs(v) >= 2 ** 53 else 'bool-like' \
                if v in (0, 1) else 'small'
        if c['type'] == 'number':
            return 'integral' if float(v).is_integer() else 'fractional'
        if c['type'] == 'boolean':
            return 'true' if v else 'false'
        return 'instant'


CHECK = C16()
