"""
C18 - rexpy coverage figures equal true match counts and account for all
examples.

E1 over example multisets with repeats (sets of <= 3 distinct strings, every
frequency vector over {1,2,3}) x dedup on/off x option points x list / dict
input, on the REAL Extractor: coverage(), incremental_coverage(),
full_incremental_coverage(), n_examples().  Oracle: independent recount with
`re` (mc/models/cov_spec.py); incremental coverage is *walked* in the order
the implementation returned, so tie-breaking is not re-implemented.

Round 3 dimensions: the FORM of the examples argument (layer `forms`: tuple,
generator, iterator, map, deque, dict view, set, OrderedDict, defaultdict,
Series, ndarray; through Extractor(), extract(as_object=True), bytes +
encoding and Extractor(extract=False).extract()); many distinct examples
under the default Size (layer `big`: either side of do_all = 100 and
do_all_exceptions = 4000); E3 histories on ONE Extractor object (layer
`hist`: queries / change of the result / queries: the figures must describe
the result the object holds now).
"""
import collections
import contextlib
import io
import itertools
import json
import re

from mc.engine import Check, Res
from mc import rex14_alphabet as AB
from mc.models import cov_spec as M

# 30-string sub-alphabet: overlapping classes (hex letters/digits), fixed vs
# variable fragments, whitespace for strip, '' for remove_empties, the
# characters behind the known C03 defects ('^' with '-', non-ASCII digit)
A18 = ['', 'a', 'b', 'A', '0', '1', 'a1', '1a', 'ab', 'aB', 'a1b', 'abc',
       '-', '.', 'a-b', 'c-d', 'a-b-c', 'a.b', 'a b', ' a', 'a ', 'é',
       'g', '_', 'a_b', '12', 'AB12', 'ab12', '٣', '^']
A18_QUAD = ['', 'a', 'g', 'A', '1', 'a1', 'ab', '-', '.', 'a-b', 'a.b',
            'a b', ' a', 'é', '12', 'AB12']

# overlap layer: hand-made expression lists that overlap on the examples
# (rexpy's own results never do in the explored space), applied to the
# documented module-level functions the Extractor methods delegate to
P_OVER = ['^[a-z]+$', '^[a-z]$', '^a$', '^[0-9a-f]+$', '^[0-9]+$', '^.+$',
          '^[a-z]+\\-[a-z]+$', '^a.*$', '.*b', '[a-z0-9]{2}']
E_OVER = ['a', 'b', 'ab', '1', '12', 'a1', 'a-b', 'Ab']

# (c) expressions that begin / end with an escaped metacharacter as a constant
# literal, next to an example that has such a string as a proper prefix /
# suffix (a mis-anchored match then over-counts)
METACHARS = ['$', '^', '.', '*', '+', '?', '(', ')', '[', ']', '{', '}', '|',
             '\\']


def meta_strings(m):
    return ['U' + m, 'V' + m, 'U' + m + '5', m + 'U', m + 'V', '5' + m + 'U',
            m, 'U' + m + m]


def meta_patterns(m):
    e = '\\' + m
    return ['^[A-Z]%s$' % e, '^U%s5$' % e, '^%s[A-Z]$' % e,
            '^[A-Z]%s.*$' % e]


# (d) long examples: 98..101 character-class runs (MAX_GROUPS = 99: beyond it
# rexpy falls back to '.'), with a line-break-like character inside
LONG_RUNS = (98, 99, 100, 101)
LONG_INS = [None, '\n', '\r', '\t', '\x0b', '\x0c', '\u2028']


def long_sets(R, ins):
    L = AB.long_string(R, ['a', '-'], ins)
    L2 = AB.long_string(R, ['b', '.'])
    plain = AB.long_string(R, ['a', '-'])
    P1, P2 = 'a' * len(L), 'b' * len(L)
    out = [[L], [L, 'a'], [L, L2], [L, L2, 'a-b'],
           [L, AB.long_string(R + 1, ['b', '.'])],
           [L, P1], [L, L2, P1], [L, L2, P1, P2]]
    if ins is not None:
        out += [[L, plain], [L, plain, 'x' + ins + 'y']]
    return out


LONG_FN_PATTERNS = ['^.+$', '^.{100}$', '^.{99,101}$', '^a.*\\-$']


def long_fn_strings():
    return [AB.long_string(100, ['a', '-']),
            AB.long_string(100, ['a', '-'], '\n'),
            AB.long_string(101, ['a', '-']),
            AB.long_string(99, ['a', '-'], '\r'),
            AB.long_string(100, ['b', '.'], '\u2028'), 'a']


# (a2) sets whose expressions overlap: every base string also with a trailing
# newline / CR-LF ('$' matches before one final newline), and long strings
# next to plain strings of the same length ('.{n}' next to '[a-z]{n}')
NL_BASE = ['a', 'ab', 'abc', 'A', '1', 'a-b', 'a b', '']
NL_STRINGS = NL_BASE + [x + '\n' for x in NL_BASE] + \
    [x + '\r\n' for x in NL_BASE]
NL_FN_PATTERNS = ['^[a-z]+$', '^a$', '^a\\\n$', '^.+$', '^[a-z]+\\s$']
NL_FN_STRINGS = ['a', 'a\n', 'ab', 'ab\n', 'a\r\n']
ROUTES = ['x:list', 'x:dict', 'x:counter', 'xb:list', 'xb:dict',
          'xb:counter']

# (e) zero counts / None
A_ZERO3 = ['', 'a', 'A', '1', 'a1', 'ab', '-', 'a-b', 'a b', ' a', 'é', '12',
           'g', '_']

PRUNE_OPTS = [{'max_patterns': 1}, {'min_strings_per_pattern': 2},
              {'max_patterns': 2, 'tag': True}]

# (f) the FORM of the examples argument: everything Extractor() / extract()
# iterate like a list must give the figures of the list form (recounted from
# the supplied multiset); one-shot iterables included
SEQ_FORMS = ['tuple', 'gen', 'iter', 'map', 'deque', 'values', 'series',
             'ndarray']
NO_REPEAT_FORMS = ['set', 'frozenset', 'keys']
MAP_FORMS = ['ordereddict', 'defaultdict']
ALL_FORMS = (SEQ_FORMS + NO_REPEAT_FORMS + MAP_FORMS
             + ['x:tuple', 'x:gen', 'x:iter', 'x:ordereddict',
                'xb:tuple', 'xb:gen', 'xb:iter', 'xb:map', 'xb:ordereddict',
                'm:list', 'm:dict', 'm:gen'])

# (g) many distinct examples under the DEFAULT Size (do_all = 100,
# do_all_exceptions = 4000): K distinct strings either side of both constants
BIG_KS = (100, 101, 200, 4000, 4001)
BIG_FAMILIES = ['one-shape', 'two-shapes', 'three-shapes-repeats']
# option points of the big layer: default; no sampling (size=0); tag + vlf
BIG_OPTS = [{}, {'size': 0}, {'tag': True, 'variableLengthFrags': True},
            {'strip': True, 'remove_empties': True}]


def big_examples(fam, K):
    """-> list of (string, frequency), K distinct strings of cheap shapes"""
    if fam == 'one-shape':
        return [('k%04d' % i, 1) for i in range(K)]
    if fam == 'two-shapes':
        h = K // 2
        return [('k%04d' % i, 1) for i in range(h)] + \
            [('AB-%d-x' % (1000 + i), 1) for i in range(K - h)]
    if fam == 'three-shapes-repeats':
        out = []
        for i in range(K):
            if i % 3 == 0:
                out.append(('k%04d' % i, 1 + i % 2))
            elif i % 3 == 1:
                out.append(('%04d.%d' % (i, i % 7), 3))
            else:
                out.append((' id%04d ' % i, 1))
        return out
    raise KeyError(fam)


# (h) histories on ONE Extractor object: queries, then the result is changed
# (a setting + extract() again, or results.remove()), then queries again
H_ALPHA2 = A_ZERO3
H_ALPHA3 = ['a', 'A', '1', 'a1', 'ab', '-', 'a-b', 'a b', '12', 'é']
QUERIES = [(q, d) for q in ('coverage', 'incremental', 'full', 'n_examples')
           for d in (False, True)]
WARMUPS = [[]] + [[q] for q in QUERIES] + [list(QUERIES)]
SETTINGS = [('variableLengthFrags', True), ('tag', True),
            ('max_patterns', 1), ('min_strings_per_pattern', 2)]


FORM_CLASS = {}
for _f in ('gen', 'iter', 'map'):
    FORM_CLASS[_f] = 'form:one-shot-iterator'
for _f in ('tuple', 'deque', 'values', 'series', 'ndarray'):
    FORM_CLASS[_f] = 'form:sequence-not-list'
for _f in NO_REPEAT_FORMS:
    FORM_CLASS[_f] = 'form:set-like'
for _f in MAP_FORMS:
    FORM_CLASS[_f] = 'form:dict-subclass'


def short(kept, limit=40):
    """(string, weight) pairs for a violation detail; long sets abridged"""
    items = list(kept.items())
    if len(items) <= limit:
        return items
    return items[:limit // 2] + [['... %d more ...' % (len(items) - limit),
                                  0]] + items[-limit // 2:]


def eff_tier(tier):
    """thorough explores the full space under PYTHONHASHSEED=0 and repeats
    the quick space under hash seeds 1 and 2"""
    import os
    if tier == 'thorough' and os.environ.get('PYTHONHASHSEED') in ('1', '2'):
        return 'quick'
    return tier


def uncovered_class(unc, rexes):
    """root cause (a C03 matter) of an example no returned expression
    matches"""
    for s in unc:
        if any(c.isdigit() and c not in '0123456789' for c in s):
            return 'nonascii-digit'
    for r in rexes:
        for m in re.finditer(r'\[\^', r):
            if not r.startswith('[^\\W', m.start()) and \
                    not r.startswith('[^!-~\\s]', m.start()):
                return 'neg-bracket'
    return 'other'


class C18(Check):
    pid = 'C18'
    title = ('rexpy coverage figures equal true match counts and account for '
             'all examples')
    technique = ('bounded exhaustive enumeration of example multisets x dedup '
                 'x option points on the real Extractor, compared with an '
                 'independent recount using re; incremental coverage walked '
                 'in the returned order')
    rule = ('one case per (set of distinct strings, option point); inside: '
            'every frequency vector over {1,2,3} (quick triples, quads, '
            'option/prune layers {1,2}) x list/dict input x dedup False/True '
            'x 4 figures; overlap layer: one case per (ordered expression '
            'list of <= 3 from 10, set of <= 3 strings from 8); non-trivial = '
            'at least two expressions returned or some frequency > 1 '
            '(overlap layer: some string matched by two expressions); forms '
            'layer: one case per (set of <= 3 strings, option point), inside '
            'every frequency vector over {1,2} x 25 (form, route) points '
            '(larger sets: the points taken in turn); big layer: one case '
            'per (K distinct examples for K in 100, 101, 200, 4000, 4001, '
            'shape family, option point incl. size=0), list and dict form; '
            'hist layer: one case per (set of 2-3 strings, option point), '
            'inside 2 multisets x histories [0, 1 or all 8 queries] + one '
            'change of the result (extract() again, 4 settings + extract(), '
            'results.remove of each index, remove + dot-star) + all queries, '
            'and every ordered pair of changes with all queries after each; '
            'non-trivial = the change altered the expression list')
    assumptions = [
        'strings from the 30-string sub-alphabet A18 (pairs also over the '
        '104-string pair alphabet in thorough); <= 3 (thorough 4) distinct '
        'examples; frequencies <= 3; 8 option points',
        'matching is under UNICODE|DOTALL.  rexpy\'s documentation does not '
        'define "matches"; C03 speaks of matching in full, tdda\'s own rex '
        'verification uses re.match (`$` also matches before one final '
        'newline).  Where the two readings differ (examples ending in a '
        'newline) each figure must be right under one of them: strict '
        '(fullmatch) or loose (re.match); such cases are counted as '
        'unspecified but still checked',
        'figures are obtained through Extractor(examples) and through '
        'extract(examples, as_object=True) with list / dict / Counter input, '
        'as str and as bytes + encoding (pdextract has no as_object)',
        'whether removed empty strings count as "supplied" and whether '
        'n_examples(dedup=True) counts strings before or after stripping: '
        'either reading accepted (counted unspecified when they differ)',
        'expressions with zero newly explained examples may be listed or '
        'omitted by incremental coverage (the statement only constrains what '
        'is listed); pruning options (max_patterns, min_strings_per_pattern) '
        'void the "sums to the total" clause by design; empty input has no '
        'result: only n_examples is checked',
        'under a sampling Size the stored examples are the grown sample: all '
        'figures unspecified there (thorough only, counted and tagged)',
        'default Size: by the documented meaning of do_all (100) and '
        'do_all_exceptions (4000: "add in all failures up to this many", and '
        'every example fails the empty first pass) all supplied examples are '
        'used up to 4000 distinct kept examples, and always with size=0 / '
        'False ("don\'t use sampling"): there every clause is a must.  Beyond '
        '4000 "the number supplied" is unspecified (n_examples is documented '
        'as the number of examples used); what remains a must there: the '
        'examples used are supplied examples with their supplied '
        'frequencies, and every figure is exact for them',
        'the examples argument is documented as a list, a dictionary / '
        'counter or a function; every other iterable that the unchanged code '
        'iterates like a list (tuple, generator, iterator, map, deque, dict '
        'views, set, frozenset, pandas Series, numpy array) and dict '
        'subclasses are taken as supplying the same multiset; a form that is '
        'refused with an exception is not a wrong figure (counted as '
        'extract-raises)',
        'histories on one object: extract() is public and documented as '
        'callable manually, results.remove() is a public method, the '
        'settings are plain attributes (variableLengthFrags, tag, '
        'max_patterns, min_strings_per_pattern - those that __init__ merely '
        'stores).  The statement speaks of the figures reported "for its '
        'result": after a change they must describe the expressions the '
        'object holds now (results.rex) and the examples it holds; after '
        'remove / pruning settings the "sums to the total" clause is void; a '
        'change that raises is not C18\'s matter (counted)',
        'rexpy\'s own expressions were pairwise disjoint on every explored '
        'input, so the layer "overlap" applies the same recount to the '
        'documented module-level functions rex_coverage / '
        'rex_incremental_coverage / rex_full_incremental_coverage with '
        'hand-made overlapping expression lists (10 expressions, 8 strings); '
        'examples matched by no listed expression are left out of the '
        'expected total there',
        'when some kept example is matched by no returned expression (a C03 '
        'defect) every figure is polluted (rexpy re-appends the failures); '
        'such cases are reported under one signature per C03 root cause '
        '(uncovered-example:neg-bracket / nonascii-digit / other)',
        'a dictionary entry with count 0 was supplied zero times: it must '
        'not be counted by any figure (dict and collections.Counter input); '
        'negative counts are outside the documented domain ("should be '
        'non-negative") and not enumerated; whether a None inside a list is '
        'a supplied example is not said: both counts accepted; zero '
        'frequencies are not passed to the module-level functions (an '
        'Examples object with a zero frequency is the caller\'s construction)',
        'every case runs in a fresh instance of the rexpy module; a case '
        'using more than 20 s of CPU is reported as uncaught:CaseTimeout',
    ]

    def hashseeds(self, tier, verif_seed):
        return [0, 1, 2] if tier == 'thorough' else [verif_seed % 3]

    def layers(self, tier):
        L = [('n1', 'one distinct example, freq 1..3, 8 option points'),
             ('n2', 'pairs x {1,2,3}^2 x 8 option points'),
             ('n3', 'triples x {1,2}^3 (thorough {1,2,3}^3), default '
                    'options, list and dict input alternating'),
             ('meta', 'expressions beginning / ending in an escaped regex '
                      'metacharacter + examples extending them (14 '
                      'metacharacters x pairs and triples of 8 strings)'),
             ('long', 'examples with 98..101 character-class runs, with and '
                      'without a line-break-like character inside'),
             ('zero', 'dict / Counter input with zero counts; None in lists'),
             ('nl', 'strings with and without a trailing newline / CR-LF: '
                    'overlapping and subsumed expressions'),
             ('routes', 'the same multiset through extract(as_object=True) '
                        'with list / dict / Counter, str and bytes+encoding'),
             ('forms', 'the same multiset in every form of the examples '
                       'argument: tuple, generator, iterator, map, deque, '
                       'dict view, set, OrderedDict, defaultdict, Series, '
                       'ndarray; Extractor(), extract(as_object), bytes + '
                       'encoding, Extractor(extract=False).extract()'),
             ('big', '100, 101, 200, 4000, 4001 distinct examples (default '
                     'Size: do_all 100, do_all_exceptions 4000), 3 shape '
                     'families x 4 option points'),
             ('wide', 'K distinct values in one position for K either side '
                      'of max_strings_in_group / max_punc_in_group / '
                      'MAX_VRLE_RANGE (alternations, classes, ranges)'),
             ('hist', 'E3 on one Extractor object: queries, change of the '
                      'result (setting + extract() again / results.remove), '
                      'queries again; depth <= 2 changes'),
             ('overlap', 'rex_coverage / rex_incremental_coverage / '
                         'rex_full_incremental_coverage on overlapping '
                         'hand-made expression lists')]
        if tier == 'thorough':
            L += [('n2wide', 'pairs over the 104-string alphabet'),
                  ('n3opt', 'triples x {1,2}^3 x 7 option points'),
                  ('n4', 'quadruples x {1,2}^4 x 2 option points'),
                  ('prune', 'triples x pruning options (sum clause void)'),
                  ('sampled', 'sampling Size settings: triage only')]
        return L

    def cases(self, tier, layer):
        full = tier
        tier = eff_tier(tier)
        if tier != full and layer not in ('n1', 'n2', 'n3', 'overlap', 'meta',
                                          'long', 'zero', 'nl', 'routes',
                                          'forms', 'big', 'hist', 'wide'):
            return
        allo = range(len(AB.OPTIONS))
        if layer == 'n1':
            for o in allo:
                for s in AB.A_PAIR_T:
                    yield {'x': [s], 'o': o, 'F': 3, 'forms': 2}
        elif layer == 'n2':
            for o in allo:
                for xs in itertools.combinations(A18, 2):
                    yield {'x': list(xs), 'o': o, 'F': 3, 'forms': 2}
        elif layer == 'n3':
            for xs in itertools.combinations(A18, 3):
                yield {'x': list(xs), 'o': 0,
                       'F': 3 if tier == 'thorough' else 2}
        elif layer == 'meta':
            for m in METACHARS:
                ms = meta_strings(m)
                for n in (2, 3):
                    for xs in itertools.combinations(ms, n):
                        yield {'x': list(xs), 'o': 0, 'F': 2,
                               'forms': 2 if n == 2 else 1}
                for o in (3, 4):          # strip+remove_empties; tag+perl
                    for xs in itertools.combinations(ms, 2):
                        yield {'x': list(xs), 'o': o, 'F': 1, 'forms': 2}
        elif layer == 'long':
            for R in LONG_RUNS:
                for ins in LONG_INS:
                    for xs in long_sets(R, ins):
                        yield {'x': xs, 'o': 0, 'F': 2 if len(xs) < 3 else 1}
            for R in (99, 100):
                for ins in (None, '\n'):
                    for xs in long_sets(R, ins)[:3]:
                        for o in (1, 4):
                            yield {'x': xs, 'o': o, 'F': 1}
        elif layer == 'zero':
            for o in (0, 3):
                for xs in itertools.combinations(A18, 2):
                    yield {'x': list(xs), 'o': o, 'F': 2, 'fmin': 0,
                           'forms': ['dict', 'counter']}
            for xs in itertools.combinations(A_ZERO3, 3):
                yield {'x': list(xs), 'o': 0, 'F': 2, 'fmin': 0,
                       'forms': ['dict', 'counter'], 'alt': True}
            for o in (0, 3):
                for xs in itertools.combinations(A18, 2):
                    yield {'x': list(xs), 'o': o, 'F': 2,
                           'forms': ['list-none']}
        elif layer == 'nl':
            for xs in itertools.combinations(NL_STRINGS, 2):
                yield {'x': list(xs), 'o': 0, 'F': 2, 'forms': 2}
            for xs in itertools.combinations(NL_STRINGS, 3):
                yield {'x': list(xs), 'o': 0, 'F': 2}
            for o in (1, 4):
                for xs in itertools.combinations(NL_STRINGS[:16], 2):
                    yield {'x': list(xs), 'o': o, 'F': 2}
        elif layer == 'routes':
            for xs in itertools.combinations(A18, 2):
                yield {'x': list(xs), 'o': 0, 'F': 2, 'forms': ROUTES}
            for o in (3, 4):
                for xs in itertools.combinations(A_ZERO3, 2):
                    yield {'x': list(xs), 'o': o, 'F': 2, 'forms': ROUTES}
            for xs in itertools.combinations(A_ZERO3, 3):
                yield {'x': list(xs), 'o': 0, 'F': 2, 'forms': ROUTES,
                       'alt': True}
            for xs in itertools.combinations(NL_STRINGS[:16], 2):
                yield {'x': list(xs), 'o': 0, 'F': 2, 'forms': ROUTES,
                       'alt': True}
        elif layer == 'forms':
            for s in A18:
                for o in allo:
                    yield {'x': [s], 'o': o, 'F': 2, 'forms': ALL_FORMS}
            for o in (0, 3, 4):
                for xs in itertools.combinations(A_ZERO3, 2):
                    yield {'x': list(xs), 'o': o, 'F': 2, 'forms': ALL_FORMS}
            # larger sets: the forms taken in turn (4 / 8 per case)
            ai = 0
            for xs in itertools.combinations(A18, 2):
                if not all(x in A_ZERO3 for x in xs):
                    yield {'x': list(xs), 'o': 0, 'F': 2, 'forms': ALL_FORMS,
                           'alt': True, 'ai': ai}
                    ai += 4
            for xs in itertools.combinations(A_ZERO3, 3):
                yield {'x': list(xs), 'o': 0, 'F': 2, 'forms': ALL_FORMS,
                       'alt': True, 'ai': ai}
                ai += 8
            if tier == 'thorough':
                for o in (1, 2, 5, 6, 7):
                    for xs in itertools.combinations(A_ZERO3, 2):
                        yield {'x': list(xs), 'o': o, 'F': 2,
                               'forms': ALL_FORMS}
        elif layer == 'big':
            for K in BIG_KS:
                for fi in range(len(BIG_FAMILIES)):
                    for bo in range(len(BIG_OPTS)):
                        if K >= 4000 and bo >= 2 and fi != 2 and \
                                tier != 'thorough':
                            continue
                        yield {'k': 'big', 'K': K, 'fam': fi, 'bo': bo}
        elif layer == 'wide':
            for fi, fam in enumerate(AB.WIDE_FAMILIES):
                for ti in range(len(fam[6])):
                    for w in fam[5]:
                        for K in fam[3]:
                            for o in ((0, 1, 4) if ti == 1 else (0,)):
                                yield {'k': 'wide', 'fam': fi, 'tpl': ti,
                                       'w': w, 'K': K, 'o': o}
        elif layer == 'hist':
            for xs in itertools.combinations(H_ALPHA2, 2):
                for o in (0, 3):
                    yield {'k': 'hist', 'x': list(xs), 'o': o}
            for xs in itertools.combinations(H_ALPHA3, 3):
                yield {'k': 'hist', 'x': list(xs), 'o': 0}
            if tier == 'thorough':
                for xs in itertools.combinations(A18, 3):
                    if not all(x in H_ALPHA3 for x in xs):
                        yield {'k': 'hist', 'x': list(xs), 'o': 0}
        elif layer == 'overlap':
            th = tier == 'thorough'
            lists = [[p] for p in NL_FN_PATTERNS]
            for a, b in itertools.permutations(NL_FN_PATTERNS, 2):
                lists.append([a, b])
            for pl in lists:
                for n in (1, 2):
                    for xs in itertools.combinations(NL_FN_STRINGS, n):
                        yield {'k': 'fn', 'p': pl, 'x': list(xs), 'F': 2}
            for m in METACHARS:
                ps = meta_patterns(m)
                ms = meta_strings(m)[:4] + [meta_strings(m)[7]]
                lists = [[p] for p in ps]
                for a, b in itertools.combinations(ps, 2):
                    lists += [[a, b], [b, a]]
                for pl in lists:
                    for n in (1, 2):
                        for xs in itertools.combinations(ms, n):
                            yield {'k': 'fn', 'p': pl, 'x': list(xs), 'F': 2}
            ls = long_fn_strings()
            lists = [[p] for p in LONG_FN_PATTERNS]
            for a, b in itertools.combinations(LONG_FN_PATTERNS, 2):
                lists += [[a, b], [b, a]]
            for pl in lists:
                for n in (1, 2):
                    for xs in itertools.combinations(ls, n):
                        yield {'k': 'fn', 'p': pl, 'x': list(xs), 'F': 2}
            for np_ in (1, 2, 3):
                for ps in itertools.combinations(P_OVER, np_):
                    if th:
                        orders = itertools.permutations(ps)
                    else:
                        orders = [ps] + ([ps[::-1]] if np_ > 1 else [])
                    for po in orders:
                        for n in (1, 2, 3):
                            for xs in itertools.combinations(E_OVER, n):
                                yield {'k': 'fn', 'p': list(po),
                                       'x': list(xs), 'F': 3 if th else 2}
        elif layer == 'n2wide':
            for xs in itertools.combinations(AB.A_PAIR, 2):
                yield {'x': list(xs), 'o': 0, 'F': 3, 'forms': 2}
        elif layer == 'n3opt':
            for o in allo[1:]:
                for xs in itertools.combinations(A18, 3):
                    yield {'x': list(xs), 'o': o, 'F': 2}
        elif layer == 'n4':
            for o in (0, 1):
                for xs in itertools.combinations(A18_QUAD, 4):
                    yield {'x': list(xs), 'o': o, 'F': 2}
        elif layer == 'prune':
            for p in range(len(PRUNE_OPTS)):
                for xs in itertools.combinations(A18, 3):
                    yield {'x': list(xs), 'o': 0, 'F': 2, 'prune': p}
        elif layer == 'sampled':
            for si in range(len(AB.SIZE_POINTS)):
                for n in (3, 4):
                    for xs in itertools.combinations(AB.A_SAMPLED, n):
                        yield {'x': list(xs), 'o': 0, 'F': 2, 'size': si}
        else:
            raise KeyError(layer)

    def setup_worker(self, tier):
        import random
        import numpy as np
        import pandas as pd
        import tdda.rexpy.rexpy as orig
        self.random = random
        self.np = np
        self.pd = pd
        self.tier = tier
        self.src_path = orig.__file__
        with open(self.src_path, encoding='utf-8') as f:
            self.code = compile(f.read(), self.src_path, 'exec')
        self.rexpy = self.fresh_module()

    def fresh_module(self):
        """new instance of the rexpy module: pristine module state per case"""
        import types
        m = types.ModuleType('tdda.rexpy.rexpy')
        m.__file__ = self.src_path
        m.__package__ = 'tdda.rexpy'
        exec(self.code, m.__dict__)
        return m

    def reset(self):
        rx = self.rexpy
        if hasattr(rx, 'memo'):
            rx.memo.clear()
        self.random.seed(4242)

    def quiet(self, fn, *a, **kw):
        out = io.StringIO()
        with contextlib.redirect_stdout(out), contextlib.redirect_stderr(out):
            return fn(*a, **kw)

    def run_case(self, case):
        if AB.Watchdog.tripped():
            R = Res()
            R.unspec += 1
            R.out('not-run:after-%d-timeouts' % AB.Watchdog.max_trips)
            return R
        with AB.Watchdog(20):
            return self.run_case_(case)

    def run_case_(self, case):
        self.rexpy = self.fresh_module()
        if case.get('k') == 'fn':
            return self.run_fn(case)
        if case.get('k') == 'big':
            return self.run_big(case)
        if case.get('k') == 'wide':
            f = AB.WIDE_FAMILIES[case['fam']]
            xs = AB.wide_examples(f, case['K'], case['w'], f[6][case['tpl']])
            R = Res()
            self.reset()
            o = case['o']
            n = len(xs)
            # all once (list); the widening value three times, every third
            # value twice (dict)
            for fv, form in (([1] * n, 'list'),
                             ([2 if i % 3 == 0 else 1 for i in range(n - 1)]
                              + [3], 'dict')):
                self.one(R, xs, fv, form, o, dict(AB.OPTIONS[o]), False,
                         False, None)
            return R
        if case.get('k') == 'hist':
            return self.run_hist(case)
        R = Res()
        xs, o, F = case['x'], case['o'], case['F']
        opts = dict(AB.OPTIONS[o])
        pruning = 'prune' in case
        if pruning:
            opts.update(PRUNE_OPTS[case['prune']])
        sampled = 'size' in case
        n = len(xs)
        self.reset()
        fmin = case.get('fmin', 1)
        for j, fv in enumerate(itertools.product(range(fmin, F + 1),
                                                 repeat=n)):
            if fmin == 0 and 0 not in fv:
                continue            # all-positive vectors: other layers
            forms = case.get('forms')
            if isinstance(forms, list):
                if 'ai' in case:
                    forms = [forms[(case['ai'] + j) % len(forms)]]
                elif case.get('alt'):
                    forms = [forms[sum(fv) % len(forms)]]
            elif forms == 2:
                forms = ['list', 'dict']
            else:
                forms = ['list' if sum(fv) % 2 else 'dict']
            for form in forms:
                self.one(R, xs, list(fv), form, o, opts, pruning, sampled,
                         case.get('size'))
        return R

    def build(self, xs, fv, form, enc=None):
        """-> (zero-argument factory of the examples argument in the given
        form, JSON-able description) for the multiset xs x fv; one-shot forms
        (generator, iterator, map) are built anew by every factory call.
        Forms that cannot carry repeats (set, frozenset, keys) are only used
        with all frequencies 1 (the caller sees to that)."""
        import collections
        conv = (lambda s: s.encode(enc)) if enc else (lambda s: s)
        pairs = [(conv(s), f) for s, f in zip(xs, fv)]
        seq = [conv(s) for s in AB.round_robin(xs, fv)]
        shown_seq = AB.round_robin(xs, fv)
        shown_map = dict(zip(xs, fv))
        if form == 'list':
            return (lambda: list(seq)), shown_seq
        if form == 'list-none':
            return ((lambda: seq[:1] + [None] + seq[1:] + [None]),
                    shown_seq[:1] + [None] + shown_seq[1:] + [None])
        if form == 'dict':
            return (lambda: dict(pairs)), {'dict': shown_map}
        if form == 'counter':
            return (lambda: collections.Counter(dict(pairs))), \
                {'counter': shown_map}
        if form == 'ordereddict':
            return (lambda: collections.OrderedDict(reversed(pairs))), \
                {'OrderedDict, reversed': shown_map}
        if form == 'defaultdict':
            def mk():
                d = collections.defaultdict(int)
                d.update(pairs)
                return d
            return mk, {'defaultdict(int)': shown_map}
        if form == 'tuple':
            return (lambda: tuple(seq)), {'tuple': shown_seq}
        if form == 'gen':
            return (lambda: (s for s in seq)), {'generator': shown_seq}
        if form == 'iter':
            return (lambda: iter(list(seq))), {'iter(list)': shown_seq}
        if form == 'map':
            return (lambda: map(lambda s: s, seq)), {'map object': shown_seq}
        if form == 'deque':
            return (lambda: collections.deque(seq)), {'deque': shown_seq}
        if form == 'set':
            return (lambda: set(seq)), {'set': shown_seq}
        if form == 'frozenset':
            return (lambda: frozenset(seq)), {'frozenset': shown_seq}
        if form == 'keys':
            return ((lambda: collections.OrderedDict(
                (s, None) for s in seq).keys()),
                {'dict.keys()': shown_seq})
        if form == 'values':
            return ((lambda: dict(enumerate(seq)).values()),
                    {'dict.values()': shown_seq})
        if form == 'series':
            return (lambda: self.pd.Series(list(seq), dtype=object)), \
                {'pandas Series (object)': shown_seq}
        if form == 'ndarray':
            return (lambda: self.np.array(list(seq), dtype=object)), \
                {'numpy array (object)': shown_seq}
        raise KeyError(form)

    def one(self, R, xs, fv, form, o, opts, pruning, sampled, sizeidx):
        n_none = 2 if form.endswith('list-none') else 0
        route, form0, enc = 'Extractor', form, None
        if form.startswith('x:'):
            route, form = 'extract(as_object)', form[2:]
        elif form.startswith('xb:'):
            route, form = 'extract(bytes, encoding, as_object)', form[3:]
            enc = 'utf-8'
        elif form.startswith('m:'):
            route, form = 'Extractor(extract=False).extract()', form[2:]
        if form in NO_REPEAT_FORMS and max(fv) > 1:
            return              # this form cannot carry the multiset
        make, shown = self.build(xs, fv, form, enc)
        inp = make()
        kw = dict(opts)
        if sampled:
            kw['size'] = self.rexpy.Size(**AB.SIZE_POINTS[sizeidx])
            kw['seed'] = 1
        try:
            if route == 'Extractor':
                x = self.quiet(self.rexpy.Extractor, inp, **kw)
            elif route == 'extract(as_object)':
                x = self.quiet(self.rexpy.extract, inp, as_object=True, **kw)
            elif enc:
                x = self.quiet(self.rexpy.extract, inp, encoding=enc,
                               as_object=True, **kw)
            else:
                x = self.quiet(self.rexpy.Extractor, inp, extract=False, **kw)
                self.quiet(x.extract)
        except Exception as e:
            # whether extraction succeeds is C03/C13's business; a form that
            # is refused is not a wrong figure
            R.ev()
            R.out('extract-raises:%s:%s' % (type(e).__name__, form))
            return
        R.ev()
        unc0 = None
        if pruning:
            # is some example uncovered even without pruning (C03 matter)?
            try:
                x0 = self.quiet(self.rexpy.Extractor, make(),
                                **AB.OPTIONS[o])
                k0, _ = M.kept_examples(list(zip(xs, fv)))
                r0 = list(x0.results.rex) if x0.results else []
                t0, _ = M.match_table(r0, list(k0))
                u0 = M.uncovered(t0, k0)
                if u0:
                    unc0 = (u0, r0)
            except Exception:
                pass
            R.ev()
        self._unc0 = unc0
        strip = bool(opts.get('strip'))
        rem = bool(opts.get('remove_empties'))
        kept, info = M.kept_examples(list(zip(xs, fv)), strip, rem)
        sub = {'freqs': fv, 'form': form0}
        base = {'route': route, 'input': shown, 'options': opts}
        m = self.measure(R, x, kept, info, n_none, pruning)
        if m is not None:
            fclass = FORM_CLASS.get(form)
            if fclass is None and route.startswith('Extractor(extract=False'):
                fclass = 'route:manual-extract'
            self.flush(R, m[0], m[1], m[2], base, sub, sampled, pruning, o,
                       prefix=fclass + ':' if fclass else '')

    def measure(self, R, x, kept, info, n_none, pruning):
        """every figure of the Extractor x against the recount over `kept`
        for the expressions x.results.rex holds NOW; -> (violations,
        uncovered examples, expressions) or None (expressions do not
        compile)"""
        viols = []

        def bad(figure, clause, **d):
            viols.append((figure, clause, d))

        # ---- n_examples
        for dedup in (False, True):
            got = self.quiet(x.n_examples, dedup)
            want = {M.total(kept, dedup)}
            alt = (info['n_distinct_supplied'] if dedup
                   else info['n_supplied'])
            if alt not in want:
                R.unspec += 1
                want.add(alt)
            if n_none:
                # whether a None in a list is a "supplied example" is not
                # said: both counts accepted
                R.unspec += 1
                want |= set(w + (1 if dedup else n_none) for w in list(want))
            if got not in want:
                bad('n_examples:dedup=%d' % dedup, 'n-examples-equals-supplied',
                    dedup=dedup, got=got, expected=sorted(want))
        rexes = None
        if x.results is not None:
            rexes = list(x.results.rex)
        if not kept or rexes is None:
            R.out('no-result:kept=%d' % len(kept))
            if kept and rexes is None:
                bad('no-result', 'figures-for-result', kept=short(kept))
            return viols, [], []
        try:
            tables = M.match_tables(rexes, list(kept))
        except re.error:
            R.unspec += 1
            R.out('rex-does-not-compile')
            return None
        table = tables[0]                       # strict reading
        if len(tables) > 1:
            R.unspec += 1                       # figures may follow either
        unc = M.uncovered(table, kept)
        if len(rexes) >= 2 or max(kept.values()) > 1:
            R.nontrivial = True
        overlap = any(sum(M.coverage(t, kept, True))
                      > len(kept) - len(M.uncovered(t, kept)) for t in tables)

        def either(check):
            """a figure must be right under one admissible reading of
            "matches"; violations are reported for the strict one"""
            errs = [check(t) for t in tables]
            if all(errs):
                viols.extend(errs[0])

        kl = short(kept)
        # ---- coverage
        for dedup in (False, True):
            got = list(self.quiet(x.coverage, dedup=dedup))

            def chk(t, got=got, dedup=dedup):
                want = M.coverage(t, kept, dedup)
                if got != want:
                    return [('coverage:dedup=%d' % dedup,
                             'coverage-equals-match-count',
                             dict(dedup=dedup, rex=rexes, got=got,
                                  expected=want, kept=kl))]
                return []
            either(chk)
        # ---- incremental coverage
        omitted = 0
        for dedup in (False, True):
            inc = self.quiet(x.incremental_coverage, dedup=dedup)
            keys = list(inc.keys())
            fig = 'incremental:dedup=%d' % dedup
            d = dict(dedup=dedup, rex=rexes, got=list(inc.items()), kept=kl)
            if any(k not in rexes for k in keys) or len(set(keys)) < len(keys):
                bad(fig + ':keys', 'incremental-keys-are-returned-expressions',
                    **d)
                continue
            order = [rexes.index(k) for k in keys]
            got = [inc[k] for k in keys]

            def chk(t, got=got, order=order, dedup=dedup, fig=fig, d=d):
                out = []
                w = M.walk(order, t, kept)
                want = [u[1] if dedup else u[0] for u in w]
                if got != want:
                    out.append((fig + ':values',
                                'incremental-credits-first-listed-match',
                                dict(d, expected=want)))
                return out
            either(chk)
            if not M.non_increasing(got):
                bad(fig + ':order', 'incremental-non-increasing', **d)
            if sum(got) != M.total(kept, dedup) and not pruning:
                bad(fig + ':sum', 'incremental-sums-to-total',
                    total=M.total(kept, dedup), uncovered=unc, **d)
            omitted += len(rexes) - len(keys)
        # ---- full incremental coverage
        for dedup in (False, True):
            full = self.quiet(x.full_incremental_coverage, dedup=dedup)
            keys = list(full.keys())
            fig = 'full:dedup=%d' % dedup
            d = dict(dedup=dedup, rex=rexes,
                     got=[[k, list(full[k])] for k in keys], kept=kl)
            if any(k not in rexes for k in keys) or len(set(keys)) < len(keys):
                bad(fig + ':keys', 'incremental-keys-are-returned-expressions',
                    **d)
                continue
            order = [rexes.index(k) for k in keys]

            def chk(t, full=full, keys=keys, order=order, fig=fig, d=d):
                out = []
                w = M.walk(order, t, kept)
                cn = M.coverage(t, kept, False)
                cu = M.coverage(t, kept, True)
                for pos, k in enumerate(keys):
                    c = full[k]
                    i = order[pos]
                    for name, g, e in (('n', c.n, cn[i]),
                                       ('n_uniq', c.n_uniq, cu[i]),
                                       ('incr', c.incr, w[pos][0]),
                                       ('incr_uniq', c.incr_uniq, w[pos][1]),
                                       ('index', c.index, i)):
                        if g != e:
                            out.append(('%s:%s' % (fig, name),
                                        'full-coverage-fields',
                                        dict(d, field=name, expression=k,
                                             expected=e)))
                return out
            either(chk)
            sortkey = [full[k].incr_uniq if dedup else full[k].incr
                       for k in keys]
            if not M.non_increasing(sortkey):
                bad(fig + ':order', 'incremental-non-increasing', **d)
            if not pruning:
                if sum(full[k].incr for k in keys) != M.total(kept, False) or \
                        sum(full[k].incr_uniq for k in keys) \
                        != M.total(kept, True):
                    bad(fig + ':sum', 'incremental-sums-to-total',
                        uncovered=unc, **d)
            omitted += len(rexes) - len(keys)
        if omitted:
            R.unspec += 1
        R.out('rex=%d:kept=%d:cov=%s:%s%s%s' % (
            len(rexes), len(kept),
            ','.join(map(str, sorted(M.coverage(table, kept, False)))),
            'overlap' if overlap else 'disjoint',
            ':zero-incr-omitted' if omitted else '',
            ':uncovered' if unc else '') +
            (':two-readings' if len(tables) > 1 else ''))
        return viols, unc, rexes

    # ------------------------------------------------ (g) many examples
    def run_big(self, case):
        R = Res()
        K, fam = case['K'], BIG_FAMILIES[case['fam']]
        bopts = dict(BIG_OPTS[case['bo']])
        supplied = big_examples(fam, K)
        xs = [s for s, f in supplied]
        fv = [f for s, f in supplied]
        kept, info = M.kept_examples(supplied, bool(bopts.get('strip')),
                                     bool(bopts.get('remove_empties')))
        may_sample = M.sampling_applies(len(kept), bopts.get('size'))
        self.reset()
        for form in ('list', 'dict'):
            make, _ = self.build(xs, fv, form)
            try:
                x = self.quiet(self.rexpy.Extractor, make(), **bopts)
            except Exception as e:
                R.ev()
                R.out('extract-raises:%s' % type(e).__name__)
                continue
            R.ev()
            base = {'route': 'Extractor',
                    'input': '%s form of family %s, %d distinct strings '
                             '(%s ... %s), %d supplied'
                             % (form, fam, K, supplied[:3], supplied[-2:],
                                sum(fv)),
                    'options': bopts}
            sub = {'form': form}
            self._unc0 = None
            if not may_sample:
                m = self.measure(R, x, kept, info, 0, False)
                R.out('big:%s:K=%d:all-used' % (fam, K))
                if m is not None:
                    self.flush(R, m[0], m[1], m[2], base, sub, False, False,
                               0)
                continue
            # More distinct examples than Size.do_all_exceptions: rexpy works
            # on a sample plus the failures; "the number supplied" is then
            # unspecified.  What stays a must: the figures are exact for the
            # examples rexpy used, and those are supplied examples with their
            # supplied frequencies.
            R.unspec += 1
            used = collections.OrderedDict(zip(x.examples.strings,
                                               x.examples.freqs))
            wrong = [(s, f) for s, f in used.items() if kept.get(s) != f]
            R.out('big:%s:K=%d:sampled:used=%s' % (
                fam, K, 'all' if len(used) == len(kept) else 'fewer'))
            if wrong or len(used) != len(x.examples.strings):
                R.viol('sampled:used-examples-are-not-supplied-examples',
                       'n-examples-equals-supplied',
                       dict(base, wrong=wrong[:10]), sub)
                continue
            uinfo = {'n_supplied': sum(used.values()),
                     'n_distinct_supplied': len(used)}
            m = self.measure(R, x, used, uinfo, 0, False)
            if m is not None and m[0]:
                if m[1]:
                    R.unspec += 1       # uncovered examples: C03's matter
                else:
                    self.emit(R, 'sampled:', m[0], base, sub)
        return R

    # ------------------------------------ (h) E3: one object, its history
    def query(self, x, q):
        name, dedup = q
        if name == 'coverage':
            return self.quiet(x.coverage, dedup=dedup)
        if name == 'incremental':
            return self.quiet(x.incremental_coverage, dedup=dedup)
        if name == 'full':
            return self.quiet(x.full_incremental_coverage, dedup=dedup)
        return self.quiet(x.n_examples, dedup)

    def mutate(self, x, mut, st):
        """apply one change of the result to the Extractor x; st carries
        whether the 'sums to the total' clause is void for the result x holds
        afterwards; -> False if the change cannot be applied"""
        kind, arg = mut
        if kind == 'reextract':
            self.quiet(x.extract)
            st['removed'] = False
        elif kind == 'set':
            setattr(x, arg[0], arg[1])
            if arg[0] in ('max_patterns', 'min_strings_per_pattern'):
                st['pruned'] = True
            self.quiet(x.extract)
            st['removed'] = False
        else:
            i, star = arg
            if x.results is None or i >= len(x.results.rex):
                return False
            self.quiet(x.results.remove, {i}, add_dot_star=star)
            st['removed'] = True
        return True

    def run_hist(self, case):
        R = Res()
        xs, o = case['x'], case['o']
        opts = dict(AB.OPTIONS[o])
        n = len(xs)
        strip = bool(opts.get('strip'))
        rem = bool(opts.get('remove_empties'))
        seen_sigs = set()
        states = set()
        for mi, (fv, form) in enumerate((([1] * n, 'list'),
                                         ([1 + i % 2 for i in range(n)],
                                          'dict'))):
            kept, info = M.kept_examples(list(zip(xs, fv)), strip, rem)
            make, shown = self.build(xs, fv, form)
            self.reset()

            def fresh():
                R.ev()
                return self.quiet(self.rexpy.Extractor, make(), **opts)
            try:
                x0 = fresh()
                rex0 = list(x0.results.rex) if x0.results else None
                if rex0 is None:
                    R.out('hist:no-result')
                    continue
                if M.uncovered(M.match_tables(rex0, list(kept))[0], kept):
                    R.out('hist:skipped:uncovered-example')   # C03's matter
                    continue
            except Exception as e:
                R.out('hist:extract-raises:%s' % type(e).__name__)
                continue
            muts = [('reextract', None)]
            muts += [('set', sv) for sv in SETTINGS]
            if len(rex0) >= 2:
                muts += [('remove', (i, False)) for i in range(len(rex0))]
            muts += [('remove', (0, True))]
            hists = [(w, [m]) for w in WARMUPS for m in muts]
            if mi == 0:
                hists += [([], [m1, m2]) for m1 in muts for m2 in muts]
            for warm, ms in hists:
                x = fresh()
                for q in warm:
                    self.query(x, q)
                st = {'pruned': False, 'removed': False}
                done = []
                for m in ms:
                    before = list(x.results.rex) if x.results else None
                    try:
                        if not self.mutate(x, m, st):
                            break
                    except Exception as e:
                        # whether a second extraction succeeds is not C18's
                        R.out('hist:change-raises:%s:%s'
                              % (m[0], type(e).__name__))
                        break
                    done.append(m)
                    R.transitions += 1
                    after = list(x.results.rex) if x.results else None
                    if after != before:
                        R.nontrivial = True
                    states.add(json.dumps([mi, after, st['pruned'],
                                           st['removed']]))
                    r = self.measure(R, x, kept, info, 0,
                                     st['pruned'] or st['removed'])
                    if r is None or not r[0]:
                        continue
                    kind = ('results.remove' if m[0] == 'remove'
                            else 'second-extract')
                    prefix = 'history:after-%s:' % kind
                    key = (prefix, tuple(sorted(set(v[0].split(':')[0]
                                                    for v in r[0]))))
                    if key in seen_sigs:
                        continue
                    seen_sigs.add(key)
                    base = {'route': 'one Extractor object',
                            'input': shown, 'options': opts,
                            'queries_before': [list(q) for q in warm],
                            'changes': [list(d) for d in done],
                            'result_before': before, 'result_now': after}
                    self.emit(R, prefix, r[0], base,
                              {'multiset': mi, 'warm': [list(q) for q in warm],
                               'changes': [list(d) for d in done]},
                              scoped=False)
        R.states = len(states)
        R.out('hist:states=%d:%s' % (min(len(states), 30),
                                     'differs' if seen_sigs else 'same'))
        return R

    def run_fn(self, case):
        """the documented module-level functions on overlapping lists"""
        R = Res()
        rx = self.rexpy
        ps, xs, F = case['p'], case['x'], case['F']
        keysT = [M.anchored(p) for p in ps]
        for fv in itertools.product(range(1, F + 1), repeat=len(xs)):
            kept, _ = M.kept_examples(list(zip(xs, fv)))
            tables = M.match_tables(ps, list(kept))
            R.ev()
            base = {'patterns': ps, 'examples': list(kept.items())}
            sub = {'freqs': list(fv)}
            results = [self.fn_check(t, ps, keysT, xs, fv, kept)
                       for t in tables]
            if len(tables) > 1:
                R.unspec += 1
            fviols, omitted, over, unc = results[0]
            if all(r[0] for r in results):
                self.emit(R, 'functions:', fviols, base, sub)
            if over:
                R.nontrivial = True
            if omitted:
                R.unspec += 1
            R.out('fn:p=%d:x=%d:%s%s%s%s' % (
                len(ps), len(xs), 'overlap' if over else 'disjoint',
                ':uncovered' if unc else '',
                ':zero-incr-omitted' if omitted else '',
                ':two-readings' if len(tables) > 1 else ''))
        return R

    def fn_check(self, table, ps, keysT, xs, fv, kept):
        """all figures of the module-level functions against one reading"""
        rx = self.rexpy
        cu = M.coverage(table, kept, True)
        cn = M.coverage(table, kept, False)
        unc = M.uncovered(table, kept)
        over = sum(cu) > len(kept) - len(unc)
        omitted = 0
        fviols = []

        def bad(fig, clause, **d):
            fviols.append((fig, clause, d))

        for dedup in (False, True):
            ex = rx.Examples(list(xs), list(fv))
            got = list(self.quiet(rx.rex_coverage, list(ps), ex, dedup))
            want = cu if dedup else cn
            if got != want:
                bad('coverage:dedup=%d' % dedup,
                    'coverage-equals-match-count', got=got, expected=want)
            ex = rx.Examples(list(xs), list(fv))
            inc = self.quiet(rx.rex_incremental_coverage, list(ps), ex,
                             dedup)
            ex = rx.Examples(list(xs), list(fv))
            full = self.quiet(rx.rex_full_incremental_coverage, list(ps),
                              ex, dedup)
            for name, res in (('incremental', inc), ('full', full)):
                keys = list(res.keys())
                fig = '%s:dedup=%d' % (name, dedup)
                if name == 'full':
                    d = dict(got=[[k, list(res[k])] for k in keys])
                else:
                    d = dict(got=list(res.items()))
                if any(k not in keysT for k in keys):
                    bad(fig + ':keys',
                        'incremental-keys-are-returned-expressions', **d)
                    continue
                order = [keysT.index(k) for k in keys]
                w = M.walk(order, table, kept)
                if name == 'incremental':
                    gotv = [res[k] for k in keys]
                    want = [t[1] if dedup else t[0] for t in w]
                    if gotv != want:
                        bad(fig + ':values',
                            'incremental-credits-first-listed-match',
                            expected=want, **d)
                    sk = gotv
                    tot = sum(gotv)
                    wanttot = M.total(kept, dedup) - sum(
                        M.weight(kept, s, dedup) for s in unc)
                    if tot != wanttot:
                        bad(fig + ':sum', 'incremental-sums-to-total',
                            total=wanttot, **d)
                else:
                    for pos, k in enumerate(keys):
                        c = res[k]
                        i = order[pos]
                        for fn_, g, e in (
                                ('n', c.n, cn[i]),
                                ('n_uniq', c.n_uniq, cu[i]),
                                ('incr', c.incr, w[pos][0]),
                                ('incr_uniq', c.incr_uniq, w[pos][1]),
                                ('index', c.index, i)):
                            if g != e:
                                bad('%s:%s' % (fig, fn_),
                                    'full-coverage-fields', field=fn_,
                                    expression=k, expected=e, **d)
                    sk = [res[k].incr_uniq if dedup else res[k].incr
                          for k in keys]
                if not M.non_increasing(sk):
                    bad(fig + ':order', 'incremental-non-increasing', **d)
                omitted += len(ps) - len(keys)
        return fviols, omitted, over, unc

    def flush(self, R, viols, unc, rexes, base, sub, sampled, pruning, o,
              prefix=''):
        if not viols:
            return
        if sampled:
            R.unspec += 1
            R.out('sampled:figures-differ-from-supplied(unspecified):%s'
                  % ','.join(sorted(set(v[0].split(':')[0] for v in viols))))
            return
        cls = uncovered_class(unc, rexes) if unc else None
        if pruning:
            unc0 = getattr(self, '_unc0', None)
            cls = uncovered_class(*unc0) if unc0 else 'other'
            unc = unc0[0] if unc0 else []
        if unc and not (pruning and cls == 'other'):
            for figure, clause, d in viols:
                dd = dict(base)
                dd.update(d, uncovered=unc, figure=figure)
                R.viol('uncovered-example:%s' % cls, clause, dd,
                       dict(sub, figure=figure))
            return
        self.emit(R, prefix, viols, base, sub, scoped=not prefix)

    @staticmethod
    def emit(R, prefix, viols, base, sub, scoped=True):
        """one violation per figure family; the signature says which figure
        (coverage / incremental / full / n_examples) and whether the figures
        that count repeats, the de-duplicated ones, or both are wrong (the
        latter not when the prefix already names the root cause: argument
        form, history step)"""
        fams = {}
        for figure, clause, d in viols:
            fams.setdefault(figure.split(':')[0], []).append(
                (figure, clause, d))
        for fam in sorted(fams):
            vs = fams[fam]
            flags = set('dedup=1' in f for f, c, d in vs)
            scope = ('both' if len(flags) == 2 else
                     'dedup-only' if True in flags else 'with-repeats-only')
            if not any('dedup=' in f for f, c, d in vs):
                scope = 'any'
            dd = dict(base)
            dd.update(vs[0][2])
            dd['failed'] = sorted(set(f for f, c, d in vs))
            R.viol('%s%s:%s' % (prefix, fam, scope) if scoped
                   else '%s%s' % (prefix, fam),
                   '+'.join(sorted(set(c for f, c, d in vs))), dd,
                   dict(sub, figure=fam))


CHECK = C18()
