"""
C11 - gentest: for a repeatable command the generated test exists, compiles
and passes; generation leaves the command's outputs and bystanders alone.

E1 over deterministic commands, each executed for real.  The command is
`sh ./emit.sh` (see mc/gentest_harness.py): it copies data files to stdout,
stderr, 0-2 output files and the exit status.  gentest() is called in-process
in a worker-private sandbox under a fake clock, the generated script is
compiled, imported from its path and run through ReferenceTestCase.main from
the environment of the user's shell (thorough: also as `python test_x.py`).
"""
import itertools
import os

from mc.engine import Check, Res, TDDA_SRC
from mc import gentest_harness as gh
from mc.models import gentest_spec as spec

DEFAULTS = {'out': [], 'err': [], 'files': [], 'spec': 'none', 'status': 0,
            'iters': 2, 'no_stdout': 0, 'no_stderr': 0, 'nonzero': 0,
            'script': 'rel', 'pre': 0}


def mk(**kw):
    c = dict(DEFAULTS)
    c.update(kw)
    return c


def option_points(scripts=('rel', 'abs'), iters=(1, 2, 3)):
    for it in iters:
        for no_stdout in (0, 1):
            for no_stderr in (0, 1):
                for nonzero in (0, 1):
                    for status in (0, 3):
                        for sc in scripts:
                            yield {'iters': it, 'no_stdout': no_stdout,
                                   'no_stderr': no_stderr, 'nonzero': nonzero,
                                   'status': status, 'script': sc}


def spec_points(with_pre=True, absolute=False):
    """(spec, pre): outputs that exist beforehand only with explicit / glob
    naming (directory mode would depend on ctime granularity)."""
    pts = [('none', 0), ('dir', 0), ('explicit', 0), ('glob', 0)]
    if with_pre:
        pts += [('explicit', 1), ('glob', 1)]
    if absolute:
        pts += [('absolute', 0), ('absolute', 1)]
    return pts


def tokens(tier):
    return gh.THOROUGH_TOKENS if tier == 'thorough' else gh.QUICK_TOKENS


def kinds(tier):
    return (['text', 'csv', 'bin', 'png', 'noext', 'json', 'latin', 'zero']
            if tier == 'thorough' else ['text', 'csv', 'bin', 'png'])


def placements(toks):
    yield [], []
    for t in toks:
        yield [t], []
        yield [], [t]


# ---- output-file places and names (see gentest_harness.PLACES)
CWD, SUB, TMP, ALT, SIB, ELSE = 0, 1, 2, 3, 4, 5
NAMES = ['o.txt', 'Report.txt', 'a-b.txt', 'a_b.txt', 'a.b.txt', 'stdout']
NAMES_THOROUGH = NAMES + ['stderr', 'report.txt', 'exit_code', 'O.TXT']


def specs_for(places, pre):
    """naming modes under which gentest can see files at these places"""
    inside = all(p in (CWD, SUB, ALT) for p in places)
    scanned = all(p in (CWD, SUB, ALT, TMP) for p in places)
    out = []
    if scanned:
        out += ['none', 'dir']
    out += ['explicit', 'glob']
    if not inside and TMP not in places:
        out.append('relative')
    return out


def tf(name, place, lines):
    return {'kind': 'text', 'sub': place, 'name': name, 'lines': lines}


def two_file_sets(tier):
    """two text outputs with DIFFERENT contents: same base name in two
    directories, names the sanitiser maps together, case variants, a file
    called like a stream; over pairs of places."""
    A, B = ['plain'], ['quotes', 'plain']
    same = ['Report.txt', 'o.txt', 'stdout']
    for n in same:
        for p1, p2 in ((SUB, ALT), (CWD, SUB), (CWD, TMP), (SUB, SIB),
                       (CWD, ELSE)):
            yield [tf(n, p1, A), tf(n, p2, B)]
    pairs = [('a-b.txt', 'a_b.txt'), ('a_b.txt', 'a.b.txt'),
             ('a-b.txt', 'a.b.txt'), ('Report.txt', 'report.txt'),
             ('stdout', 'o.txt'), ('Report.txt', 'a-b.txt')]
    if tier == 'thorough':
        pairs += [('stderr', 'stdout'), ('exit_code', 'o.txt'),
                  ('O.TXT', 'o.txt')]
    for n1, n2 in pairs:
        for p1, p2 in ((CWD, CWD), (SUB, SUB), (SUB, ALT), (CWD, SIB)):
            yield [tf(n1, p1, A), tf(n2, p2, B)]


SHAPES_FOR_REGEN = [
    mk(out=['plain']),
    mk(out=['today'], err=['host'], iters=3),
    mk(out=['plain'], files=[{'kind': 'text', 'sub': 0, 'lines': ['plain']}],
       spec='explicit'),
    mk(out=['plain'], files=[{'kind': 'text', 'sub': 0, 'lines': ['cwd']},
                             {'kind': 'bin', 'sub': 1}], spec='glob'),
    mk(files=[{'kind': 'csv', 'sub': 1}], spec='explicit', no_stdout=1),
    mk(err=['quotes'], status=3, nonzero=1, no_stdout=1),
    mk(out=['tmp'], files=[{'kind': 'png', 'sub': 0}], spec='explicit',
       iters=3),
    mk(out=['uni'], no_stderr=1, script='abs'),
]


class _Suffixed(object):
    """a Res whose violation signatures say which history they need"""

    def __init__(self, R, suffix):
        object.__setattr__(self, '_R', R)
        object.__setattr__(self, '_suffix', suffix)

    def viol(self, sig, *a, **k):
        return self._R.viol(sig + self._suffix, *a, **k)

    def __getattr__(self, n):
        return getattr(self._R, n)

    def __setattr__(self, n, v):
        setattr(self._R, n, v)


# ---- what a command does with gentest's $TMPDIR (in-process histories)
INPROC_KINDS = ['none', 'tmptext', 'tmpfile']


def inproc_shape(kind, stem, iters):
    if kind == 'none':
        c = mk(out=['plain'], err=['quotes'])
    elif kind == 'tmptext':
        c = mk(out=['tmp'], err=['plain'])
    else:
        c = mk(out=['plain'], files=[tf('o.txt', TMP, ['plain', 'regex'])])
    c['iters'] = iters
    c['stem'] = stem
    return c


def inproc_kind(case):
    if any(f.get('sub') == TMP for f in case['files']):
        return 'tmpfile'
    return 'tmptext' if 'tmp' in case['out'] + case['err'] else 'none'


class C11(Check):
    pid = 'C11'
    title = ('gentest: for a repeatable command the generated test exists, '
             'compiles and passes')
    technique = ('bounded exhaustive enumeration of deterministic commands '
                 '(token alphabet x output files x naming mode x options), '
                 'each generated and run for real in a sandbox under a fake '
                 'clock, with snapshots and an audit log of file mutations')
    rule = ('cases = every (stdout line(s), stderr line(s)) over the token '
            'alphabet x iterations {1,2,3}; every single-token command x '
            '{1,2,3} x --no-stdout x --no-stderr x --non-zero-exit x status '
            '{0,3} x script name {relative, absolute (+bare, no prefix '
            'thorough)}; 1-2 output files of every kind x {cwd, '
            'sub-directory, $TMPDIR} x naming {default, ".", explicit, glob} x '
            'pre-existing outputs; every rarely used keyword of gentest() at a '
            'non-default value alone and x file place x naming; the wizard '
            'entry point; script names differing only in underscores / case '
            'x spellings of the script argument; histories of two '
            'generate-and-run cycles in one process whose environment is '
            'never put back x {no $TMPDIR, $TMPDIR in text, file under '
            '$TMPDIR}^2; thorough adds two-line streams, missing '
            'final newline, the larger token / file-kind alphabets, '
            'regeneration histories and `python test_x.py` subprocess runs. '
            'non-trivial = generation was not (documentedly) refused and the '
            'command produces at least one line or file')
    assumptions = [
        'the command is `sh ./emit.sh` copying data files (dash, sed, cat); '
        'clock fixed at 2024-03-15 12:00 through the gentest.datetime seam; '
        "gentest's private $TMPDIR pinned to a deterministic directory",
        'the generated script is run from the environment the user invoked '
        'gentest from (os.environ edits made by gentest in its own process '
        'are undone), in-process via ReferenceTestCase.main; thorough binds '
        'this to `python test_x.py` on a whole layer; layer inproc instead '
        'keeps whatever gentest and the generated scripts did to os.environ '
        '(a driver generating and running several tests in one process)',
        'the wizard is driven through the gentest.actual_input seam; '
        'no_clobber over an existing script / reference directory must '
        'refuse and leave both untouched (documented); where test<name>.py '
        '(no underscore) keeps its references is not documented',
        'gray zones (unspecified, never alarmed): non-zero status without '
        '--non-zero-exit (documented refusal); directory mode with outputs '
        'that already exist (ctime granularity) is not generated; globs never '
        'match bystanders; names of tests / references for two outputs with '
        'the same base name',
        'bounds: <= 2 lines per stream, <= 2 output files, script placed in '
        'the working directory',
    ]

    def hashseeds(self, tier, verif_seed):
        # gentest keeps reference files and test names in sets of strings
        return [verif_seed % 3]

    # ------------------------------------------------------------- layers
    def layers(self, tier):
        L = [('base', 'default options: one token on one stream, or one '
                      'output file'),
             ('tokens', 'stdout token x stderr token x iterations'),
             ('options', 'single-token commands x full option product'),
             ('files1', 'one output file: kind x place x naming x iterations '
                        'x pre-existing x text content'),
             ('files2', 'two output files'),
             ('fileopts', 'one output file x stream/exit options'),
             ('places', 'one text file: place {cwd, sub, alt, sibling '
                        '<cwd>_out, $TMPDIR, elsewhere} x name alphabet x '
                        'naming x iterations x already present'),
             ('twofiles', 'two text files with different contents: same '
                          'base name / sanitiser-equal / case variants / '
                          'stream-like names x place pairs x naming'),
             ('chars', 'every str.splitlines() boundary class (and CR) '
                       'inside / at the end of a line, NUL, astral: on '
                       'stdout, stderr and in a text file, next to a plain '
                       'line'),
             ('big', 'streams around and beyond the 65 536-byte pipe '
                     'capacity: one long line / many short lines, stdout, '
                     'stderr, both'),
             ('encodings', 'Latin-1 bytes in .txt/.csv files, CRLF and NUL '
                           'in text files x place x naming x iterations'),
             ('commands', 'command text alphabet (quotes, triple quotes, '
                          'backslash, percent, unicode) x script name '
                          '{given, default, -} x API / command line'),
             ('cli', 'documented command-line flags -r -m -C -n -O -E -Z '
                     'through the tdda gentest argument parser'),
             ('globdir', 'a glob that matches the directory holding the '
                         'outputs'),
             ('kwargs', 'every rarely used keyword of gentest() at a '
                        'non-default value (tmp_dir_shell_var None / custom '
                        'name, max_snapshot_files, relative_paths, '
                        'no_clobber): alone, x file place x naming x '
                        'iterations, no_clobber over a previous generation'),
             ('wizard', 'the question-and-answer wizard (gentest(None, '
                        'None, ...)) fed through the actual_input seam: '
                        'shapes x $TMPDIR yes/no x stream / exit / clobber '
                        'answers x iterations'),
             ('scriptnames', 'script-name alphabet: stems that differ only '
                             'in underscores / case x the ways of spelling '
                             'the script argument (test_<s>.py, absolute, '
                             '<s>, <s>.py, test<s>.py)'),
             ('inproc', 'histories of two generate-and-run cycles in ONE '
                        'process whose environment is never put back: '
                        '{no $TMPDIR, $TMPDIR in the text, file written '
                        'under $TMPDIR}^2 x {fresh directory, same '
                        'directory and another script name} x iterations')]
        if tier == 'thorough':
            L += [('lines2', 'two lines on one stream (ordered token pairs), '
                             'missing final newline'),
                  ('mixed', 'stdout token x text-file token x naming x '
                            'iterations'),
                  ('regen', 'generate over a previous generation (histories '
                            'of two generations)'),
                  ('subproc', 'base cases and single-token commands with 1 '
                              'and 3 iterations also run as python '
                              'test_x.py')]
        return L

    def cases(self, tier, layer):
        T = tokens(tier)
        K = kinds(tier)
        if layer == 'base':
            for out, err in placements(T):
                yield mk(out=out, err=err)
            for k in K:
                for sp in ('none', 'explicit'):
                    yield mk(out=['plain'], files=[{'kind': k, 'sub': 0}],
                             spec=sp)
        elif layer == 'tokens':
            opts = [None] + list(T)
            for o in opts:
                for e in opts:
                    for it in (1, 2, 3):
                        yield mk(out=[o] if o else [], err=[e] if e else [],
                                 iters=it)
        elif layer == 'options':
            scripts = (('rel', 'abs', 'bare', 'nopfx') if tier == 'thorough'
                       else ('rel', 'abs'))
            for out, err in placements(T):
                for op in option_points(scripts):
                    yield mk(out=out, err=err, **op)
        elif layer == 'files1':
            absolute = tier == 'thorough'
            for k in K:
                textual = gh.FILE_KINDS[k][1] is None
                contents = [[t] for t in T] if textual else [None]
                for lines in contents:
                    for sub in (0, 1, 2):
                        for sp, pre in spec_points(absolute=absolute):
                            if sub == 2 and (pre or lines not in (
                                    None, ['plain'], ['today'], ['tmp'])):
                                continue
                            for it in (1, 2, 3):
                                scripts = ('rel', 'abs') if (
                                    lines in (None, ['plain'])) else ('rel',)
                                for sc in scripts:
                                    f = {'kind': k, 'sub': sub}
                                    if lines:
                                        f['lines'] = lines
                                    yield mk(out=['plain'], files=[f],
                                             spec=sp, pre=pre, iters=it,
                                             script=sc)
        elif layer == 'files2':
            pairs = list(itertools.combinations(K, 2))
            if tier == 'thorough':
                pairs += [(k, k) for k in ('text', 'bin')]   # same base name
            for k1, k2 in pairs:
                for s1, s2 in ((0, 0), (0, 1), (1, 1), (0, 2), (1, 0)):
                    if k1 == k2 and s1 == s2:
                        continue
                    if (s1, s2) == (1, 0) and tier != 'thorough':
                        continue
                    for sp, pre in spec_points(with_pre=(tier == 'thorough')):
                        if pre and 2 in (s1, s2):
                            continue
                        for it in (1, 2, 3):
                            yield mk(out=['plain'], err=['today'],
                                     files=[{'kind': k1, 'sub': s1},
                                            {'kind': k2, 'sub': s2}],
                                     spec=sp, pre=pre, iters=it)
        elif layer == 'fileopts':
            for k in (('text', 'bin') if tier != 'thorough' else K):
                for sp in ('dir', 'explicit'):
                    for op in option_points(scripts=('rel',)):
                        yield mk(out=['host'], err=['plain'],
                                 files=[{'kind': k, 'sub': 0,
                                         'lines': ['today']}
                                        if gh.FILE_KINDS[k][1] is None
                                        else {'kind': k, 'sub': 0}],
                                 spec=sp, **op)
        elif layer == 'places':
            names = NAMES_THOROUGH if tier == 'thorough' else NAMES
            for place in (CWD, SUB, ALT, SIB, TMP, ELSE):
                for n in names:
                    for pre in (0, 1):
                        for sp in specs_for([place], pre):
                            for it in (1, 2):
                                yield mk(out=['plain'], err=['today'],
                                         files=[tf(n, place, ['plain',
                                                              'regex'])],
                                         spec=sp, pre=pre, iters=it)
        elif layer == 'twofiles':
            for fs in two_file_sets(tier):
                places = [f['sub'] for f in fs]
                for pre in (0, 1):
                    for sp in specs_for(places, pre):
                        if sp == 'none':
                            continue
                        for it in ((1, 2) if tier == 'thorough' else (2,)):
                            yield mk(out=['plain'], files=fs, spec=sp,
                                     pre=pre, iters=it)
        elif layer == 'chars':
            for t in gh.CHAR_TOKENS:
                for it in (1, 2):
                    yield mk(out=[t], iters=it)
                    yield mk(err=[t], iters=it)
                    yield mk(out=[t, 'plain'], err=['plain', t], iters=it)
                    yield mk(out=['plain', t], iters=it)
                    yield mk(out=['plain'], iters=it, spec='explicit',
                             files=[{'kind': 'text', 'sub': 0,
                                     'lines': [t, 'plain']}])
            if tier == 'thorough':
                for a in gh.CHAR_TOKENS:
                    for c in gh.CHAR_TOKENS:
                        yield mk(out=[a, c], err=[c, a])
        elif layer == 'big':
            for t in gh.BIG_TOKENS:
                for it in (1, 2):
                    yield mk(out=[t], iters=it)
                    yield mk(err=[t], iters=it)
                    yield mk(out=['plain', t], err=[t, 'today'], iters=it)
        elif layer == 'encodings':
            for k in ('latintxt', 'latincsv', 'latinlong', 'crlf', 'nultxt',
                      'latin', 'utf8txt', 'bomtxt', 'bomascii'):
                for sub in (0, 1):
                    for sp in ('dir', 'explicit', 'glob'):
                        for it in (1, 2):
                            yield mk(out=['plain'],
                                     files=[{'kind': k, 'sub': sub}],
                                     spec=sp, iters=it)
        elif layer == 'commands':
            for i in range(len(gh.COMMANDS)):
                for sc in ('rel', 'auto', 'dash'):
                    for it in (1, 2):
                        for entry in ('api', 'cli'):
                            c = mk(out=['plain'], err=['quotes'], iters=it,
                                   script=sc, cmd=i)
                            c['entry'] = entry
                            yield c
            for i in range(len(gh.COMMANDS)):
                c = mk(out=['plain'], cmd=i, script='auto', spec='dir',
                       files=[{'kind': 'text', 'sub': 1}])
                yield c
        elif layer == 'cli':
            flagsets = [[], ['-r'], ['-m', '500'], ['-C'],
                        ['-r', '-m', '500', '-C']]
            shapes = [dict(files=[], spec='none'),
                      dict(files=[{'kind': 'text', 'sub': 0}],
                           spec='explicit'),
                      dict(files=[{'kind': 'bin', 'sub': 1}], spec='dir')]
            for fl in flagsets:
                for sh in shapes:
                    for it in (1, 2):
                        c = mk(out=['host'], err=['plain'], iters=it, **sh)
                        c['entry'] = 'cli'
                        c['flags'] = fl
                        yield c
            for op in option_points(scripts=('rel',)):
                c = mk(out=['plain'], err=['today'], **op)
                c['entry'] = 'cli'
                yield c
        elif layer == 'globdir':
            for place in (SUB, ALT, SIB, ELSE):
                for k in ('text', 'bin'):
                    for pre in (0, 1):
                        for it in (1, 2):
                            yield mk(out=['plain'],
                                     files=[{'kind': k, 'sub': place}],
                                     spec='globdir', pre=pre, iters=it)
        elif layer == 'kwargs':
            for kw in gh.KW_POINTS:
                var = kw.get('tmp_dir_shell_var', 'TMPDIR')
                for out, err in ((['plain'], []), (['tmp'], ['plain']),
                                 ([], ['tmp'])):
                    for it in (1, 2):
                        yield mk(out=out, err=err, iters=it, kw=kw)
                for place in (CWD, SUB, TMP, SIB):
                    if place == TMP and not var:
                        continue    # nothing makes gentest look there
                    for sp in specs_for([place], 0):
                        for k in ('text', 'bin'):
                            for it in (1, 2):
                                f = ({'kind': 'bin', 'sub': place}
                                     if k == 'bin' else
                                     tf('o.txt', place, ['plain', 'regex']))
                                yield mk(out=['plain'], err=['tmp'],
                                         files=[f], spec=sp, iters=it, kw=kw)
                for op in option_points(scripts=('rel',), iters=(2,)):
                    yield mk(out=['today'], err=['plain'], kw=kw,
                             files=[tf('o.txt', CWD, ['plain'])],
                             spec='explicit', **op)
            for prev in SHAPES_FOR_REGEN[:4]:
                for new in SHAPES_FOR_REGEN[:4]:
                    c = dict(new, kw={'no_clobber': True})
                    c['prev'] = prev
                    yield c
        elif layer == 'wizard':
            shapes = [dict(files=[], spec='none'),
                      dict(files=[tf('o.txt', CWD, ['plain', 'quotes'])],
                           spec='explicit'),
                      dict(files=[{'kind': 'bin', 'sub': SUB}], spec='dir'),
                      dict(files=[tf('Report.txt', SIB, ['plain'])],
                           spec='explicit'),
                      dict(files=[tf('o.txt', TMP, ['plain'])], spec='none')]
            answers = [dict(), dict(no_stdout=1), dict(no_stderr=1),
                       dict(nonzero=1, status=3), dict(kw={'no_clobber': True}),
                       dict(script='bare'), dict(script='auto')]
            for sh in shapes:
                for tmp_yes in (1, 0):
                    if not tmp_yes and any(f['sub'] == TMP
                                           for f in sh['files']):
                        continue
                    for an in answers:
                        for it in (1, 2):
                            c = mk(out=['plain'], err=['tmp'], iters=it,
                                   **dict(sh, **an))
                            c['entry'] = 'wizard'
                            if not tmp_yes:
                                c['kw'] = dict(c.get('kw') or {},
                                               tmp_dir_shell_var=None)
                            yield c
        elif layer == 'scriptnames':
            for stem in gh.STEMS:
                for sc in ('rel', 'abs', 'bare', 'nopfx', 'nound'):
                    for sh in (dict(files=[], spec='none'),
                               dict(files=[tf('o.txt', CWD, ['plain'])],
                                    spec='explicit'),
                               dict(files=[{'kind': 'bin', 'sub': SUB}],
                                    spec='dir')):
                        for it in (1, 2):
                            yield mk(out=['plain'], err=['today'], iters=it,
                                     script=sc, stem=stem, **sh)
        elif layer == 'inproc':
            for k1 in INPROC_KINDS:
                for k2 in INPROC_KINDS:
                    for wipe in (1, 0):
                        for it in (1, 2):
                            yield {'seq': [inproc_shape(k1, 'x', it),
                                           inproc_shape(k2, 'x' if wipe
                                                        else 'y', it)],
                                   'wipe': wipe}
        elif layer == 'lines2':
            for a in T:
                for b in T:
                    for it in (1, 2):
                        yield mk(out=[a, b], err=[], iters=it)
                        yield mk(out=['plain'], err=[a, b], iters=it)
            for a in T:
                for it in (1, 2):
                    c = mk(out=[a], iters=it)
                    c['out_nonl'] = 1
                    yield c
                    c = mk(err=[a], iters=it)
                    c['err_nonl'] = 1
                    yield c
                    c = mk(out=['plain', a], iters=it)
                    c['out_nonl'] = 1
                    yield c
        elif layer == 'regen':
            for prev in SHAPES_FOR_REGEN:
                for new in SHAPES_FOR_REGEN:
                    c = dict(new)
                    c['prev'] = prev
                    yield c
        elif layer == 'mixed':
            for o in T:
                for t in T:
                    for sp in ('dir', 'explicit', 'glob'):
                        for it in (1, 2):
                            yield mk(out=[o], err=['plain'],
                                     files=[{'kind': 'text', 'sub': 0,
                                             'lines': [t]}],
                                     spec=sp, iters=it)
        elif layer == 'subproc':
            Q = gh.QUICK_TOKENS
            for c in self.cases('quick', 'base'):
                c = dict(c)
                c['subproc'] = 1
                yield c
            for out, err in placements(Q):
                for it in (1, 3):
                    c = mk(out=out, err=err, iters=it)
                    c['subproc'] = 1
                    yield c

    # ------------------------------------------------------------ workers
    def setup_worker(self, tier):
        self.H = gh.Harness()
        self.H.setup()
        self.tier = tier

    def teardown_worker(self):
        H = getattr(self, 'H', None)
        if H is not None:
            H.teardown()

    # ------------------------------------------------------------ helpers
    def classes(self, toks):
        return spec.leading_class(toks)

    def gen_sig(self, g):
        where = '?'
        root = os.path.join(TDDA_SRC, 'tdda')
        for fr in g['tb'] or []:
            fn = os.path.abspath(fr.filename)
            if fn.startswith(root):
                where = '%s:%s' % (os.path.basename(fn), fr.name)
        return 'gen-raises:%s@%s%s' % (
            type(g['exc']).__name__, where,
            ':globdir' if g.get('spec') == 'globdir' else '')

    def check_untouched(self, R, b, before, after, g, sub, allowed_gone=()):
        """bystanders byte-identical with unchanged mtime and inode; the
        command's own outputs still there with the command's content."""
        outputs = dict((rel, dname) for rel, dname, _ in b.files)
        for rel, st in before.items():
            if rel in allowed_gone or rel.startswith('ref/') \
                    or rel == os.path.basename(b.script):
                continue
            if rel in outputs:
                continue
            if rel not in after:
                R.viol('bystander-removed:%s' % self.bykind(rel),
                       'generation-leaves-other-files-alone',
                       {'case': b.case, 'path': rel}, sub)
            elif after[rel] != st:
                R.viol('bystander-altered:%s' % self.bykind(rel),
                       'generation-leaves-other-files-alone',
                       {'case': b.case, 'path': rel, 'before': st,
                        'after': after[rel]}, sub)
        protected = set(os.path.normpath(os.path.join(b.cwd, rel))
                        for rel in before
                        if not rel.endswith('/') and rel not in outputs
                        and not rel.startswith('ref/')
                        and rel != os.path.basename(b.script))
        for ev, p in g['audit']:
            ap = os.path.normpath(os.path.join(b.cwd, p))
            if ap in protected:
                R.viol('bystander-written:%s' % self.bykind(
                    os.path.relpath(ap, b.cwd)),
                    'generation-leaves-other-files-alone',
                    {'case': b.case, 'event': ev, 'path': p}, sub)
            elif any(ap == os.path.normpath(os.path.join(b.cwd, rel))
                     for rel in outputs):
                R.viol('output-written-by-gentest',
                       'generation-leaves-outputs-alone',
                       {'case': b.case, 'event': ev, 'path': p}, sub)

    @staticmethod
    def bykind(rel):
        if rel.startswith('d_') or rel == 'emit.sh':
            return 'command-input'
        return rel

    def check_outputs(self, R, b, after, sub):
        for rel, dname, kind in b.files:
            p = os.path.normpath(os.path.join(b.cwd, rel))
            if not os.path.isfile(p):
                R.viol('output-removed:%s' % kind,
                       'generation-leaves-outputs-alone',
                       {'case': b.case, 'path': rel}, sub)
                continue
            with open(p, 'rb') as f:
                got = f.read()
            if got != self.H.expected_file(b, dname, b.tmpdir):
                R.viol('output-altered:%s' % kind,
                       'generation-leaves-outputs-alone',
                       {'case': b.case, 'path': rel}, sub)

    # ----------------------------------------------------------- run_case
    def run_case(self, case):
        R = Res()
        H = self.H
        sub = None
        seq = case.get('seq')
        if seq:
            # several generate-and-run cycles in ONE process: the process
            # environment (os.environ, tempfile) is never put back
            for i, step in enumerate(seq):
                b = H.build(step, wipe=(i == 0 or bool(case.get('wipe'))),
                            keep_env=i > 0)
                Ri = R if i == 0 else _Suffixed(
                    R, ':after-%s-in-same-process' % inproc_kind(seq[i - 1]))
                self._one(Ri, b, 'cycle-%d' % (i + 1),
                          0.03 if i else 0.0, True)
            return R
        prev = case.get('prev')
        if prev is not None:
            pb = H.build(prev)
            pg = H.generate(pb)
            R.ev()
            if pg['exc'] is not None or pg['exit'] is not None:
                R.out('prev-generation-failed')
                return R
            b = H.build(dict((k, v) for k, v in case.items() if k != 'prev'),
                        wipe=False)
            sub = 'second-generation'
        else:
            b = H.build(case)
        # outputs that exist already: let the file system clock tick so that
        # "written after the snapshot" does not depend on ctime granularity
        self._one(R, b, sub, 0.03 if (b.case.get('pre') or prev) else 0.0,
                  False)
        return R

    def _one(self, R, b, sub, settle, keep_env):
        """generate, check, run the generated script, check"""
        H = self.H
        case = b.case
        before = H.snap(b)
        clobbers = os.path.exists(b.script) or os.path.isdir(b.refdir)
        g = H.generate(b, settle=settle, keep_env=keep_env)
        g['spec'] = case.get('spec')
        R.ev()
        after = H.snap(b)
        basenames = [os.path.basename(rel) for rel, _, _ in b.files]
        has_output = bool(case['out'] or case['err'] or case['files'])
        self.check_untouched(R, b, before, after, g, sub)

        if (case.get('kw') or {}).get('no_clobber') and clobbers:
            # documented: -C / no_clobber does not overwrite an existing test
            # script or reference directory
            mine = lambda snap: dict(
                (k, v) for k, v in snap.items()
                if k == os.path.basename(b.script) or k.startswith(
                    os.path.relpath(b.refdir, b.cwd) + os.sep))
            R.nontrivial = True
            R.out('no-clobber:%s' % ('exit' if g['exit'] is not None else
                                     'raise' if g['exc'] is not None
                                     else 'generated'))
            if mine(before) != mine(after):
                R.viol('no-clobber-overwrites', 'no-clobber-keeps-previous-test',
                       {'case': case, 'changed': sorted(
                           k for k in set(mine(before)) | set(mine(after))
                           if mine(before).get(k) != mine(after).get(k))},
                       sub)
            elif g['exit'] is None:
                R.viol('no-clobber-no-refusal', 'no-clobber-keeps-previous-test',
                       {'case': case, 'exception': repr(g['exc'])[:200]}, sub)
            return R
        if spec.refuses(case):
            R.unspec += 1
            R.out('refusal:%s' % ('exit' if g['exit'] is not None else
                                  'raise' if g['exc'] is not None else 'none'))
            return R
        R.nontrivial = has_output
        if g.get('hang'):
            R.out('generation-hangs')
            R.viol('generation-hangs:%s' % self.size_class(case),
                   'generation-completes-without-error',
                   {'case': case, 'limit_s': gh.HANG_LIMIT}, sub)
            return R
        if g['exc'] is not None:
            R.out('gen-exc:%s' % type(g['exc']).__name__)
            R.viol(self.gen_sig(g), 'generation-completes-without-error',
                   {'case': case, 'exception': repr(g['exc'])[:300],
                    'traceback': [(os.path.basename(f.filename), f.lineno,
                                   f.name) for f in g['tb']][-5:]}, sub)
            return R
        if g['exit'] is not None:
            R.out('gen-exit:%s' % g['exit'])
            R.viol('gen-exits:%s' % g['exit'],
                   'generation-completes-without-error',
                   {'case': case, 'stderr': g['stderr'][-400:]}, sub)
            return R
        self.check_outputs(R, b, after, sub)

        # ---- script and references
        if not os.path.isfile(b.script):
            R.out('no-script')
            R.viol('no-script:%s' % case['script'], 'script-written',
                   {'case': case, 'files': sorted(after)}, sub)
            return R
        try:
            code = H.compile_script(b)
        except (SyntaxError, ValueError) as e:
            R.out('syntax-error')
            R.viol('script-syntax:cmd=%s:lines=%s' % (
                spec.command_class(b.command),
                self.classes(case['out'] + case['err'])),
                   'script-is-valid-python',
                   {'case': case, 'error': repr(e)[:300]}, sub)
            return R
        refs = spec.expected_refs(case, basenames)
        if case['script'] == 'nound':
            # test<name>.py without the underscore: the documentation does
            # not say where its references go
            R.unspec += 1
        elif refs is None:
            # names of the copies are not documented: every stream / output
            # must still have a reference copy of its own
            R.unspec += 1
            have = []
            if os.path.isdir(b.refdir):
                for n in sorted(os.listdir(b.refdir)):
                    p = os.path.join(b.refdir, n)
                    if os.path.isfile(p):
                        with open(p, 'rb') as f:
                            have.append(f.read())
            want = [H.expected_file(b, dname, b.tmpdir)
                    for _, dname, _ in b.files]
            if not case['no_stdout']:
                want.append(H.expected_stdout(b, b.tmpdir))
            if not case['no_stderr']:
                want.append(H.expected_stderr(b, b.tmpdir))
            pool = list(have)
            lost = []
            for w in want:
                if w in pool:
                    pool.remove(w)
                else:
                    lost.append(repr(w[:60]))
            if lost:
                R.viol('reference-lost:%s' % spec.collision_kind(
                    case, basenames), 'reference-files-hold-the-outputs',
                    {'case': case, 'no_reference_holds': lost,
                     'refdir': sorted(os.listdir(b.refdir))}, sub)
        else:
            for r in refs:
                p = os.path.join(b.refdir, r)
                if not os.path.isfile(p):
                    R.viol('reference-missing:%s' % (
                        r if r in ('STDOUT', 'STDERR') else 'file'),
                        'reference-files-written',
                        {'case': case, 'missing': r,
                         'refdir': sorted(k for k in after
                                          if k.startswith('ref/'))}, sub)
                    continue
                with open(p, 'rb') as f:
                    got = f.read()
                if r == 'STDOUT':
                    want = H.expected_stdout(b, b.tmpdir)
                elif r == 'STDERR':
                    want = H.expected_stderr(b, b.tmpdir)
                else:
                    want = H.expected_file(
                        b, b.files[basenames.index(r)][1], b.tmpdir)
                if got != want:
                    R.viol('reference-content:%s' % (
                        r if r in ('STDOUT', 'STDERR') else
                        'file-' + b.files[basenames.index(r)][2]),
                        'reference-files-hold-the-outputs',
                        {'case': case, 'ref': r, 'got': repr(got[:200]),
                         'want': repr(want[:200])}, sub)

        # ---- run it
        run = H.run_script(b, code, keep_env=keep_env)
        R.ev()
        if run['hang']:
            R.out('generated-test-hangs')
            R.viol('generated-test-hangs:%s' % self.size_class(case),
                   'generated-test-passes',
                   {'case': case, 'limit_s': gh.HANG_LIMIT}, sub)
            return R
        with open(b.script) as f:
            text = f.read()
        feat = '%s%s%s' % ('S' if 'ignore_substrings' in text else '',
                           'P' if 'ignore_patterns' in text else '',
                           'T' if 'orig_tmpdir' in text else '')
        nbin = text.count('assertBinaryFileCorrect')
        ntxt = text.count('assertTextFileCorrect')
        if run['import_error']:
            R.out('import-error')
            R.viol('script-import:%s' % run['import_error'].split(':')[0],
                   'script-runs', {'case': case,
                                   'error': run['import_error'][:300]}, sub)
            return R
        tests = run['tests']
        nbad = sum(1 for v in tests.values() if v != 'ok') + len(run['other'])
        R.out('ran t=%d bad=%d excl=%s txt=%d bin=%d'
              % (len(tests), nbad, feat or '-', ntxt, nbin))
        want_tests, names_ok, groups = spec.expected_tests(case, basenames)
        guards = {}
        for t, gd in want_tests.items():
            guards[t] = gd
        ckind = spec.collision_kind(case, basenames)
        for pfx, members in groups.items():
            for t in tests:
                if t.startswith(pfx) and t not in guards:
                    guards[t] = ('group', pfx, members)
        if names_ok:
            missing = sorted(set(want_tests) - set(tests))
            extra = sorted(set(tests) - set(want_tests))
            if missing or extra:
                bynames = set('test_' + spec.sanitize(n)
                              for n in gh.BYSTANDER_NAMES)
                xk = sorted(set(
                    'command-input' if (x.startswith('test_d_')
                                        or x == 'test_emit_sh')
                    else 'bystander' if (x in bynames or
                                         x.rstrip('0123456789') in bynames)
                    else 'other' for x in extra))
                R.viol('test-set:missing=%s:extra=%s'
                       % (','.join(self.guardname(b, guards.get(m)) for m in
                                   missing) or '-', '+'.join(xk) or '-'),
                       'one-test-per-stream-file-status',
                       {'case': case, 'missing': missing, 'extra': extra},
                       sub)
            if extra:
                # a file the command never wrote is treated as its output:
                # the generated setUpClass deletes it; what follows is noise
                return R
        else:
            R.unspec += 1
            missing = sorted(set(want_tests) - set(tests))
            for pfx, members in groups.items():
                have = [t for t in tests if t.startswith(pfx)
                        and t not in want_tests]
                if len(have) < len(members):
                    missing.append('%s*(%d of %d)' % (pfx, len(have),
                                                      len(members)))
            if missing or len(tests) != spec.expected_count(case, basenames):
                R.viol('test-count:%s:%s' % (
                    'short' if len(tests) < spec.expected_count(
                        case, basenames) else 'other', ckind),
                    'one-test-per-stream-file-status',
                    {'case': case, 'tests': sorted(tests),
                     'missing': missing,
                     'expected_count': spec.expected_count(case, basenames)},
                    sub)
        for o in run['other']:
            R.viol('class-level-error', 'generated-test-passes',
                   {'case': case, 'error': o}, sub)
        for t in sorted(tests):
            if tests[t] == 'ok':
                continue
            gname = self.guardname(b, guards.get(t))
            if gname.startswith('group'):
                R.viol('test-fails:%s:%s:n%s:%s' % (
                    gname, tests[t], '1' if case['iters'] == 1 else '2+',
                    ckind), 'generated-test-passes',
                    {'case': case, 'test': t, 'result': tests[t],
                     'message': run['details'].get(t, '')[-400:]}, sub)
                continue
            if gname == 'stdout':
                cl = self.classes(case['out'])
            elif gname == 'stderr':
                cl = self.classes(case['err'])
            elif gname.startswith('file-'):
                f = case['files'][guards[t][1]]
                cl = self.classes(f.get('lines')) + (
                    '', ':sub', ':tmp', ':alt', ':sibling', ':elsewhere')[
                    f.get('sub') or 0]
                if 'latin1' in gname:
                    cl = '-'        # the place plays no part
            else:
                cl = '-'
            R.viol('test-fails:%s:%s:n%s:%s'
                   % (gname, tests[t], '1' if case['iters'] == 1 else '2+',
                      cl),
                   'generated-test-passes',
                   {'case': case, 'test': t, 'result': tests[t],
                    'message': run['details'].get(t, '')[-400:]}, sub)
        if case.get('subproc'):
            rc, errtxt = H.run_subprocess(b)
            R.ev()
            if (rc == 0) != (nbad == 0):
                R.viol('subprocess-differs:rc=%s:inprocess-bad=%d'
                       % (rc, nbad), 'in-process-run-equals-python-script',
                       {'case': case, 'rc': rc, 'stderr': errtxt}, sub)
        return R

    @staticmethod
    def size_class(case):
        big = [t for t in case['out'] + case['err'] if t.startswith('@')]
        if not big:
            return 'small'
        n = max(int(t.split(':')[1]) for t in big)
        return 'over-pipe-capacity' if n > 65536 else 'at-most-pipe-capacity'

    @staticmethod
    def guardname(b, gd):
        if gd is None:
            return 'unknown'
        if gd[0] == 'group':
            return 'group-' + '+'.join(sorted(set(
                'file' if m[0] == 'file' else m[0] for m in gd[2])))
        if gd[0] == 'file':
            k = b.files[gd[1]][2]
            if k in ('latintxt', 'latincsv', 'latinlong'):
                k = 'latin1-text-by-extension'
            return 'file-%s' % k
        return gd[0]


CHECK = C11()
