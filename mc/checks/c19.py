"""
C19 - tagged runs execute exactly the tagged tests; listing runs none.

E1 over (module structure, argv).  Modules are synthesised in-process; every
test body appends (class, method) to a log.  The REAL entry point
ReferenceTestCase.main(module=m, argv=..., exit=False) is run and compared
with an independent reference: stock unittest.main on a module from which the
model (tagsel) has removed every test it says must not run, with the tdda
options stripped from argv by the model.  So "unittest options keep their usual
meaning" is decided by unittest itself, not by a re-implementation.
"""
import contextlib
import io
import itertools
import sys
import types
import unittest

from mc.engine import Check, Res

TOKENS = ['-1', '--tagged', '-0', '--istagged', '-v', '-q', '-f', '-W',
          '-1v', '-v1', '-k test_a', '-ktest_y', '-kk']
#            token -> (tagged, list, regen, unittest residue)
TOKSEM = {
    '-1': (1, 0, 0, None), '--tagged': (1, 0, 0, None),
    '-0': (0, 1, 0, None), '--istagged': (0, 1, 0, None),
    '-v': (0, 0, 0, '-v'), '-q': (0, 0, 0, '-q'), '-f': (0, 0, 0, '-f'),
    '-W': (0, 0, 1, None), '-1v': (1, 0, 0, '-v'), '-v1': (1, 0, 0, '-v'),
    '-w table': (0, 0, 0, None),
    # unittest's -k PATTERN (separate and attached value): an ordinary
    # unittest option that takes a value
    '-k test_a': (0, 0, 0, '-k test_a'), '-ktest_y': (0, 0, 0, '-ktest_y'),
    # an attached value that itself ends in the option letter (matches no test)
    '-kk': (0, 0, 0, '-kk'),
}
MODNAME = 'mc_synth_mod'


def class_shapes(with_fail):
    """(class_tagged, ((mname, tagged, fails), ...))"""
    out = []
    for ctag in (0, 1):
        for nm in (1, 2):
            for tags in itertools.product((0, 1), repeat=nm):
                fails_opts = [(0,) * nm]
                if with_fail:
                    fails_opts.append((1,) + (0,) * (nm - 1))
                for fails in fails_opts:
                    out.append([ctag, [['test_%s' % 'ab'[i], tags[i], fails[i]]
                                       for i in range(nm)]])
    return out


def structures(tier):
    one = class_shapes(True)
    plain = class_shapes(False)
    for s in one:
        yield [{'name': 'TA', 'tag': s[0], 'base': None, 'methods': s[1]}]
    # tagged methods that are also wrapped by a functools.wraps decorator,
    # the tag applied outermost (@tag above @decorator): still tagged
    for s in plain:
        if any(m[1] for m in s[1]):
            yield [{'name': 'TA', 'tag': s[0], 'base': None,
                    'methods': [[m[0], m[1], m[2], 1 if m[1] else 0]
                                for m in s[1]]}]
    for a in plain:
        for b in plain:
            for base in (None, 'TA'):
                mb = [[m[0].replace('test_', 'test_y'), m[1], m[2]]
                      for m in b[1]]
                yield [{'name': 'TA', 'tag': a[0], 'base': None,
                        'methods': a[1]},
                       {'name': 'TB', 'tag': b[0], 'base': base,
                        'methods': mb}]
    if tier == 'thorough':
        small = [s for s in plain if len(s[1]) == 1]
        for a in plain:
            for b in small:
                for c in small:
                    for bb in (None, 'TA'):
                        for cb in (None, 'TA', 'TB'):
                            yield [
                                {'name': 'TA', 'tag': a[0], 'base': None,
                                 'methods': a[1]},
                                {'name': 'TB', 'tag': b[0], 'base': bb,
                                 'methods': [['test_y', b[1][0][1], 0]]},
                                {'name': 'TC', 'tag': c[0], 'base': cb,
                                 'methods': [['test_z', c[1][0][1], 0]]}]


def argv_seqs(maxlen):
    toks = TOKENS
    for n in range(maxlen + 1):
        for seq in itertools.product(toks, repeat=n):
            yield list(seq)
    # -w consumes everything after it as kinds: only meaningful at the end
    for n in range(maxlen):
        for seq in itertools.product(toks, repeat=n):
            yield list(seq) + ['-w table']


# ------------------------------------------------------------- model (tagsel)

def model_tests(struct):
    """{class: [(method, tagged, fails, certain)]}: every test a class owns
    or inherits.  tagged by the model: method tag, or tag on the class itself
    or (as the decorator sets a class attribute) on a base class.  `certain` is
    False where the statement does not say: an untagged method seen through an
    untagged subclass of a tagged class."""
    byname = dict((c['name'], c) for c in struct)
    out = {}
    for c in struct:
        chain = []
        k = c
        while k is not None:
            chain.append(k)
            k = byname[k['base']] if k['base'] else None
        ctag_own = bool(c['tag'])
        ctag_inh = any(k['tag'] for k in chain)
        tests = {}
        for k in reversed(chain):
            for (m, t, f) in [x[:3] for x in k['methods']]:
                tagged = bool(t) or ctag_inh
                certain = bool(t) or ctag_own or not ctag_inh
                tests[m] = (m, tagged, bool(f), certain)
        out[c['name']] = [tests[m] for m in sorted(tests)]
    return out


def passthrough(fn):
    """An ordinary well-behaved decorator (functools.wraps)."""
    import functools

    @functools.wraps(fn)
    def wrapper(*a, **kw):
        return fn(*a, **kw)
    return wrapper


def build_module(struct, log, keep=None):
    """Fresh module with fresh classes.  keep: None, or a predicate
    (cls, method) -> bool; tests not kept are hidden in that class."""
    from tdda.referencetest import ReferenceTestCase, tag
    mod = types.ModuleType(MODNAME)
    classes = {}
    for c in struct:
        base = classes[c['base']] if c['base'] else ReferenceTestCase
        ns = {'__module__': MODNAME}
        for meth in c['methods']:
            (m, t, f) = meth[:3]
            wrap = meth[3] if len(meth) > 3 else 0

            def body(self, _m=m, _f=f):
                log.append((type(self).__name__, _m))
                if _f:
                    raise AssertionError('deliberate failure')
            body.__name__ = m
            body.__module__ = MODNAME
            if wrap:
                body = passthrough(body)
            if t and keep is None:
                body = tag(body)
            ns[m] = body
        cls = type(c['name'], (base,), ns)
        if c['tag'] and keep is None:
            cls = tag(cls)
        classes[c['name']] = cls
        setattr(mod, c['name'], cls)
    if keep is not None:
        mt = model_tests(struct)
        orig = dict(((cname, t[0]), getattr(classes[cname], t[0]))
                    for cname in mt for t in mt[cname])
        for cname, tests in mt.items():
            for (m, tagged, f, certain) in tests:
                setattr(classes[cname], m,
                        orig[(cname, m)] if keep(cname, m) else None)
    return mod


class RecRunner(object):
    last = None

    def __init__(self, **kw):
        RecRunner.last = dict(kw)
        self.r = unittest.TextTestRunner(stream=io.StringIO(), **kw)

    def run(self, test):
        RecRunner.result = self.r.run(test)
        return RecRunner.result


def observe(fn):
    # unittest.main stores -k patterns on the loader it is given; the stock
    # default loader is a process-wide singleton, so clear what an earlier
    # in-process run left there (a real run is one main() per process)
    unittest.defaultTestLoader.testNamePatterns = None
    RecRunner.last = None
    RecRunner.result = None
    out, err = io.StringIO(), io.StringIO()
    try:
        with contextlib.redirect_stdout(out), contextlib.redirect_stderr(err):
            fn()
        res = RecRunner.result
        kw = RecRunner.last or {}
        return {'kind': 'ran',
                'testsRun': res.testsRun if res else None,
                'failures': len(res.failures) if res else None,
                'errors': len(res.errors) if res else None,
                'verbosity': kw.get('verbosity'),
                'failfast': kw.get('failfast'),
                'stdout': out.getvalue()}
    except SystemExit as e:
        return {'kind': 'exit', 'code': e.code, 'stdout': out.getvalue(),
                'stderr': err.getvalue()[-300:]}


class C19(Check):
    pid = 'C19'
    title = 'tagged runs execute exactly the tagged tests; listing runs none'
    technique = ('bounded exhaustive enumeration of (test-module structure, '
                 'argv sequence) on the real ReferenceTestCase.main, compared '
                 'with stock unittest on the model-filtered module')
    rule = ('cases = every module structure (1-2 classes quick, 3 thorough; '
            'class tag x 1-2 methods each tagged or not x inheritance x a '
            'failing first test) x every argv sequence of <=2 (quick) / <=3 '
            '(thorough) tokens from the 10-token alphabet (+ trailing "-w '
            'table") x trailers {none, class, absent name, tagged method}; '
            'non-trivial = argv carries a tagged or list option and the '
            'module mixes tagged and untagged tests')
    assumptions = [
        'python 3.12 unittest is the reference for the meaning of -v/-q/-f '
        'and class-name selection',
        'repeating the same tdda option twice, naming an untagged method, an '
        'absent name in list mode, and own untagged methods of an untagged '
        'subclass of a tagged class are left unspecified',
    ]

    def layers(self, tier):
        L = [('pytest', 'pytest route: referencepytest.tagged(config, items) on '
                        'stub items for every structure x {--tagged, '
                        '--istagged} subsets x module-level functions'),
             ('process', 'real `python module.py <argv>` subprocesses for '
                         'one-class modules (binds the in-process entry '
                         'point to the real invocation; exit status)'),
             ('argv0', 'no options: every structure, every trailer'),
             ('argv1', 'one option token'),
             ('argv2', 'two option tokens')]
        if tier == 'thorough':
            L.append(('argv3', 'three option tokens'))
        return L

    def cases(self, tier, layer):
        if layer == 'pytest':
            for s in structures(tier):
                for opts in ([], ['--tagged'], ['--istagged'],
                             ['--tagged', '--istagged']):
                    for funcs in ([], [['test_f', 1], ['test_g', 0]]):
                        yield {'struct': s, 'pytest': opts, 'funcs': funcs}
            return
        if layer == 'process':
            for sh in class_shapes(True):
                if len(sh[1]) != 2:
                    continue
                st = [{'name': 'TA', 'tag': sh[0], 'base': None,
                       'methods': sh[1]}]
                quick_shape = (sh[0], sh[1][0][1], sh[1][1][1]) in (
                    (0, 1, 0), (1, 0, 0))
                if tier == 'quick' and not quick_shape:
                    continue
                for a in ([], ['-1'], ['--tagged'], ['-v', '-1'], ['-1v'],
                          ['-0'], ['--tagged', '-f'], ['-q', '--tagged', 'TA'],
                          ['-1', '-W'], ['-f', '--istagged']):
                    if tier == 'quick' and a not in (
                            [], ['-v', '-1'], ['-1v'], ['-0'],
                            ['--tagged', '-f']):
                        continue
                    yield {'struct': st, 'process_argv': a}
            return
        n = int(layer[-1])
        for s in structures(tier):
            if n == 3 and len(s) > 2:
                continue
            for a in argv_seqs(n):
                ntok = len(a)
                if ntok != n:
                    continue
                yield {'struct': s, 'argv': a}

    def setup_worker(self, tier):
        import tdda.referencetest.referencetestcase as rtc
        from tdda.referencetest.referencetest import ReferenceTest
        self.rtc = rtc
        self.RT = ReferenceTest

    def reset(self):
        self.RT.regenerate.clear()
        self.RT.verbose = True
        self.rtc.ReferenceTestCase.verbose = True

    def run_pytest_case(self, case):
        from tdda.referencetest import referencepytest, tag
        R = Res()
        struct, opts, funcs = case['struct'], case['pytest'], case['funcs']
        log = []
        mod = build_module(struct, log)
        mt = model_tests(struct)

        class Item(object):
            def __init__(self, obj, name, ident, tagged, certain):
                self.obj, self.name = obj, name
                self.ident, self.mtagged, self.certain = ident, tagged, certain

        items = []
        for (fname, ftag) in funcs:
            def fn():
                pass
            fn.__name__ = fname
            fn.__module__ = MODNAME
            if ftag:
                fn = tag(fn)
            items.append(Item(fn, fname, fname, bool(ftag), True))
        for c in sorted(mt):
            cls = getattr(mod, c)
            for (m, tg, f, ce) in mt[c]:
                inst = cls(m)
                items.append(Item(getattr(inst, m), m, '%s.%s' % (c, m), tg, ce))

        class Config(object):
            def getoption(self, name, default=None):
                return True if name in opts else default

        before = list(items)
        out = io.StringIO()
        with contextlib.redirect_stdout(out):
            referencepytest.tagged(Config(), items)
        R.ev()
        ntag = sum(1 for i in before if i.mtagged)
        R.nontrivial = bool(opts) and 0 < ntag < len(before)
        printed = out.getvalue().split()
        R.out('pytest:%s:%d/%d' % ('+'.join(o[2:] for o in opts) or 'none',
                                   len(items), len(before)))
        sig = 'pytest-route:%s' % ('+'.join(o[2:] for o in opts) or 'none')
        if '--istagged' in opts:
            if items:
                R.viol(sig + ':items-left', 'list-runs-none',
                       {'opts': opts, 'left': [i.ident for i in items]})
            if all(i.certain for i in before):
                want = set('%s.%s' % (MODNAME, c) for c in mt
                           if any(tg for (m, tg, f, ce) in mt[c]))
                want |= set('%s.%s' % (MODNAME, n) for (n, t) in funcs if t)
                if set(printed) != want:
                    R.viol(sig + ':names', 'list-names-classes',
                           {'opts': opts, 'printed': sorted(set(printed)),
                            'expected': sorted(want)})
            else:
                R.unspec += 1
        elif '--tagged' in opts:
            got = [i.ident for i in items]
            must = [i.ident for i in before if i.mtagged and i.certain]
            may = set(i.ident for i in before if not i.certain)
            if not all(i.certain for i in before):
                R.unspec += 1
            if [g for g in got if g not in may] != must:
                R.viol(sig + ':selection', 'executed-exactly-tagged',
                       {'opts': opts, 'kept': got, 'expected': must})
        else:
            if [i.ident for i in items] != [i.ident for i in before] or printed:
                R.viol(sig + ':untouched', 'without-option-every-test-runs',
                       {'kept': [i.ident for i in items], 'printed': printed})
        return R

    def run_process_case(self, case):
        import os
        import shutil
        import subprocess
        import tempfile
        from mc import engine
        R = Res()
        struct, argv = case['struct'], case['process_argv']
        c = struct[0]
        d = tempfile.mkdtemp(prefix='mc_c19_', dir='/var/tmp')
        try:
            src = ['from tdda.referencetest import ReferenceTestCase, tag',
                   'import os',
                   'LOG = os.path.join(os.path.dirname(os.path.abspath('
                   '__file__)), "log.txt")']
            if c['tag']:
                src.append('@tag')
            src.append('class TA(ReferenceTestCase):')
            for (m, t, f) in [x[:3] for x in c['methods']]:
                if t:
                    src.append('    @tag')
                src.append('    def %s(self):' % m)
                src.append('        open(LOG, "a").write("%s\\n")' % m)
                if f:
                    src.append('        self.fail("deliberate")')
            src.append("if __name__ == '__main__':")
            src.append('    ReferenceTestCase.main()')
            path = os.path.join(d, 'synthmod.py')
            with open(path, 'w') as fh:
                fh.write('\n'.join(src) + '\n')
            env = dict(os.environ, PYTHONPATH=engine.TDDA_SRC,
                       PYTHONDONTWRITEBYTECODE='1')
            p = subprocess.run([sys.executable, path] + argv, cwd=d, env=env,
                               capture_output=True, text=True, timeout=120)
            R.ev()
            logp = os.path.join(d, 'log.txt')
            ran = open(logp).read().split() if os.path.exists(logp) else []
        finally:
            shutil.rmtree(d, ignore_errors=True)
        flags = [a for a in argv if a.startswith('-')]
        tagged = any(a in ('-1', '--tagged', '-1v') for a in flags)
        listing = any(a in ('-0', '--istagged') for a in flags)
        failfast = '-f' in flags
        tests = sorted(x[:3] for x in c['methods'])
        if listing:
            want = []
        else:
            want = []
            for (m, t, f) in tests:
                if tagged and not (t or c['tag']):
                    continue
                want.append(m)
                if f and failfast:
                    break
        anyfail = any(f for (m, t, f) in tests if m in want)
        R.nontrivial = tagged or listing
        R.out('process:rc%d:ran%d' % (p.returncode, len(ran)))
        sg = self.sig(flags, 'process')
        if ran != want:
            R.viol(sg + ':executed', 'executed-exactly-tagged',
                   {'argv': argv, 'ran': ran, 'expected': want,
                    'rc': p.returncode, 'stderr': p.stderr[-300:]})
        elif want:
            wantrc = 1 if anyfail else 0
            if p.returncode != wantrc:
                R.viol(sg + ':exit-status', 'exit-status-reflects-results',
                       {'argv': argv, 'rc': p.returncode, 'expected': wantrc,
                        'stderr': p.stderr[-300:]})
        else:
            R.unspec += 1     # exit status of a run that executes no test
        if listing:
            names = set(l.strip() for l in p.stdout.split() if l.strip())
            wantn = set(['__main__.TA']) if (c['tag'] or any(
                t for (m, t, f) in tests)) else set()
            if names != wantn:
                R.viol(sg + ':names', 'list-names-classes',
                       {'argv': argv, 'printed': sorted(names),
                        'expected': sorted(wantn)})
        return R

    def run_case(self, case):
        if 'pytest' in case:
            return self.run_pytest_case(case)
        if 'process_argv' in case:
            return self.run_process_case(case)
        R = Res()
        struct, argv = case['struct'], case['argv']
        sem = [TOKSEM[t] for t in argv]
        n_tag = sum(s[0] for s in sem)
        n_list = sum(s[1] for s in sem)
        n_reg = sum(s[2] for s in sem)
        repeated = n_tag > 1 or n_list > 1 or n_reg > 1
        tagged, listing = n_tag > 0, n_list > 0
        want_regen = {}
        if n_reg:
            want_regen[None] = True
        if '-w table' in argv:
            want_regen['table'] = True
        residue = []
        for s3 in [s[3] for s in sem if s[3]]:
            residue.extend(s3.split(' '))
        flat = []
        for t in argv:
            flat.extend(t.split(' '))
        mt = model_tests(struct)
        alltests = [(c, m) for c in sorted(mt) for (m, tg, f, ce) in mt[c]]
        ntagged = sum(1 for c in mt for (m, tg, f, ce) in mt[c] if tg)
        R.nontrivial = (tagged or listing) and 0 < ntagged < len(alltests)
        tagged_method = None
        for c in struct:
            if c['name'] == 'TA':
                for (m, t, f) in [x[:3] for x in c['methods']]:
                    if t and tagged_method is None:
                        tagged_method = 'TA.' + m
        trailers = [None, 'TA', 'Nope']
        if tagged_method:
            trailers.append(tagged_method)
        if '-w table' in argv:
            trailers = [None]
        for tr in trailers:
            sub = {'trailer': tr}
            uncertain = repeated
            if tr == 'Nope' and listing:
                uncertain = True
            # ---- real
            self.reset()
            log = []
            mod = build_module(struct, log)
            real_argv = ['prog'] + flat + ([tr] if tr else [])
            real = observe(lambda: self.rtc.ReferenceTestCase.main(
                module=mod, argv=list(real_argv), exit=False,
                testRunner=RecRunner))
            real_log = list(log)
            regen_after = dict(self.RT.regenerate)
            self.reset()
            R.ev()
            # ---- reference
            if listing:
                def keep(c, m):
                    return False
            elif tagged:
                def keep(c, m):
                    return dict((x[0], x[1]) for x in mt[c])[m]
            else:
                def keep(c, m):
                    return True
            if tagged and not listing:
                for c in mt:
                    for (m, tg, f, ce) in mt[c]:
                        if not ce:
                            uncertain = True
            log2 = []
            mod2 = build_module(struct, log2, keep=keep)
            ref_argv = ['prog'] + residue + ([tr] if tr else [])
            if listing and tr == tagged_method and tr:
                # naming a method directly bypasses class filtering in stock
                # unittest; the statement says nothing runs in list mode
                ref = None
            else:
                ref = observe(lambda: unittest.main(
                    module=mod2, argv=list(ref_argv), exit=False,
                    testRunner=RecRunner))
            if uncertain:
                R.unspec += 1
                R.out('unspecified')
                continue
            # ---- compare
            if real['kind'] == 'exit':
                R.out('exit:%s' % real['code'])
                if ref is None or ref['kind'] != 'exit':
                    R.viol(self.sig(argv, 'usage-error'), 'options-keep-meaning',
                           {'argv': real_argv, 'real': real,
                            'expected': 'tests run, no usage error'}, sub)
                continue
            if listing:
                R.out('list:%d' % len(real['stdout'].split()))
                if real_log:
                    R.viol(self.sig(argv, 'list-runs-tests'), 'list-runs-none',
                           {'argv': real_argv, 'ran': real_log}, sub)
                sel = [c for c in sorted(mt)
                       if (tr is None or tr.split('.')[0] == c)]
                # -k patterns narrow the selection like a class name does
                # (unittest: substring match on the full test id)
                pats = [t.split(' ', 1)[1] if ' ' in t else t[2:]
                        for t in argv if t.startswith('-k')]

                def kmatch(c, m):
                    import fnmatch
                    full = '%s.%s.%s' % (MODNAME, c, m)
                    return not pats or any(
                        fnmatch.fnmatchcase(full, '*%s*' % p) for p in pats)
                if tr and '.' in tr:
                    # an explicitly named method is loaded directly; stock
                    # unittest does not apply -k patterns to it
                    want = set(['%s.%s' % (MODNAME, 'TA')])
                else:
                    want = set('%s.%s' % (MODNAME, c) for c in sel
                               if any(tg and kmatch(c, m)
                                      for (m, tg, f, ce) in mt[c]))
                    if any(not ce for c in sel for (m, tg, f, ce) in mt[c]):
                        R.unspec += 1
                        continue
                got = set(real['stdout'].split())
                if got != want:
                    R.viol(self.sig(argv, 'list-names'), 'list-names-classes',
                           {'argv': real_argv, 'printed': sorted(got),
                            'expected': sorted(want)}, sub)
                if regen_after != want_regen:
                    R.viol(self.sig(argv, 'regen-flag'), 'write-option-meaning',
                           {'argv': real_argv, 'regenerate': str(regen_after)},
                           sub)
                continue
            R.out('ran:%d/%d' % (len(real_log), len(alltests)))
            if ref['kind'] == 'exit':
                R.viol(self.sig(argv, 'no-usage-error'), 'options-keep-meaning',
                       {'argv': real_argv, 'reference': ref, 'real': real}, sub)
                continue
            if sorted(real_log) != sorted(log2):
                R.viol(self.sig(argv, 'executed-set'), 'executed-exactly-tagged',
                       {'argv': real_argv, 'ran': real_log, 'expected': log2},
                       sub)
            elif real_log != log2:
                R.viol(self.sig(argv, 'order'), 'options-keep-meaning',
                       {'argv': real_argv, 'ran': real_log, 'expected': log2},
                       sub)
            for k in ('testsRun', 'failures', 'errors', 'verbosity',
                      'failfast'):
                if real[k] != ref[k]:
                    R.viol(self.sig(argv, k), 'options-keep-meaning',
                           {'argv': real_argv, 'field': k, 'real': real[k],
                            'expected': ref[k]}, sub)
            if regen_after != want_regen:
                R.viol(self.sig(argv, 'regen-flag'), 'write-option-meaning',
                       {'argv': real_argv, 'regenerate': str(regen_after)}, sub)
        return R

    @staticmethod
    def sig(argv, what):
        """root-cause discriminator: the *shape* of the argv."""
        shape = []
        for t in argv:
            if t in ('-1', '-0', '-W'):
                shape.append('tddashort')
            elif t in ('--tagged', '--istagged'):
                shape.append('tddalong')
            elif t in ('-1v', '-v1'):
                shape.append('combined')
            elif t == '-w table':
                shape.append('-w')
            elif t.startswith('-k'):
                shape.append('-k-separate' if ' ' in t else '-k-attached')
            else:
                shape.append('ut')
        return '%s:%s' % (what, '+'.join(shape) or 'none')


CHECK = C19()
